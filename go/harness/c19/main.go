// Correspondence harness for C19: the merge planner (index/mergeplan).
//
// Streams (all lines of a case follow its "case " header):
//
//	plan    <opts> | <segs> | <scores>     real mergeplan.Plan on a generated segment list
//	score   <opts> | <segs>                real mergeplan.ScoreSegments on one roster
//	budget  <per> <growth> <total> <first> real mergeplan.CalcBudget
//	hist:   "case h<N> <opts>" then add / del / step / settle lines: a simulated history (arrivals of
//	        small segments, deletions, "step" = one real Plan + execution of every planned task on
//	        sizes only, "settle N" = steps until the real planner returns no task, at most N); the
//	        model op line of a step is "hplan <nextID> | <scores>"; the planner is always the real one.
//
//	real    <opts> <batches> <seed>        a REAL writer (file-system directory) is driven through <batches> batches
//	        of inserts, updates and deletes with these merge-plan options; every call of the planner by the real
//	        merger is recorded (CalcBudget / ScoreSegments hooks of MergePlanOptions + the root trace of the verif
//	        build) and becomes one line "rplan <opts> | <segs> | <scores>": the real Plan re-run on exactly the
//	        segment list the merger passed; the driver first evaluates idsDistinct / sizesSane on it.
//	defaults                               the MergePlanOptions of index.DefaultConfig / InMemoryOnlyConfig / DefaultConfigWithDirectory
//	        (what every writer plans with) and mergeplan.DefaultMergePlanOptions, field by field
//	wplan   <fs|mem|dir> | <segs>          a plan line with the writer's options (resolved from the real constructor at exec
//	        time; the model line carries them); "case hw<N> <fs|mem|dir>" is a history with them (2000-document batches far
//	        beyond the first tier); the driver also judges the budget the planner computed against budget_logarithmic_rat
//	witness                                the real ScoreSegments on the six rosters of the Lean witness
//	        livelock_real_scores
//	livelock: the concrete input of the finding plan-only-noop-singletons as a plan line and as a history; only
//	        generated when /verif/known_findings.json lists the finding as open (or VERIF_C19_LIVELOCK=1), so
//	        that the unchanged tree is green until the lead has recorded it.
//
// <opts>  = MaxSegmentsPerTier MaxSegmentSize SegmentsPerMergeTask FloorSegmentSize TierGrowth ReclaimDeletesWeight
//
//	(the two floats as %016x bit patterns)
//
// <segs>  = "id:full:live id:full:live ..." or "-"
// <scores> = "id.id.id=%016x ..." : every distinct roster the real planner scored, with Go's score
//
//	(omitted, "-", when there are too many); the model uses them as its `score` parameter
//	and separately compares its own Float scorer against them.
//
// Each Plan call runs in a goroutine with a deadline and a cap on the number of rosters it may score: a
// planner that does not return is the observation "timeout" / "runaway", not the death of the harness.
package main

import (
	"encoding/json"
	"fmt"
	"math"
	"os"
	"path/filepath"
	"sort"
	"strconv"
	"strings"
	"sync"
	"time"

	"github.com/blugelabs/bluge"
	"github.com/blugelabs/bluge/index"
	"github.com/blugelabs/bluge/index/mergeplan"
	segment "github.com/blugelabs/bluge_segment_api"

	"verif/harness/hlib"
)

type h struct {
	hist *history
}

func (*h) Rule() string {
	return "plan: segment lists of 0..60 (quick: some up to 600, thorough: up to 5000) segments with ids in random order; sizes uniform-small, log-uniform from 0 to 2*MaxSegmentSize, all-equal, tier staircases, boundary values around MaxSegmentSize/2 and sums hitting MaxSegmentSize exactly, many empties; live = full minus an arbitrary deleted fraction (0, all, small, random); options: the defaults and small ones (MaxSegmentsPerTier 1..10, MaxSegmentSize 2..1000 and 5e6, SegmentsPerMergeTask 1..10, FloorSegmentSize 0..2000, TierGrowth 1..10, ReclaimDeletesWeight 0..3); a separate malformed stream (MaxSegmentSize <= 1, SegmentsPerMergeTask <= 0, negative sizes, live > full, duplicate ids). hist: per case 3..40 rounds of arrivals of small segments, deletions and real Plan + execution on sizes, then plan/execute until no task. History options satisfy histOptionsSane (MaxSegmentSize >= 2, SegmentsPerMergeTask >= 2) except for every twelfth history, which has SegmentsPerMergeTask = 1, which the driver judges na. real: real file-system writers (ice v1) driven through 8..60 batches of inserts, updates and deletes over a small id space with small merge-plan options; every planner call of the real merger is recorded and re-run (rplan). budget: the real CalcBudget against the float transcription and, when every float operation is exact, against the exact staircases over the naturals (whole-number growth) and over num/den (dyadic growth such as 1.5, 2.5). A plan case is non-trivial when the real planner returned at least one task; a history step when it changed the state; a real case when the merger called the planner at least once with two or more persisted segments."
}

// ---------------------------------------------------------------- segments and options

type seg struct {
	id         uint64
	full, live int64
}

func (s *seg) ID() uint64      { return s.id }
func (s *seg) FullSize() int64 { return s.full }
func (s *seg) LiveSize() int64 { return s.live }

type opts struct {
	per     int
	max     int64
	perTask int
	floor   int64
	growth  float64
	weight  float64
}

func (o opts) String() string {
	return fmt.Sprintf("%d %d %d %d %016x %016x", o.per, o.max, o.perTask, o.floor, math.Float64bits(o.growth), math.Float64bits(o.weight))
}

func (o opts) real() *mergeplan.Options {
	return &mergeplan.Options{MaxSegmentsPerTier: o.per, MaxSegmentSize: o.max, TierGrowth: o.growth,
		SegmentsPerMergeTask: o.perTask, FloorSegmentSize: o.floor, ReclaimDeletesWeight: o.weight}
}

func parseOpts(w []string) (opts, bool) {
	if len(w) < 6 {
		return opts{}, false
	}
	var o opts
	var err error
	bad := false
	chk := func(e error) {
		if e != nil {
			bad = true
		}
	}
	o.per, err = strconv.Atoi(w[0])
	chk(err)
	o.max, err = strconv.ParseInt(w[1], 10, 64)
	chk(err)
	o.perTask, err = strconv.Atoi(w[2])
	chk(err)
	o.floor, err = strconv.ParseInt(w[3], 10, 64)
	chk(err)
	g, err := strconv.ParseUint(w[4], 16, 64)
	chk(err)
	rw, err := strconv.ParseUint(w[5], 16, 64)
	chk(err)
	o.growth, o.weight = math.Float64frombits(g), math.Float64frombits(rw)
	return o, !bad
}

func segsString(ss []*seg) string {
	if len(ss) == 0 {
		return "-"
	}
	var b strings.Builder
	for i, s := range ss {
		if i > 0 {
			b.WriteByte(' ')
		}
		fmt.Fprintf(&b, "%d:%d:%d", s.id, s.full, s.live)
	}
	return b.String()
}

func parseSegs(s string) ([]*seg, bool) {
	if s == "-" || s == "" {
		return nil, true
	}
	var out []*seg
	for _, f := range strings.Split(s, " ") {
		p := strings.Split(f, ":")
		if len(p) != 3 {
			return nil, false
		}
		id, e1 := strconv.ParseUint(p[0], 10, 64)
		fu, e2 := strconv.ParseInt(p[1], 10, 64)
		li, e3 := strconv.ParseInt(p[2], 10, 64)
		if e1 != nil || e2 != nil || e3 != nil {
			return nil, false
		}
		out = append(out, &seg{id, fu, li})
	}
	return out, true
}

func asSegments(ss []*seg) []mergeplan.Segment {
	out := make([]mergeplan.Segment, len(ss))
	for i, s := range ss {
		out[i] = s
	}
	return out
}

func tasksString(p *mergeplan.MergePlan) string {
	if p == nil {
		return "nil"
	}
	if len(p.Tasks) == 0 {
		return "-"
	}
	var b strings.Builder
	for i, t := range p.Tasks {
		if i > 0 {
			b.WriteByte(';')
		}
		if t == nil {
			b.WriteString("niltask")
			continue
		}
		for j, s := range t.Segments {
			if j > 0 {
				b.WriteByte(',')
			}
			b.WriteString(strconv.FormatUint(s.ID(), 10))
		}
	}
	return b.String()
}

func rosterKey(r []mergeplan.Segment) string {
	var b strings.Builder
	for i, s := range r {
		if i > 0 {
			b.WriteByte('.')
		}
		b.WriteString(strconv.FormatUint(s.ID(), 10))
	}
	return b.String()
}

// ---------------------------------------------------------------- running the real planner

const planDeadline = 10 * time.Second
const maxScoreEntries = 1500
const maxScoreBytes = 200000

type planObs struct {
	plain   string // tasks of Plan with nil hooks (the library's own CalcBudget / ScoreSegments)
	hooked  string // tasks of Plan with recording hooks that call the library's functions
	budget  string // "budget(total,first)=b" as the planner called it, or "budget=-" if it never did
	scores  string // recorded scores, or "-"
	nScored int
	plan    *mergeplan.MergePlan
}

// callPlan calls the real planner in a goroutine with a deadline; "timeout", "runaway" and "panic" are
// observations. After the first timeout the planner is not called again in this process (the stuck
// goroutine keeps a core busy): later calls report "skipped-after-timeout".
var plannerStuck bool

const runawayMark = "c19-runaway"

func callPlan(segs []mergeplan.Segment, o *mergeplan.Options) (res string, plan *mergeplan.MergePlan) {
	if plannerStuck {
		return "skipped-after-timeout", nil
	}
	type r struct {
		s string
		p *mergeplan.MergePlan
	}
	ch := make(chan r, 1)
	go func() {
		defer func() {
			if e := recover(); e != nil {
				if e == runawayMark {
					ch <- r{"runaway", nil}
				} else {
					ch <- r{"panic", nil}
				}
			}
		}()
		p, err := mergeplan.Plan(segs, o)
		if err != nil {
			ch <- r{"err", nil}
			return
		}
		ch <- r{tasksString(p), p}
	}()
	select {
	case x := <-ch:
		return x.s, x.p
	case <-time.After(planDeadline):
		plannerStuck = true
		return "timeout", nil
	}
}

// observePlan runs the planner twice: first with recording hooks that call the library's own
// CalcBudget / ScoreSegments (and stop a planner that scores more rosters than any terminating run can:
// at most one roster per start index per iteration, at most one iteration per eligible segment), then
// with nil hooks (the library's defaults); both must return the same tasks.
func observePlan(ss []*seg, o opts) planObs {
	var ob planObs
	segs := asSegments(ss)
	ro := o.real()
	ob.budget = "budget=-"
	ro.CalcBudget = func(total, first int64, oo *mergeplan.Options) int {
		b := mergeplan.CalcBudget(total, first, oo)
		ob.budget = fmt.Sprintf("budget(%d,%d)=%d", total, first, b)
		return b
	}
	seen := map[string]bool{}
	var sb strings.Builder
	over := false
	scoreCap := len(ss)*len(ss) + len(ss) + 10
	ro.ScoreSegments = func(r []mergeplan.Segment, oo *mergeplan.Options) float64 {
		v := mergeplan.ScoreSegments(r, oo)
		ob.nScored++
		if ob.nScored > scoreCap {
			panic(runawayMark)
		}
		if !over {
			k := rosterKey(r)
			if !seen[k] {
				seen[k] = true
				if len(seen) > maxScoreEntries || sb.Len() > maxScoreBytes {
					over = true
				} else {
					if sb.Len() > 0 {
						sb.WriteByte(' ')
					}
					fmt.Fprintf(&sb, "%s=%016x", k, math.Float64bits(v))
				}
			}
		}
		return v
	}
	ob.hooked, ob.plan = callPlan(segs, ro)
	if over || sb.Len() == 0 {
		ob.scores = "-"
	} else {
		ob.scores = sb.String()
	}
	switch ob.hooked {
	case "timeout", "runaway", "skipped-after-timeout":
		ob.plain = ob.hooked
		ob.scores = "-"
		return ob
	}
	ob.plain, ob.plan = callPlan(segs, o.real())
	return ob
}

// result string of a plan observation: what the model must reproduce
func (ob planObs) result() string {
	if ob.plain != ob.hooked {
		return "hook-divergence plain=" + ob.plain + " hooked=" + ob.hooked
	}
	switch ob.plain {
	case "nil", "timeout", "runaway", "skipped-after-timeout", "panic", "err":
		return ob.plain
	}
	return ob.budget + " tasks=" + ob.plain + " scores=ok"
}

// growthFraction: the exact value of a float64 >= 1 as num/den in lowest terms (den a power of two), when both
// are below 2^20 (the Lean driver decomposes the bit pattern the same way).
func growthFraction(g float64) (num, den uint64, ok bool) {
	b := math.Float64bits(g)
	e := (b >> 52) & 0x7ff
	m := (b & (1<<52 - 1)) | 1<<52
	if b>>63 == 1 || e == 0 || e == 0x7ff {
		return 0, 0, false
	}
	if e >= 1075 {
		if e-1075 > 11 {
			return 0, 0, false
		}
		num, den = m<<(e-1075), 1
	} else {
		sh := 1075 - e
		for sh > 0 && m%2 == 0 {
			m /= 2
			sh--
		}
		if sh >= 20 {
			return 0, 0, false
		}
		num, den = m, 1<<sh
	}
	if num < 1<<20 && den < 1<<20 && num >= den {
		return num, den, true
	}
	return 0, 0, false
}

// findingListed: is the finding recorded as open in known_findings.json (cwd of ./check is /verif)?
func findingListed(sig string) bool {
	if os.Getenv("VERIF_C19_LIVELOCK") == "1" {
		return true
	}
	root := os.Getenv("VERIF_ROOT")
	if root == "" {
		root = "."
	}
	raw, err := os.ReadFile(filepath.Join(root, "known_findings.json"))
	if err != nil {
		return false
	}
	var kf struct {
		Findings []struct {
			Property  string `json:"property"`
			Signature string `json:"signature"`
			Status    string `json:"status"`
		} `json:"findings"`
	}
	if json.Unmarshal(raw, &kf) != nil {
		return false
	}
	for _, f := range kf.Findings {
		if f.Property == "C19" && f.Signature == sig && f.Status == "open" {
			return true
		}
	}
	return false
}

// ---------------------------------------------------------------- generators

var smallMax = []int64{2, 3, 4, 5, 6, 8, 10, 16, 20, 50, 100, 1000}
var growths = []float64{1, 1.5, 2, 2.5, 3, 10, 10, 10}
var weights = []float64{0, 1, 2, 2, 3, 0.5}
var floors = []int64{0, 1, 2, 10, 100, 2000}

func defaultOpts() opts { return opts{10, 5000000, 10, 2000, 10.0, 2.0} }

func genOpts(r *hlib.Rand) opts {
	switch r.Weighted(3, 4, 3) {
	case 0:
		return defaultOpts()
	case 1: // small MaxSegmentSize so that the guards bite
		return opts{per: r.Range(1, 10), max: smallMax[r.Intn(len(smallMax))], perTask: r.Range(1, 10),
			floor: floors[r.Intn(4)], growth: growths[r.Intn(len(growths))], weight: weights[r.Intn(len(weights))]}
	default: // around the defaults
		o := defaultOpts()
		o.per = r.Range(1, 10)
		o.perTask = r.Range(1, 10)
		if r.Chance(50) {
			o.max = []int64{20000, 100000, 5000000, 1 << 30, 1<<31 - 1}[r.Intn(5)]
		}
		o.floor = floors[r.Intn(len(floors))]
		o.growth = growths[r.Intn(len(growths))]
		o.weight = weights[r.Intn(len(weights))]
		return o
	}
}

// budgetIters simulates CalcBudget's loop and returns its iteration count (capped).
func budgetIters(total, first int64, o opts, cap int) int {
	tier := first
	if tier < 1 {
		tier = 1
	}
	per := o.per
	if per < 1 {
		per = 1
	}
	g := o.growth
	if !(g >= 1) {
		g = 1
	}
	n := 0
	for total > 0 && n < cap {
		n++
		if float64(total)/float64(tier) < float64(per) {
			break
		}
		total -= int64(per) * tier
		t := float64(tier) * g
		if t > 1e17 {
			break
		}
		tier = int64(t)
	}
	return n
}

// tame keeps CalcBudget's loop short (growth 1 with a tiny first tier walks total/(per*first) steps).
func tame(ss []*seg, o opts) opts {
	var total, min int64 = 0, math.MaxInt64
	for _, s := range ss {
		if s.live < min {
			min = s.live
		}
		if s.live < o.max/2 {
			total += s.live
		}
	}
	if min < o.floor {
		min = o.floor
	}
	for i := 0; i < 8 && budgetIters(total, min, o, 100001) > 100000; i++ {
		if o.growth < 2 {
			o.growth = 2
		} else if o.floor < 1 {
			o.floor = 1
		} else {
			o.floor *= 10
			min = o.floor
		}
	}
	return o
}

func shuffle(r *hlib.Rand, ss []*seg) {
	for i := len(ss) - 1; i > 0; i-- {
		j := r.Intn(i + 1)
		ss[i], ss[j] = ss[j], ss[i]
	}
}

func logUniform(r *hlib.Rand, hi int64) int64 {
	if hi < 1 {
		return 0
	}
	bits := 0
	for v := hi; v > 0; v >>= 1 {
		bits++
	}
	k := r.Intn(bits + 1)
	if k == 0 {
		return 0
	}
	v := int64(r.U64() & (1<<uint(k) - 1))
	if v > hi {
		v = hi
	}
	return v
}

// genSizes: full sizes of n segments for options o
func genSizes(r *hlib.Rand, n int, o opts, shape int) []int64 {
	out := make([]int64, n)
	half := o.max / 2
	switch shape {
	case 0: // uniform small (relative to max/2)
		top := half
		if top < 4 {
			top = 4
		}
		for i := range out {
			out[i] = int64(r.Intn(int(min64(top, 1<<30))))
		}
	case 1: // log-uniform 0 .. 2*max
		for i := range out {
			out[i] = logUniform(r, 2*o.max)
		}
	case 2: // all equal / few distinct values (duplicate sizes)
		k := r.Range(1, 3)
		vals := make([]int64, k)
		for i := range vals {
			vals[i] = logUniform(r, o.max)
		}
		for i := range out {
			out[i] = vals[r.Intn(k)]
		}
	case 3: // staircase of tiers: per segments of size floor*growth^k
		sz := o.floor
		if sz < 1 {
			sz = 1
		}
		g := o.growth
		if g < 2 {
			g = 2
		}
		w := r.Range(1, 12)
		for i := range out {
			out[i] = sz + int64(r.Intn(3)) - 1
			if (i+1)%w == 0 {
				sz = int64(float64(sz) * g)
				if sz > 2*o.max {
					sz = o.floor + 1
				}
			}
		}
	case 4: // boundaries: max/2 -1,0,+1 ; max -1,0,+1 ; 0 ; 1 ; pieces that add up to max exactly
		cands := []int64{0, 0, 1, 1, 2, half - 1, half, half + 1, o.max - 1, o.max, o.max + 1, half / 2, half/2 + 1, o.max / 3, o.max - 2*(half-1), o.max - (half - 1), o.max - 2*(half-1) - 1, o.max - 2*(half-1) + 1}
		for i := range out {
			v := cands[r.Intn(len(cands))]
			if v < 0 {
				v = 0
			}
			out[i] = v
		}
	case 5: // one big, many tiny (budget from a long staircase)
		for i := range out {
			out[i] = int64(r.Intn(5))
		}
		if n > 0 {
			out[0] = half - 1
		}
		if n > 1 && r.Bool() {
			out[1] = half - 1 - int64(r.Intn(3))
		}
	default: // arrivals of equal small batches
		b := int64(r.Range(1, 50))
		for i := range out {
			out[i] = b
		}
	}
	for i := range out {
		if out[i] < 0 {
			out[i] = 0
		}
	}
	return out
}

func min64(a, b int64) int64 {
	if a < b {
		return a
	}
	return b
}

// liveOf: arbitrary deleted fraction
func liveOf(r *hlib.Rand, full int64, mode int) int64 {
	if full <= 0 {
		return 0
	}
	switch mode {
	case 0:
		return full // no deletions anywhere
	case 1: // random fraction
		switch r.Weighted(4, 2, 2, 2) {
		case 0:
			return full
		case 1:
			return 0
		case 2:
			return full - int64(r.Intn(int(min64(full, 3))+1))
		default:
			return int64(r.U64() % uint64(full+1))
		}
	case 2: // heavy deletions
		return int64(r.U64() % uint64(full/4+1))
	default: // mostly empty
		if r.Chance(70) {
			return 0
		}
		return full
	}
}

func genList(r *hlib.Rand, n int, o opts) []*seg {
	shape := r.Intn(7)
	sizes := genSizes(r, n, o, shape)
	mode := r.Weighted(3, 4, 2, 1)
	ids := make([]uint64, n)
	base := uint64(r.Intn(1000))
	for i := range ids {
		ids[i] = base + uint64(i)
	}
	for i := len(ids) - 1; i > 0; i-- {
		j := r.Intn(i + 1)
		ids[i], ids[j] = ids[j], ids[i]
	}
	ss := make([]*seg, n)
	for i := range ss {
		ss[i] = &seg{ids[i], sizes[i], liveOf(r, sizes[i], mode)}
	}
	shuffle(r, ss)
	return ss
}

func planLine(ss []*seg, o opts) string {
	return "plan " + o.String() + " | " + segsString(ss)
}

func (*h) Gen(r *hlib.Rand, tier string, scale int, emit func(string)) {
	thorough := tier == "thorough"
	nc := 0
	emitPlan := func(ss []*seg, o opts) {
		nc++
		emit(fmt.Sprintf("case p%d", nc))
		emit(planLine(ss, o))
	}
	// --- fixed corpus: the shapes of merge_plan_test.go and the boundary cases of the guards
	d := defaultOpts()
	emitPlan(nil, d)
	emitPlan([]*seg{{1, 1, 1}}, d)
	emitPlan([]*seg{{1, 5, 0}}, d) // a lone empty segment
	emitPlan([]*seg{{1, 1, 1}, {2, 2, 2}}, d)
	emitPlan([]*seg{{1, 5, 0}, {2, 7, 0}}, d)
	emitPlan([]*seg{{1, 5, 0}, {2, 7, 3}, {3, 1, 1}}, d)
	for _, m := range []int64{2, 3, 4, 5, 10, 11} {
		o := opts{1, m, 3, 0, 2, 2}
		half := m / 2
		var ss []*seg
		id := uint64(1)
		for _, v := range []int64{half - 1, half, half + 1, m - 1, m, 1, 1, 1, 2, 0} {
			if v < 0 {
				continue
			}
			ss = append(ss, &seg{id, v + 1, v})
			id++
		}
		emitPlan(ss, o)
	}
	// --- the score table of the Lean witness livelock_real_scores, and (once it is a recorded finding) its input
	emit("case w1")
	emit("witness")
	if findingListed("plan-only-noop-singletons") {
		lo := opts{1, 5000000, 10, 2000, 100.0, 2.0}
		emitPlan([]*seg{{1, 362321, 362321}, {2, 42807, 42807}, {3, 5041, 5041}}, lo)
		emitPlan([]*seg{{1, 5983, 5983}, {2, 431, 431}, {3, 30, 30}, {4, 1, 1}}, opts{1, 100000, 2, 2, 100.0, 2.0})
		emit("case h900000 " + lo.String())
		emit("add 1:362321:362321 2:42807:42807 3:5041:5041")
		emit("settle 6")
	}
	// --- generated lists
	n := 900 * scale
	if thorough {
		n = 25000 * scale
	}
	for i := 0; i < n; i++ {
		o := genOpts(r)
		var cnt int
		switch r.Weighted(20, 50, 25, 5) {
		case 0:
			cnt = r.Intn(5)
		case 1:
			cnt = r.Range(2, 25)
		case 2:
			cnt = r.Range(10, 60)
		default:
			cnt = r.Range(60, 160)
		}
		ss := genList(r, cnt, o)
		emitPlan(ss, tame(ss, o))
	}
	// larger lists (no scores in the line: the model runs its own Float scorer)
	big, bigN := 12*scale, 600
	if thorough {
		big, bigN = 150*scale, 5000
	}
	for i := 0; i < big; i++ {
		o := genOpts(r)
		cnt := r.Range(200, bigN)
		if thorough && i%5 != 0 {
			cnt = r.Range(200, 1500)
		}
		ss := genList(r, cnt, o)
		emitPlan(ss, tame(ss, o))
	}
	// --- malformed stream: options and sizes outside what the theorems assume
	m := 120 * scale
	if thorough {
		m = 2500 * scale
	}
	for i := 0; i < m; i++ {
		o := genOpts(r)
		ss := genList(r, r.Range(0, 30), o)
		switch r.Intn(7) {
		case 0:
			o.max = int64(r.Range(-5, 1))
		case 1:
			o.perTask = r.Range(-2, 0)
		case 2:
			o.per = r.Range(-3, 0)
			o.growth = []float64{0, 0.5, -1}[r.Intn(3)]
		case 3: // negative sizes
			for _, s := range ss {
				if r.Chance(30) {
					s.live = -int64(r.Intn(5))
				}
			}
		case 4: // live > full
			for _, s := range ss {
				if r.Chance(40) {
					s.full = s.live / 2
				}
			}
		case 5: // duplicate ids (with different live sizes: the order stays defined)
			if len(ss) >= 2 {
				used := map[int64]bool{}
				for _, s := range ss {
					for used[s.live] {
						s.live++
						if s.full < s.live {
							s.full = s.live
						}
					}
					used[s.live] = true
				}
				for k := 0; k < 1+len(ss)/4; k++ {
					ss[r.Intn(len(ss))].id = ss[r.Intn(len(ss))].id
				}
			}
		default:
			o.floor = -int64(r.Intn(10))
			o.weight = []float64{-1, 10, 0}[r.Intn(3)]
		}
		emitPlan(ss, tame(ss, o))
	}
	// --- scorer and budget on their own
	k := 300 * scale
	if thorough {
		k = 8000 * scale
	}
	for i := 0; i < k; i++ {
		o := genOpts(r)
		ss := genList(r, r.Range(1, 10), o)
		emit("score " + o.String() + " | " + segsString(ss))
	}
	for i := 0; i < k; i++ {
		o := genOpts(r)
		var total, first int64
		switch r.Intn(4) {
		case 0:
			total, first = int64(r.Intn(100)), int64(r.Intn(5))
		case 1:
			total, first = logUniform(r, 1<<40), logUniform(r, 1<<20)
		case 2:
			first = int64(r.Range(1, 3000))
			total = first * int64(r.Intn(2000))
			if r.Bool() {
				total += int64(r.Intn(3)) - 1
			}
		default:
			total, first = logUniform(r, 1<<33), o.floor
		}
		if total < 0 {
			total = 0
		}
		if r.Chance(25) {
			o.growth = []float64{1.25, 1.5, 1.75, 2.5, 3.5, 7.5, 1.1, 3.3, 7.77, 20, 100}[r.Intn(11)]
		}
		if budgetIters(total, first, o, 100001) > 100000 {
			if o.growth < 2 {
				o.growth = 2
			}
			if first < 1000 {
				first = 1000
			}
		}
		emit(fmt.Sprintf("budget %d %016x %d %d", o.per, math.Float64bits(o.growth), total, first))
	}
	// --- simulated histories
	hs := 40 * scale
	if thorough {
		hs = 600 * scale
	}
	for i := 0; i < hs; i++ {
		genHistory(r, i, thorough, emit)
	}
	// --- the options the writer really uses (index.DefaultConfig / InMemoryOnlyConfig / DefaultConfigWithDirectory):
	// compared with mergeplan.DefaultMergePlanOptions, one-shot plans and histories of 2000-document batches that
	// go well beyond the first tier (10 x 2000 live documents)
	emit("case d1")
	emit("defaults")
	wn := 0
	for _, k := range writerKinds {
		for _, cnt := range []int{9, 12, 25, 45, 80} {
			var ss []*seg
			for i := 0; i < cnt; i++ {
				sz := int64(2000)
				if r.Chance(30) {
					sz = int64(r.Range(1500, 6000))
				}
				ss = append(ss, &seg{uint64(i + 1), sz, sz})
			}
			if cnt >= 45 && r.Bool() {
				ss = append(ss, &seg{uint64(cnt + 1), 200000, 200000}, &seg{uint64(cnt + 2), 150000, 140000})
			}
			wn++
			emit(fmt.Sprintf("case wp%d", wn))
			emit("wplan " + k + " | " + segsString(ss))
		}
	}
	for i, k := range writerKinds {
		emit(fmt.Sprintf("case hw%d %s", i, k))
		id := uint64(1)
		nbat := 70
		if thorough {
			nbat = 400
		}
		for b := 0; b < nbat; b++ {
			sz := int64(2000)
			if i > 0 && r.Chance(25) {
				sz = int64(r.Range(2000, 5000))
			}
			emit(fmt.Sprintf("add %d:%d:%d", id, sz, sz))
			id++
			emit("step")
		}
		emit("settle 50")
	}
	// --- real writers: what the real merger passes to the planner
	rs := 24 * scale
	if thorough {
		rs = 240 * scale
	}
	for i := 0; i < rs; i++ {
		o := opts{per: r.Range(1, 3), max: []int64{5000000, 60, 200}[r.Weighted(6, 2, 2)], perTask: r.Range(2, 4),
			floor: []int64{1, 2, 5}[r.Intn(3)], growth: []float64{2, 3, 10}[r.Intn(3)], weight: weights[r.Intn(len(weights))]}
		nb := r.Range(8, 40)
		if thorough && r.Chance(20) {
			nb = r.Range(40, 60)
		}
		emit(fmt.Sprintf("case r%d", i))
		emit(fmt.Sprintf("real %s %d %d", o.String(), nb, r.Intn(1<<30)))
	}
}

// ---------------------------------------------------------------- histories

type history struct {
	o      opts
	segs   []*seg
	nextID uint64
}

func genHistory(r *hlib.Rand, idx int, thorough bool, emit func(string)) {
	var o opts
	switch r.Weighted(4, 3, 3) {
	case 0:
		o = defaultOpts()
	case 1:
		o = opts{per: r.Range(1, 10), max: []int64{50, 100, 1000, 10000}[r.Intn(4)], perTask: r.Range(2, 10),
			floor: []int64{0, 1, 2, 10}[r.Intn(4)], growth: []float64{2, 3, 10}[r.Intn(3)], weight: weights[r.Intn(len(weights))]}
	default:
		o = defaultOpts()
		o.per = r.Range(1, 10)
		o.perTask = r.Range(2, 10) // SegmentsPerMergeTask = 1 plans only one-segment "merges": never settles
		o.floor = []int64{1, 10, 100, 2000}[r.Intn(4)]
		o.growth = []float64{2, 3, 10}[r.Intn(3)]
		o.weight = weights[r.Intn(len(weights))]
	}
	if idx%12 == 5 {
		o.perTask = 1 // not histOptionsSane: only one-segment "merges" are planned; the driver judges the history na
	}
	emit(fmt.Sprintf("case h%d %s", idx, o.String()))
	rounds := r.Range(3, 40)
	if thorough && r.Chance(10) {
		rounds = r.Range(40, 200)
	}
	batch := int64(r.Range(1, 60))
	if o.max > 100000 && r.Bool() {
		batch = int64(r.Range(100, 20000))
	}
	id := uint64(1)
	for k := 0; k < rounds; k++ {
		// arrivals: a few new small segments (a batch each)
		na := r.Range(1, 6)
		var parts []string
		for j := 0; j < na; j++ {
			sz := batch
			if r.Chance(40) {
				sz = int64(r.Range(1, int(batch)))
			}
			if r.Chance(3) {
				sz = 0
			}
			parts = append(parts, fmt.Sprintf("%d:%d:%d", id, sz, sz))
			id++
		}
		emit("add " + strings.Join(parts, " "))
		// deletions hit random existing segments: "del <rank> <permille>" (rank into the current list)
		if r.Chance(45) {
			nd := r.Range(1, 4)
			for j := 0; j < nd; j++ {
				emit(fmt.Sprintf("del %d %d", r.Intn(1000), []int{1000, 500, 100, 10, r.Intn(1001)}[r.Intn(5)]))
			}
		}
		if r.Chance(70) {
			emit("step")
		}
	}
	emit("settle 200")
}

func (hi *history) sums() string {
	var f, l int64
	for _, s := range hi.segs {
		f += s.full
		l += s.live
	}
	return fmt.Sprintf("n=%d full=%d live=%d", len(hi.segs), f, l)
}

// one real Plan on the current state, then execution of every task on sizes only
func (hi *history) planStep(out func(string, string), st *hlib.Stats) (tasks int, res string) {
	ob := observePlan(hi.segs, hi.o)
	op := fmt.Sprintf("hplan %d | %s", hi.nextID, ob.scores)
	res = ob.result()
	if ob.plan != nil && ob.plain == ob.hooked {
		for _, t := range ob.plan.Tasks {
			tasks++
			var live int64
			drop := map[uint64]bool{}
			for _, s := range t.Segments {
				live += s.LiveSize()
				drop[s.ID()] = true
			}
			keep := hi.segs[:0:0]
			for _, s := range hi.segs {
				if !drop[s.id] {
					keep = append(keep, s)
				}
			}
			if live > 0 {
				keep = append(keep, &seg{hi.nextID, live, live})
			}
			hi.nextID++
			hi.segs = keep
		}
	}
	res += " after " + hi.sums()
	st.Count("op:hplan")
	st.Case(op, tasks > 0)
	out(op, res)
	return tasks, res
}

// ---------------------------------------------------------------- exec

func (x *h) Exec(line string, out func(string, string), st *hlib.Stats, work string) {
	switch {
	case strings.HasPrefix(line, "case hw"):
		// a history with the merge-plan options a WRITER really uses: resolved here from the real constructor, the
		// model's case line carries them
		w := strings.Split(line, " ")
		if len(w) < 3 {
			out(line, "bad-op")
			return
		}
		o, ok := writerOpts(w[2])
		if !ok {
			out(line, "bad-op")
			return
		}
		x.hist = &history{o: o, nextID: 1 << 40}
		st.Count("writer-options:" + w[2])
		out("case "+w[1]+" "+o.String(), "case")
		return
	case strings.HasPrefix(line, "case h"):
		w := strings.Split(line, " ")
		o, ok := parseOpts(w[2:])
		if !ok {
			out(line, "bad-op")
			return
		}
		x.hist = &history{o: o, nextID: 1 << 40}
		out(line, "case")
		return
	case strings.HasPrefix(line, "case "):
		x.hist = nil
		out(line, "case")
		return
	}
	sp := strings.SplitN(line, " ", 2)
	op := sp[0]
	rest := ""
	if len(sp) > 1 {
		rest = sp[1]
	}
	switch op {
	case "plan":
		parts := strings.Split(rest, " | ")
		o, ok := parseOpts(strings.Split(parts[0], " "))
		if !ok || len(parts) < 2 {
			out(line, "bad-op")
			return
		}
		ss, ok := parseSegs(parts[1])
		if !ok {
			out(line, "bad-op")
			return
		}
		ob := observePlan(ss, o)
		res := ob.result()
		st.Count("op:plan")
		st.Count("res:" + classify(ob))
		if ob.scores != "-" {
			st.Count("plan:with-go-scores")
		} else if ob.nScored > 0 {
			st.Count("plan:model-float-scores")
		}
		st.CountN("scored-rosters", ob.nScored)
		switch {
		case len(ss) >= 1000:
			st.Count("segments:1000+")
		case len(ss) >= 100:
			st.Count("segments:100-999")
		case len(ss) >= 10:
			st.Count("segments:10-99")
		default:
			st.Count("segments:0-9")
		}
		ml := "plan " + parts[0] + " | " + parts[1] + " | " + ob.scores
		st.Case(parts[0]+"|"+parts[1], ob.plan != nil && len(ob.plan.Tasks) > 0)
		out(ml, res)
	case "score":
		parts := strings.Split(rest, " | ")
		o, ok := parseOpts(strings.Split(parts[0], " "))
		if !ok || len(parts) < 2 {
			out(line, "bad-op")
			return
		}
		ss, ok := parseSegs(parts[1])
		if !ok || len(ss) == 0 {
			out(line, "bad-op")
			return
		}
		res := hlib.Catch(func() string {
			return fmt.Sprintf("%016x", math.Float64bits(mergeplan.ScoreSegments(asSegments(ss), o.real())))
		})
		st.Count("op:score")
		st.Case(line, true)
		out(line, res)
	case "budget":
		w := strings.Split(rest, " ")
		if len(w) != 4 {
			out(line, "bad-op")
			return
		}
		per, e1 := strconv.Atoi(w[0])
		gb, e2 := strconv.ParseUint(w[1], 16, 64)
		total, e3 := strconv.ParseInt(w[2], 10, 64)
		first, e4 := strconv.ParseInt(w[3], 10, 64)
		if e1 != nil || e2 != nil || e3 != nil || e4 != nil {
			out(line, "bad-op")
			return
		}
		g := math.Float64frombits(gb)
		res := hlib.Catch(func() string {
			b := mergeplan.CalcBudget(total, first, &mergeplan.Options{MaxSegmentsPerTier: per, TierGrowth: g})
			// second field: the same number again when the exact staircase over the naturals applies
			// (whole-number growth, everything far below 2^53); the model prints calcBudgetNat there
			f2, f3 := "-", "-"
			if wholeGrowth(g) && total < 1<<45 && first < 1<<45 {
				f2 = strconv.Itoa(b)
			}
			// third field: the same number once more when every float operation of CalcBudget is exact (growth
			// is a small dyadic fraction, sizes below 2^32): the model prints calcBudgetRat there
			if _, _, ok := growthFraction(g); ok && total >= 0 && total < 1<<32 && first < 1<<32 && per < 256 {
				f3 = strconv.Itoa(b)
			}
			return fmt.Sprintf("%d %s %s", b, f2, f3)
		})
		st.Count("op:budget")
		st.Case(line, total > 0)
		out(line, res)
	case "defaults":
		// the options every writer opened through the index package's constructors plans with, field by field
		res := hlib.Catch(func() string {
			var parts []string
			for _, k := range writerKinds {
				o, _ := writerOpts(k)
				parts = append(parts, k+"="+strings.ReplaceAll(o.String(), " ", ","))
			}
			d := mergeplan.DefaultMergePlanOptions
			pk := opts{d.MaxSegmentsPerTier, d.MaxSegmentSize, d.SegmentsPerMergeTask, d.FloorSegmentSize, d.TierGrowth, d.ReclaimDeletesWeight}
			parts = append(parts, "mergeplan="+strings.ReplaceAll(pk.String(), " ", ","))
			return strings.Join(parts, " ")
		})
		st.Count("op:defaults")
		st.Case(line, true)
		out(line, res)
	case "wplan":
		parts := strings.Split(rest, " | ")
		if len(parts) < 2 {
			out(line, "bad-op")
			return
		}
		o, ok := writerOpts(strings.TrimSpace(parts[0]))
		ss, ok2 := parseSegs(parts[1])
		if !ok || !ok2 {
			out(line, "bad-op")
			return
		}
		ob := observePlan(ss, o)
		st.Count("op:wplan")
		st.Case(o.String()+"|"+parts[1], ob.plan != nil && len(ob.plan.Tasks) > 0)
		out("wplan "+o.String()+" | "+parts[1]+" | "+ob.scores, ob.result())
	case "witness":
		res := hlib.Catch(func() string {
			o := mergeplan.DefaultMergePlanOptions
			o.MaxSegmentsPerTier = 1
			o.TierGrowth = 100
			var parts []string
			for _, sz := range [][]int64{{362321, 42807, 5041}, {42807, 5041}, {5041}, {362321, 42807}, {42807}, {362321}} {
				var ss []*seg
				var key []string
				for i, v := range sz {
					ss = append(ss, &seg{uint64(i + 1), v, v})
					key = append(key, strconv.FormatInt(v, 10))
				}
				parts = append(parts, fmt.Sprintf("%s=%016x", strings.Join(key, "."), math.Float64bits(mergeplan.ScoreSegments(asSegments(ss), &o))))
			}
			return strings.Join(parts, " ")
		})
		st.Count("op:witness")
		st.Case(line, true)
		out(line, res)
	case "real":
		execReal(rest, out, st, work)
	case "add":
		if x.hist == nil {
			out(line, "bad-op")
			return
		}
		ss, ok := parseSegs(rest)
		if !ok {
			out(line, "bad-op")
			return
		}
		x.hist.segs = append(x.hist.segs, ss...)
		st.Count("op:add")
		st.Case(line, true)
		out(line, x.hist.sums())
	case "del":
		if x.hist == nil {
			out(line, "bad-op")
			return
		}
		w := strings.Split(rest, " ")
		rank, _ := strconv.Atoi(w[0])
		pm, _ := strconv.Atoi(w[1])
		hi := x.hist
		changed := false
		if len(hi.segs) > 0 {
			s := hi.segs[rank%len(hi.segs)]
			d := s.live * int64(pm) / 1000
			// segments are immutable values for the planner: replace the record
			ns := &seg{s.id, s.full, s.live - d}
			hi.segs[rank%len(hi.segs)] = ns
			changed = d > 0
		}
		st.Count("op:del")
		st.Case(line, changed)
		out(line, hi.sums())
	case "step":
		if x.hist == nil {
			out(line, "bad-op")
			return
		}
		x.hist.planStep(out, st)
	case "settle":
		if x.hist == nil {
			out(line, "bad-op")
			return
		}
		cap_, _ := strconv.Atoi(rest)
		rounds := 0
		for rounds < cap_ {
			n, _ := x.hist.planStep(out, st)
			if n == 0 {
				break
			}
			rounds++
		}
		res := x.hist.sums()
		if rounds >= cap_ {
			res = "no-quiescence " + res
		}
		st.Count("op:settle")
		st.Case(line, rounds > 0)
		out(fmt.Sprintf("settled %d %d", cap_, rounds), res)
	default:
		out(line, "bad-op")
	}
}

func wholeGrowth(g float64) bool {
	return g >= 1 && g <= 1000 && g == math.Trunc(g)
}

func classify(ob planObs) string {
	switch ob.plain {
	case "nil", "timeout", "runaway", "skipped-after-timeout", "panic", "err", "-":
		if ob.plain == "-" && ob.hooked == "-" {
			return "no-task"
		}
		if ob.plain == ob.hooked {
			return ob.plain
		}
	}
	if ob.plain != ob.hooked {
		return "hook-divergence"
	}
	if strings.Contains(ob.plain, ";") {
		return "several-tasks"
	}
	return "one-task"
}

var _ = sort.Ints

// ---------------------------------------------------------------- the options a writer really uses

var writerKinds = []string{"fs", "mem", "dir"}

// writerOpts: MergePlanOptions of the configuration the index package's constructors hand to OpenWriter
func writerOpts(kind string) (opts, bool) {
	var c index.Config
	switch kind {
	case "fs":
		c = index.DefaultConfig(filepath.Join(os.TempDir(), "c19-never-opened"))
	case "mem":
		c = index.InMemoryOnlyConfig()
	case "dir":
		c = index.DefaultConfigWithDirectory(func() index.Directory { return index.NewInMemoryDirectory() })
	default:
		return opts{}, false
	}
	m := c.MergePlanOptions
	return opts{m.MaxSegmentsPerTier, m.MaxSegmentSize, m.SegmentsPerMergeTask, m.FloorSegmentSize, m.TierGrowth, m.ReclaimDeletesWeight}, true
}

// ---------------------------------------------------------------- real writers

// rootRec: the segments of one installed root, as the planner would see them
type rootSeg struct {
	id         uint64
	full, live int64
	persisted  bool
}

type realRec struct {
	mu    sync.Mutex
	roots [][]rootSeg // the last roots installed (newest last)
	calls []*realCall
	cur   *realCall
	o     opts
}

type realCall struct {
	total, first int64
	budget       int
	segs         []*seg // the persisted segments of the root the call was matched with (nil: unmatched)
	rosterIDs    map[uint64][2]int64
}

var rec *realRec

func traceRoot(w *index.Writer, kind string, snap *index.Snapshot, x uint64) {
	r := rec
	if r == nil || kind != "root" || snap == nil {
		return
	}
	var rs []rootSeg
	for _, ss := range snap.Segments() {
		ps, ok := ss.(mergeplan.Segment)
		if !ok {
			continue
		}
		e := rootSeg{id: ps.ID(), full: ps.FullSize(), live: ps.LiveSize()}
		if sg, ok := ss.(interface{ Segment() segment.Segment }); ok {
			if p, ok := sg.Segment().(interface{ Persisted() bool }); ok {
				e.persisted = p.Persisted()
			}
		}
		rs = append(rs, e)
	}
	r.mu.Lock()
	r.roots = append(r.roots, rs)
	if len(r.roots) > 16 {
		r.roots = r.roots[len(r.roots)-16:]
	}
	r.mu.Unlock()
}

// the planner's view of a recorded root: persisted segments only (index/merge.go planMergeAtSnapshot)
func plannerInput(rs []rootSeg) []*seg {
	var out []*seg
	for _, e := range rs {
		if e.persisted {
			out = append(out, &seg{e.id, e.full, e.live})
		}
	}
	return out
}

func checksum(ss []*seg, o opts) (total, first int64) {
	first = math.MaxInt64
	for _, s := range ss {
		if s.live < first {
			first = s.live
		}
		if s.live < o.max/2 {
			total += s.live
		}
	}
	if first < o.floor {
		first = o.floor
	}
	return
}

func execReal(rest string, out func(string, string), st *hlib.Stats, work string) {
	w := strings.Fields(rest)
	o, ok := parseOpts(w)
	if !ok || len(w) < 8 {
		out("real "+rest, "bad-op")
		return
	}
	nb, _ := strconv.Atoi(w[6])
	seed, _ := strconv.Atoi(w[7])
	r := hlib.NewRand(uint64(seed))
	dir := filepath.Join(work, "c19real")
	_ = os.RemoveAll(dir)
	if err := os.MkdirAll(dir, 0o755); err != nil {
		out("real "+rest, "err:mkdir")
		return
	}
	defer os.RemoveAll(dir)
	rr := &realRec{o: o}
	rec = rr
	defer func() { rec = nil }()
	cfg := bluge.DefaultConfig(dir)
	ic := cfg.VerifIndexConfig()
	// ice v1 only: ice v2 has a known data race between a merge reading stored fields and the segment's buffer
	// (known finding of C01/C15, dependency code) that can panic inside the merger goroutine and would take the
	// harness process down with it; the planner input does not depend on the segment format
	ic.SegmentVersion = 1
	ic.SegmentType = "ice"
	ic.MergePlanOptions = *o.real()
	ic.AsyncError = func(error) {}
	ic.MergePlanOptions.CalcBudget = func(total, first int64, oo *mergeplan.Options) int {
		b := mergeplan.CalcBudget(total, first, oo)
		c := &realCall{total: total, first: first, budget: b, rosterIDs: map[uint64][2]int64{}}
		rr.mu.Lock()
		// the merger planned on the root that was current a moment ago: newest recorded root with these sums
		for i := len(rr.roots) - 1; i >= 0; i-- {
			in := plannerInput(rr.roots[i])
			if len(in) < 2 {
				continue
			}
			if t, f := checksum(in, o); t == total && f == first {
				c.segs = in
				break
			}
		}
		rr.calls = append(rr.calls, c)
		rr.cur = c
		rr.mu.Unlock()
		return b
	}
	ic.MergePlanOptions.ScoreSegments = func(ro []mergeplan.Segment, oo *mergeplan.Options) float64 {
		rr.mu.Lock()
		if rr.cur != nil {
			for _, s := range ro {
				rr.cur.rosterIDs[s.ID()] = [2]int64{s.FullSize(), s.LiveSize()}
			}
		}
		rr.mu.Unlock()
		return mergeplan.ScoreSegments(ro, oo)
	}
	cfg = cfg.VerifWithIndexConfig(ic)
	res := hlib.Catch(func() string {
		wr, err := bluge.OpenWriter(cfg)
		if err != nil {
			return "err:open"
		}
		ids := r.Range(20, 200)
		for b := 0; b < nb; b++ {
			batch := bluge.NewBatch()
			n := r.Range(1, 30)
			for k := 0; k < n; k++ {
				id := fmt.Sprintf("d%d", r.Intn(ids))
				switch r.Weighted(6, 2) {
				case 0:
					batch.Update(bluge.Identifier(id), bluge.NewDocument(id).AddField(bluge.NewKeywordField("k", "v"+strconv.Itoa(r.Intn(5)))))
				default:
					batch.Delete(bluge.Identifier(id))
				}
			}
			if err := wr.Batch(batch); err != nil {
				_ = wr.Close()
				return "err:batch"
			}
			// let the persister and the merger work between batches (they only plan persisted segments)
			time.Sleep(time.Duration(r.Range(2, 25)) * time.Millisecond)
		}
		time.Sleep(150 * time.Millisecond)
		if err := wr.Close(); err != nil {
			return "err:close"
		}
		return "ok"
	})
	st.Count("op:real")
	st.Count("real:" + res)
	rr.mu.Lock()
	calls := rr.calls
	rr.mu.Unlock()
	emitted := 0
	seen := map[string]bool{}
	for _, c := range calls {
		st.Count("real:planner-calls")
		if c.segs == nil {
			st.Count("real:planner-call-unmatched")
			continue
		}
		// every roster member the real planner scored must be a segment of the matched input, same sizes
		consistent := true
		byID := map[uint64]*seg{}
		for _, s := range c.segs {
			byID[s.id] = s
		}
		for id, fl := range c.rosterIDs {
			s := byID[id]
			if s == nil || s.full != fl[0] || s.live != fl[1] {
				consistent = false
			}
		}
		if !consistent {
			st.Count("real:planner-call-unmatched")
			continue
		}
		key := segsString(c.segs)
		if seen[key] {
			continue
		}
		seen[key] = true
		ob := observePlan(c.segs, o)
		resl := ob.result()
		if want := fmt.Sprintf("budget(%d,%d)=%d", c.total, c.first, c.budget); ob.budget != want && ob.budget != "budget=-" {
			resl = "real-call-differs " + want + " vs " + resl
		}
		withDel := false
		for _, s := range c.segs {
			if s.live < s.full {
				withDel = true
			}
		}
		st.Case("rplan "+o.String()+"|"+key, withDel || (ob.plan != nil && len(ob.plan.Tasks) > 0))
		out("rplan "+o.String()+" | "+key+" | "+ob.scores, resl)
		emitted++
	}
	st.Case("real "+rest, emitted > 0)
	out("real "+rest, res)
}

func main() {
	index.SetVerifTrace(traceRoot)
	hlib.Main(&h{})
}

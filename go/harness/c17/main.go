// Correspondence harness for C17: BM25 scoring and score explanations (stream `score`).
//
// Two families of lines (every line is its own case):
//
//	(a) direct calls of package similarity with boundary and seeded random statistics:
//	    lit, const, norm, idf, score, explain, composite, constant, law
//	(b) real searches on small generated in-memory corpora, with and without ExplainScores:
//	    script line `search <corpus> <query> <all|top>` -> one `hit <corpus> <query> <kind> <docid>` pair per hit
//	    (and, for `all`, one `matchset <corpus> <query> all` pair: the ids of the documents that matched)
//
//	(c) phase 2 (dstream.go): `normrt <lo> <hi>` (the norm decode chain on every field length of a range), `dsearch` (real
//	    searches on adversarially built indexes — deletions, updates, merges, both ice versions, custom similarities — with
//	    per-segment statistics recorded through a wrapping segment plugin -> `dhit` / `dmatchset` pairs) and `nscore`
//	    (the same indexes under score mode "none"); mstream.go: `msearch` (scored prefix / wildcard / regexp / fuzzy / term-range
//	    queries over 3-5 segments sharing terms, with the per-term TermQuery explanations of the same reader -> `mhit`)
//
// Floats travel as 16 hex digits of math.Float64bits; an explanation tree as {<value bits>;<message>;<child>…}.
package main

import (
	"context"
	"fmt"
	"math"
	"sort"
	"strconv"
	"strings"

	"github.com/blugelabs/bluge"
	"github.com/blugelabs/bluge/search"
	"github.com/blugelabs/bluge/search/similarity"
	segment "github.com/blugelabs/bluge_segment_api"

	"verif/harness/hlib"
)

type h struct{}

func (h) Rule() string {
	return "direct calls: statistics from boundary sets (n=1, n=N, n>N wrap-around, N up to 2^64-1; f from 0 and 1 to 2^63-1; dl 0 … float32 extremes; " +
		"avgdl/k1/b/boost incl. b=0, b=1, tiny and huge) crossed, plus seeded log-uniform random ones; law lines pair two statistics that differ in exactly one " +
		"component; searches: seeded corpora of 1-10 documents (1-3 batches, two fields, empty and missing fields, repeated words) with term and nested boolean " +
		"queries (must/should/must-not, minShould, boosts on every level), each run with and without ExplainScores, one line per hit plus one line with the set of " +
		"matching documents; a case is non-trivial when " +
		"its op line is new and (for hits) the document matched through at least one scoring term; dsearch: corpora of 4-24 documents in 1-4 batches " +
		"with a rare hot word, then 1-3 rounds that delete 60-100% of the documents WITHOUT the hot word (plus a few with it), update some in place and add fresh " +
		"ones, with waits for the background merger/persister in between; index configuration crossed over ice v1/v2, memory/file directory, merging off/eager, " +
		"similarities (b in {0, 0.5, 0.75, 1}, several k1, per-field similarity for title), composite field; the segment plugin is wrapped so that every search " +
		"reports n, N, sumTotalTermFreq and the deleted-bitmap size PER SEGMENT; normrt: the norm decode chain on every length of contiguous ranges"
}

// bit pattern; every NaN is printed as the canonical quiet NaN (sign and payload of a NaN are not compared)
func fb(x float64) string {
	if x != x {
		return "7ff8000000000000"
	}
	return fmt.Sprintf("%016x", math.Float64bits(x))
}
func pf(s string) float64 {
	v, _ := strconv.ParseUint(s, 16, 64)
	return math.Float64frombits(v)
}
func pu(s string) uint64 { v, _ := strconv.ParseUint(s, 10, 64); return v }

// canonical text of an explanation tree
func render(e *search.Explanation) string {
	if e == nil {
		return "{nil}"
	}
	var b strings.Builder
	var rec func(e *search.Explanation)
	rec = func(e *search.Explanation) {
		b.WriteByte('{')
		b.WriteString(fb(e.Value))
		b.WriteByte(';')
		m := strings.Map(func(r rune) rune {
			if r == '{' || r == '}' || r == ';' || r < 32 || r > 126 {
				return '?'
			}
			return r
		}, e.Message)
		b.WriteString(m)
		b.WriteByte(';')
		for _, c := range e.Children {
			if c == nil {
				b.WriteString("{nil}")
				continue
			}
			rec(c)
		}
		b.WriteByte('}')
	}
	rec(e)
	return b.String()
}

type collStats struct{ total, docs, ttf uint64 }

func (c *collStats) TotalDocumentCount() uint64      { return c.total }
func (c *collStats) DocumentCount() uint64           { return c.docs }
func (c *collStats) SumTotalTermFrequency() uint64   { return c.ttf }
func (c *collStats) Merge(o segment.CollectionStats) {}

type termStats struct{ df uint64 }

func (t *termStats) DocumentFrequency() uint64 { return t.df }

// ------------------------------------------------------------------------------------------------ generation

var bndN = []uint64{1, 2, 3, 5, 10, 1000, 1 << 20, 1<<31 - 1, 1 << 32, 1<<53 - 1, 1 << 53, 1<<53 + 1, 1 << 62, 1<<63 - 1, 1 << 63, math.MaxUint64 - 1, math.MaxUint64}
var bndF = []uint64{1, 2, 3, 4, 10, 100, 65535, 1 << 20, 1<<31 - 1, 1 << 32, 1 << 53, 1<<53 + 1, 1 << 62, 1<<63 - 1}
var bndDL = []uint64{0, 1, 2, 3, 7, 10, 100, 1000, 1 << 20, 1<<24 + 1, 1<<31 - 1, 0x7f7fffff, 0x7f800000, 0x80000000, 0x80000001, 0xff7fffff, 0xff800000}
var bndAvg = []float64{1, 2, 2.5, 10.0 / 3, 0.5, 0.001, 1e-300, 5e-324, 1e300, 1000, 7.25}
var bndK1 = []float64{1.2, 0.0001, 1, 2, 100, 5e-324, 1e300}
var bndB = []float64{0.75, 0, 1, 0.5, 0.999999, 1e-9}
var bndBoost = []float64{1, 2, 0.5, 3.7, 1e-10, 1e10, math.Nextafter(1, 2), 5e-324, 1e300}

func logUniform(r *hlib.Rand, maxBits int) uint64 {
	k := r.Intn(maxBits) + 1
	v := r.U64()
	if k < 64 {
		v &= (1 << uint(k)) - 1
	}
	return v
}

func pickU(r *hlib.Rand, b []uint64, maxBits int) uint64 {
	if r.Chance(45) {
		return b[r.Intn(len(b))]
	}
	return logUniform(r, maxBits)
}

func pickF(r *hlib.Rand, b []float64, lo, hi float64) float64 {
	if r.Chance(55) {
		return b[r.Intn(len(b))]
	}
	// log-uniform in [lo,hi]
	u := float64(r.U64()>>11) / (1 << 53)
	return math.Exp(math.Log(lo) + u*(math.Log(hi)-math.Log(lo)))
}

func pickB(r *hlib.Rand) float64 {
	if r.Chance(60) {
		return bndB[r.Intn(len(bndB))]
	}
	return float64(r.U64()>>11) / (1 << 53)
}

type stat struct {
	k1, b, boost float64
	n, N, ttf    uint64
	f, dl        uint64
}

func randStat(r *hlib.Rand) stat {
	s := stat{k1: pickF(r, bndK1, 0.01, 10), b: pickB(r), boost: pickF(r, bndBoost, 0.01, 100)}
	s.N = pickU(r, bndN, 64)
	if s.N == 0 {
		s.N = 1
	}
	switch r.Weighted(3, 2, 5, 1) {
	case 0:
		s.n = 1
	case 1:
		s.n = s.N
	case 2:
		s.n = 1 + logUniform(r, 64)%s.N
	default: // statistics that break n <= N (wrap-around of the uint64 subtraction)
		s.n = s.N + 1 + uint64(r.Intn(5))
		if s.n < s.N {
			s.n = s.N
		}
	}
	// average length: sumTTF / N with sumTTF around N * (0.5 .. 50)
	mul := pickF(r, []float64{1, 2, 2.5, 10}, 0.5, 50)
	t := float64(s.N) * mul
	if t > 1.8e19 {
		t = 1.8e19
	}
	s.ttf = uint64(t)
	if r.Chance(5) {
		s.ttf = 0
	}
	s.f = pickU(r, bndF, 63)
	if r.Chance(3) {
		s.f = 0
	}
	s.dl = pickU(r, bndDL, 24)
	if s.dl > 0xffffffff {
		s.dl = 0xffffffff
	}
	if isNaNPattern(s.dl) {
		s.dl = 0x7f7fffff
	}
	return s
}

// float32 NaN bit patterns do not survive float32 -> float64 -> float32 on every platform (signalling NaNs are quieted):
// a field length in [0x7f800001, 0x7fffffff] or >= 0xff800001 is outside the stated assumption and not generated.
func isNaNPattern(dl uint64) bool { return dl&0x7f800000 == 0x7f800000 && dl&0x007fffff != 0 }

func (s stat) explainLine() string {
	return fmt.Sprintf("explain %s %s %s %d %d %d %d %d", fb(s.k1), fb(s.b), fb(s.boost), s.n, s.N, s.ttf, s.f, s.dl)
}

var words = []string{"ka", "kb", "kc", "kd", "ke", "kf"}

func genCorpus(r *hlib.Rand) string {
	nb := r.Weighted(6, 2, 1) + 1
	nd := r.Range(1, 10)
	var batches []string
	id := 0
	for bi := 0; bi < nb; bi++ {
		var docs []string
		cnt := nd / nb
		if bi == 0 {
			cnt = nd - cnt*(nb-1)
		}
		for i := 0; i < cnt; i++ {
			field := func(pAbsent, pEmpty int, maxLen int) string {
				if r.Chance(pAbsent) {
					return "-"
				}
				if r.Chance(pEmpty) {
					return ""
				}
				l := r.Range(1, maxLen)
				ws := make([]string, l)
				hot := r.Intn(len(words))
				for j := range ws {
					if r.Chance(35) {
						ws[j] = words[hot] // repeated word -> freq > 1
					} else {
						ws[j] = words[r.Intn(len(words))]
					}
				}
				return strings.Join(ws, ",")
			}
			docs = append(docs, fmt.Sprintf("d%d:%s:%s", id, field(8, 6, 9), field(50, 5, 4)))
			id++
		}
		if len(docs) > 0 {
			batches = append(batches, strings.Join(docs, ";"))
		}
	}
	return strings.Join(batches, "/")
}

var qBoosts = []float64{1, 1, 1, 2, 0.5, 3.7, math.Nextafter(1, 2), 10}

func genTerm(r *hlib.Rand) string {
	field := "body"
	if r.Chance(20) {
		field = "title"
	}
	w := words[r.Intn(len(words))]
	if r.Chance(4) {
		w = "kz"
	}
	return fmt.Sprintf("T,%s,%s,%s", field, w, fb(qBoosts[r.Intn(len(qBoosts))]))
}

func genQuery(r *hlib.Rand, depth int) string {
	if depth == 0 || r.Chance(30) {
		return genTerm(r)
	}
	list := func(max int) string {
		n := r.Intn(max + 1)
		qs := make([]string, n)
		for i := range qs {
			if depth > 1 && r.Chance(25) {
				qs[i] = genQuery(r, depth-1)
			} else {
				qs[i] = genTerm(r)
			}
		}
		return "[" + strings.Join(qs, "|") + "]"
	}
	musts, shoulds, nots := list(2), list(3), "[]"
	if r.Chance(25) {
		nots = "[" + genTerm(r) + "]"
	}
	if musts == "[]" && shoulds == "[]" && nots == "[]" {
		shoulds = "[" + genTerm(r) + "]"
	}
	min := 0
	if r.Chance(40) {
		min = r.Intn(3)
	}
	return fmt.Sprintf("B,%s,%d,%s,%s,%s", fb(qBoosts[r.Intn(len(qBoosts))]), min, musts, shoulds, nots)
}

func (h) Gen(r *hlib.Rand, tier string, scale int, emit func(string)) {
	// hlib.NewRand(seed) starts splitmix64 at seed*gamma + c and every draw adds gamma: the streams of seeds 1, 2, 3 are the SAME
	// sequence shifted by one draw, and generators with a data-dependent number of draws per item re-synchronise after a few
	// hundred lines (measured: from the `score` lines on the scripts of seeds 1, 2, 3 were identical). The phase-2 streams
	// therefore draw from a second generator seeded with a fully mixed value, which differs unrelatedly between seeds.
	r2 := hlib.NewRand(r.U64())
	nRand := 1500 * scale
	nSearch := 160 * scale
	if tier == "thorough" {
		nRand = 40000 * scale
		nSearch = 4000 * scale
	}
	// literals and constants of the translated code
	for _, l := range [][2]int{{5, 1}, {1, 0}, {0, 0}, {12, 1}, {75, 2}} {
		emit(fmt.Sprintf("lit %d %d", l[0], l[1]))
	}
	emit("const defaultK1")
	emit("const defaultB")
	for _, dl := range bndDL {
		emit(fmt.Sprintf("norm %d", dl))
	}
	for i := 0; i < 200; i++ {
		dl := logUniform(r, 32)
		if !isNaNPattern(dl) {
			emit(fmt.Sprintf("norm %d", dl))
		}
	}
	// idf: boundary grid (incl. n > N) and random
	for _, N := range append([]uint64{0}, bndN...) {
		for _, n := range []uint64{0, 1, 2, N / 2, N - 1, N, N + 1, N + 2} {
			emit(fmt.Sprintf("idf %d %d", n, N))
		}
	}
	for i := 0; i < nRand; i++ {
		s := randStat(r)
		emit(fmt.Sprintf("idf %d %d", s.n, s.N))
	}
	// score with a given idf value: boundary cross (every non-log operation must be bit-identical)
	for _, f := range append([]uint64{0}, bndF...) {
		for _, dl := range bndDL {
			for _, bb := range []float64{0.75, 0, 1} {
				avg := bndAvg[(f+dl)%uint64(len(bndAvg))]
				emit(fmt.Sprintf("score %s %s %s %s %s %d %d", fb(1.2), fb(bb), fb(avg), fb(bndBoost[f%uint64(len(bndBoost))]), fb(1.4350845252893227), f, dl))
			}
		}
	}
	for i := 0; i < nRand; i++ {
		s := randStat(r)
		idfv := pickF(r, []float64{0.1, 1, 44.3, 5e-324, 1e300}, 1e-3, 50)
		emit(fmt.Sprintf("score %s %s %s %s %s %d %d", fb(s.k1), fb(s.b), fb(pickF(r, bndAvg, 0.1, 1000)), fb(s.boost), fb(idfv), s.f, s.dl))
	}
	// full pipeline Similarity.Scorer -> Explain / Score
	for _, N := range []uint64{1, 2, 5, 1000, 1 << 32, math.MaxUint64} {
		for _, n := range []uint64{1, N/2 + 1, N} {
			for _, f := range []uint64{1, 3, 1 << 53, 1<<63 - 1} {
				for _, dl := range []uint64{0, 1, 7, 0x7f7fffff} {
					for _, boost := range []float64{1, 2} {
						for _, bb := range []float64{0.75, 1, 0} {
							ttf := N * 3
							if N > 1<<62 {
								ttf = N
							}
							emit(stat{k1: 1.2, b: bb, boost: boost, n: n, N: N, ttf: ttf, f: f, dl: dl}.explainLine())
						}
					}
				}
			}
		}
	}
	for i := 0; i < nRand; i++ {
		emit(randStat(r).explainLine())
	}
	// laws on pairs that differ in one statistic
	for i := 0; i < nRand; i++ {
		s := randStat(r)
		if s.n > s.N {
			s.n = s.N
		}
		base := fmt.Sprintf("%s %s %s %d %d %d", fb(s.k1), fb(s.b), fb(s.boost), s.n, s.N, s.ttf)
		switch i % 4 {
		case 0:
			f2 := s.f + 1 + logUniform(r, 20)
			if r.Chance(20) {
				f2 = s.f + 1
			}
			if f2 > 1<<63-1 || f2 < s.f {
				f2 = 1<<63 - 1
			}
			emit(fmt.Sprintf("law freq %s %d %d %d", base, s.f, f2, s.dl))
		case 1:
			dl := s.dl & 0x7fffff
			dl2 := dl + 1 + logUniform(r, 16)
			emit(fmt.Sprintf("law len %s %d %d %d", base, s.f, dl, dl2))
		case 2:
			n2 := s.n + 1 + logUniform(r, 10)
			if n2 > s.N || n2 < s.n {
				n2 = s.N
			}
			emit(fmt.Sprintf("law df %s %d %d %d", base, n2, s.f, s.dl))
		case 3:
			c := pickF(r, []float64{2, 0.5, 3, 10, 1.5}, 0.01, 100)
			emit(fmt.Sprintf("law boost %s %s %d %d", base, fb(c), s.f, s.dl))
		}
	}
	// composite scorers
	for i := 0; i < nRand/3; i++ {
		k := r.Intn(6)
		parts := make([]string, k)
		for j := range parts {
			parts[j] = fb(pickF(r, []float64{0.1, 1, 1e-17, 1e17, 0.30000000000000004}, 1e-3, 30))
		}
		boost := qBoosts[r.Intn(len(qBoosts))]
		emit(strings.TrimSpace(fmt.Sprintf("composite %s %s", fb(boost), strings.Join(parts, " "))))
	}
	for _, c := range []float64{1, 0, 2.5, 1e300} {
		emit("constant " + fb(c))
	}
	// real searches
	nc := nSearch / 8
	if nc < 1 {
		nc = 1
	}
	for ci := 0; ci < nc; ci++ {
		corpus := genCorpus(r)
		for qi := 0; qi < 8; qi++ {
			kind := "all"
			if r.Chance(25) {
				kind = "top"
			}
			emit(fmt.Sprintf("search %s %s %s", corpus, genQuery(r, 2), kind))
		}
	}
	// ---- phase 2 (appended after the phase-1 stream so that the latter keeps its seeded inputs)
	// the whole decode chain Float32bits(float32(float64(ComputeNorm(len)))) on EVERY length of contiguous ranges (one line
	// per range; the model side is `dlSeen`): small lengths exhaustively, the float32 Inf/NaN patterns, the uint32 wrap
	top := uint64(1 << 20)
	if tier == "thorough" {
		top = 1 << 26
	}
	for lo := uint64(0); lo < top; lo += 1 << 20 {
		emit(fmt.Sprintf("normrt %d %d", lo, lo+1<<20-1))
	}
	for _, c := range []uint64{0x7f800000, 0x7fc00000, 0x80000000, 0xff800000, 0xffc00000, 1 << 32, 0x17f800000, 1 << 33} {
		emit(fmt.Sprintf("normrt %d %d", c-40, c+40))
	}
	for i := 0; i < 4*scale; i++ {
		lo := logUniform(r2, 33)
		emit(fmt.Sprintf("normrt %d %d", lo, lo+uint64(r2.Intn(5000))))
	}
	// real searches on adversarially built indexes (deletions of documents without the term, updates, merges, several
	// segments, both ice versions, custom similarities incl. b = 1, composite field) with per-segment statistics recorded
	nD := 40 * scale
	if tier == "thorough" {
		nD = 900 * scale
	}
	genD(r2, nD, emit)
	// scored multi-term queries (prefix / wildcard / regexp / fuzzy / term range) over 3-5 segments that share terms
	nM := 12 * scale
	if tier == "thorough" {
		nM = 300 * scale
	}
	genM(r2, nM, emit)
	// disjunctions of more than 10 searchers (11-16 should clauses, prefix / wildcard clauses expanding to 11+ terms) driven by
	// Advance under a must clause whose term is missing from some documents of every segment
	nH := 10 * scale
	if tier == "thorough" {
		nH = 250 * scale
	}
	genH(r2, nH, emit)
}

// ------------------------------------------------------------------------------------------------ execution

func normOf(sim *similarity.BM25Similarity, dl uint64) float64 {
	return float64(sim.ComputeNorm(int(uint32(dl))))
}

// ---- queries

// a leaf is a term query, or (multi = 'P' / 'W') a prefix / wildcard query over `word`
type qnode struct {
	multi          byte
	term           bool
	field, word    string
	boost          float64
	min            int
	musts, shoulds []*qnode
	nots           []*qnode
}

func parseQuery(s string) (*qnode, string) {
	if strings.HasPrefix(s, "T,") {
		rest := s[2:]
		p := strings.SplitN(rest, ",", 3)
		boost := p[2][:16]
		return &qnode{term: true, field: p[0], word: p[1], boost: pf(boost)}, p[2][16:]
	}
	if strings.HasPrefix(s, "P,") || strings.HasPrefix(s, "W,") {
		p := strings.SplitN(s[2:], ",", 3)
		return &qnode{term: true, multi: s[0], field: p[0], word: p[1], boost: pf(p[2][:16])}, p[2][16:]
	}
	if strings.HasPrefix(s, "B,") {
		rest := s[2:]
		q := &qnode{boost: pf(rest[:16])}
		rest = rest[17:]
		i := strings.Index(rest, ",")
		q.min, _ = strconv.Atoi(rest[:i])
		rest = rest[i+1:]
		q.musts, rest = parseList(rest)
		q.shoulds, rest = parseList(rest[1:])
		q.nots, rest = parseList(rest[1:])
		return q, rest
	}
	panic("bad query " + s)
}

func parseList(s string) ([]*qnode, string) {
	if s[0] != '[' {
		panic("bad list " + s)
	}
	s = s[1:]
	var out []*qnode
	for s[0] != ']' {
		var q *qnode
		q, s = parseQuery(s)
		out = append(out, q)
		if s[0] == '|' {
			s = s[1:]
		}
	}
	return out, s[1:]
}

func build(q *qnode) bluge.Query {
	if q.term {
		switch q.multi {
		case 'P':
			return bluge.NewPrefixQuery(q.word).SetField(q.field).SetBoost(q.boost)
		case 'W':
			return bluge.NewWildcardQuery(q.word).SetField(q.field).SetBoost(q.boost)
		}
		return bluge.NewTermQuery(q.word).SetField(q.field).SetBoost(q.boost)
	}
	b := bluge.NewBooleanQuery()
	for _, m := range q.musts {
		b.AddMust(build(m))
	}
	for _, m := range q.shoulds {
		b.AddShould(build(m))
	}
	for _, m := range q.nots {
		b.AddMustNot(build(m))
	}
	b.SetMinShould(q.min)
	b.SetBoost(q.boost)
	return b
}

var cacheKey string
var cacheReader *bluge.Reader
var cacheWriter *bluge.Writer

func openCorpus(corpus string) *bluge.Reader {
	if corpus == cacheKey && cacheReader != nil {
		return cacheReader
	}
	if cacheReader != nil {
		_ = cacheReader.Close()
		_ = cacheWriter.Close()
		cacheReader, cacheWriter = nil, nil
	}
	w, err := bluge.OpenWriter(bluge.InMemoryOnlyConfig())
	if err != nil {
		panic(err)
	}
	for _, batch := range strings.Split(corpus, "/") {
		b := bluge.NewBatch()
		for _, d := range strings.Split(batch, ";") {
			p := strings.Split(d, ":")
			doc := bluge.NewDocument(p[0])
			for i, name := range []string{"body", "title"} {
				if p[i+1] != "-" {
					doc.AddField(bluge.NewTextField(name, strings.ReplaceAll(p[i+1], ",", " ")))
				}
			}
			b.Update(doc.ID(), doc)
		}
		if err := w.Batch(b); err != nil {
			panic(err)
		}
	}
	r, err := w.Reader()
	if err != nil {
		panic(err)
	}
	cacheKey, cacheReader, cacheWriter = corpus, r, w
	return r
}

type hit struct {
	id    string
	score float64
	expl  string
}

func runSearch(r *bluge.Reader, q bluge.Query, kind string, explain bool) []hit {
	var req bluge.SearchRequest
	if kind == "top" {
		t := bluge.NewTopNSearch(4, q)
		if explain {
			t.ExplainScores()
		}
		req = t
	} else {
		a := bluge.NewAllMatches(q)
		if explain {
			a.ExplainScores()
		}
		req = a
	}
	it, err := r.Search(context.Background(), req)
	if err != nil {
		panic(err)
	}
	var out []hit
	for {
		m, err := it.Next()
		if err != nil {
			panic(err)
		}
		if m == nil {
			break
		}
		hh := hit{score: m.Score}
		_ = m.VisitStoredFields(func(f string, v []byte) bool {
			if f == "_id" {
				hh.id = string(v)
			}
			return true
		})
		if explain {
			hh.expl = render(m.Explanation)
		}
		out = append(out, hh)
	}
	return out
}

func (h) Exec(line string, out func(string, string), st *hlib.Stats, work string) {
	w := strings.Split(line, " ")
	st.Count("op:" + w[0])
	switch w[0] {
	case "dsearch", "dhit", "dmatchset":
		execD(w, line, out, st, work)
		return
	case "msearch", "mhit", "mmatchset":
		execM(w, line, out, st, work)
		return
	case "nscore":
		execN(w, line, out, st, work)
		return
	case "search", "hit", "matchset":
		only := ""
		if w[0] == "hit" {
			only = w[4]
		}
		var with, without []hit
		res := hlib.Catch(func() string {
			q, _ := parseQuery(w[2])
			r := openCorpus(w[1])
			with = runSearch(r, build(q), w[3], true)
			without = runSearch(r, build(q), w[3], false)
			return "ok"
		})
		if res != "ok" {
			out(line, "panic")
			st.Case(line, true)
			return
		}
		plain := map[string]string{}
		for _, x := range without {
			plain[x.id] = fb(x.score)
		}
		if len(with) != len(without) {
			st.Count("res:hitcount-differs")
		}
		if len(with) == 0 {
			st.Count("res:no-hit")
		}
		sort.Slice(with, func(i, j int) bool { return with[i].id < with[j].id })
		if w[3] == "all" && (w[0] == "search" || w[0] == "matchset") {
			// which documents matched at all (the per-hit lines below only speak about documents that were returned)
			ids := make([]string, 0, len(with))
			for _, x := range with {
				ids = append(ids, x.id)
			}
			if len(ids) == 0 {
				ids = []string{"-"}
			}
			out(fmt.Sprintf("matchset %s %s all", w[1], w[2]), strings.Join(ids, ","))
			st.Count("res:matchset")
		}
		if w[0] == "matchset" {
			return
		}
		for _, x := range with {
			if only != "" && x.id != only {
				continue
			}
			p, ok := plain[x.id]
			if !ok {
				p = "missing"
			}
			op := fmt.Sprintf("hit %s %s %s %s", w[1], w[2], w[3], x.id)
			st.Case(op, strings.Contains(x.expl, "score(freq="))
			st.Count("res:hit")
			out(op, p+" "+fb(x.score)+" "+x.expl)
		}
		return
	}
	res := hlib.Catch(func() string {
		switch w[0] {
		case "lit":
			v, err := strconv.ParseFloat(w[1]+"e-"+w[2], 64)
			if err != nil {
				return "err"
			}
			return fb(v)
		case "const":
			// the defaults are not exported: read them off the explanation of a default scorer
			e := similarity.NewBM25Similarity().Scorer(1, &collStats{1, 1, 1}, &termStats{1}).Explain(1, 0)
			tf := e.Children[len(e.Children)-1]
			for _, c := range tf.Children {
				if w[1] == "defaultK1" && strings.HasPrefix(c.Message, "k1,") || w[1] == "defaultB" && strings.HasPrefix(c.Message, "b,") {
					return fb(c.Value)
				}
			}
			return "err"
		case "norm":
			sim := similarity.NewBM25Similarity()
			return strconv.FormatUint(uint64(math.Float32bits(float32(normOf(sim, pu(w[1]))))), 10)
		case "normrt":
			sim := similarity.NewBM25Similarity()
			lo, hi := pu(w[1]), pu(w[2])
			var sum, odd uint64
			var firsts []string
			for l := lo; ; l++ {
				got := uint64(math.Float32bits(float32(float64(sim.ComputeNorm(int(l))))))
				sum += got
				if got != l {
					odd++
					if len(firsts) < 6 {
						firsts = append(firsts, fmt.Sprintf("%d>%d", l, got))
					}
				}
				if l == hi {
					break
				}
			}
			if len(firsts) == 0 {
				firsts = []string{"-"}
			}
			return fmt.Sprintf("%d %d %s", sum, odd, strings.Join(firsts, ","))
		case "idf":
			return fb(similarity.NewBM25Similarity().Idf(pu(w[1]), pu(w[2])))
		case "score":
			k1, b, avg, boost, idfv := pf(w[1]), pf(w[2]), pf(w[3]), pf(w[4]), pf(w[5])
			sim := similarity.NewBM25SimilarityBK1(b, k1)
			sc := similarity.NewBM25Scorer(boost, k1, b, avg, search.NewExplanation(idfv, "idf"))
			return fb(sc.Score(int(pu(w[6])), normOf(sim, pu(w[7]))))
		case "explain":
			k1, b, boost := pf(w[1]), pf(w[2]), pf(w[3])
			sim := similarity.NewBM25SimilarityBK1(b, k1)
			sc := sim.Scorer(boost, &collStats{pu(w[5]), pu(w[5]), pu(w[6])}, &termStats{pu(w[4])})
			norm := normOf(sim, pu(w[8]))
			return fb(sc.Score(int(pu(w[7])), norm)) + " " + render(sc.Explain(int(pu(w[7])), norm))
		case "law":
			k1, b, boost := pf(w[2]), pf(w[3]), pf(w[4])
			n, N, ttf := pu(w[5]), pu(w[6]), pu(w[7])
			sim := similarity.NewBM25SimilarityBK1(b, k1)
			one := func(boost float64, n, f, dl uint64) (float64, float64) {
				cs := &collStats{N, N, ttf}
				idf := sim.IdfExplainTerm(cs, &termStats{n}).Value
				return idf, sim.Scorer(boost, cs, &termStats{n}).Score(int(f), normOf(sim, dl))
			}
			var i1, s1, i2, s2 float64
			switch w[1] {
			case "freq":
				i1, s1 = one(boost, n, pu(w[8]), pu(w[10]))
				i2, s2 = one(boost, n, pu(w[9]), pu(w[10]))
			case "len":
				i1, s1 = one(boost, n, pu(w[8]), pu(w[9]))
				i2, s2 = one(boost, n, pu(w[8]), pu(w[10]))
			case "df":
				i1, s1 = one(boost, n, pu(w[9]), pu(w[10]))
				i2, s2 = one(boost, pu(w[8]), pu(w[9]), pu(w[10]))
			case "boost":
				i1, s1 = one(boost, n, pu(w[9]), pu(w[10]))
				i2, s2 = one(pf(w[8])*boost, n, pu(w[9]), pu(w[10]))
			default:
				return "bad-op"
			}
			return fb(i1) + " " + fb(s1) + " " + fb(i2) + " " + fb(s2)
		case "composite":
			boost := pf(w[1])
			var ms []*search.DocumentMatch
			for _, x := range w[2:] {
				v := pf(x)
				ms = append(ms, &search.DocumentMatch{Score: v, Explanation: search.NewExplanation(v, "constant")})
			}
			var c *similarity.CompositeSumScorer
			if boost == 1 && len(ms)%2 == 0 {
				c = similarity.NewCompositeSumScorer()
			} else {
				c = similarity.NewCompositeSumScorerWithBoost(boost)
			}
			return fb(c.ScoreComposite(ms)) + " " + render(c.ExplainComposite(ms))
		case "constant":
			c := similarity.ConstantScorer(pf(w[1]))
			return fb(c.Score(3, 1)) + " " + fb(c.ScoreComposite(nil)) + " " + render(c.Explain(3, 1)) + " " + render(c.ExplainComposite(nil))
		}
		return "bad-op"
	})
	st.Count("res:" + classify(res))
	st.Case(line, true)
	out(line, res)
}

func classify(res string) string {
	switch {
	case res == "panic", res == "err", res == "bad-op":
		return res
	case strings.Contains(res, "{"):
		return "tree"
	}
	return "value"
}

func main() { hlib.Main(h{}) }

// C17 — the `msearch` stream: SCORED multi-term queries (prefix / wildcard / regexp / fuzzy / term range) over indexes that
// are kept at 3-5 segments sharing terms in the queried field (merging switched off through the index configuration).
//
// A multi-term query enumerates the field's dictionary across all segments (index/dictionary.go, a heap of per-segment
// cursors), builds one TermSearcher per DISTINCT term and sums their scores in a disjunction. The oracle is evaluated by the
// Lean driver on the implementation's own output: the explanation of a hit has exactly one child per distinct term the
// document holds that satisfies the predicate, each child is the single-term score of that term (the harness runs the
// per-term TermQuery on the SAME reader and emits those explanations), and the score is their sum.
//
//	script line  msearch <cfg> <corpus> <mq> <all|top>
//	pairs        mhit <cfg> <corpus> <mq> <kind> <docid> ## <plain> <explained> <#segments> <tree>~<word>/<k>=<tree>~…
//	             mmatchset <cfg> <corpus> <mq> all        ## ids of the matching documents
//
//	mq   P,field,prefix,boost | W,field,wildcard,boost | R,field,regexp,boost | F,field,term,fuzziness,boost |
//	     G,field,min,max,incMin,incMax,boost        (boost = 16 hex digits; no `,` or space inside a pattern)
//	<word>/<k>=<tree>: for every vocabulary word the document holds in the field, the explanation of TermQuery(word)
//	     (boost 1) for this document, k = number of segments that hold a live posting of the word
package main

import (
	"fmt"
	"sort"
	"strings"

	"github.com/blugelabs/bluge"

	"verif/harness/hlib"
)

var mVocab = []string{"cat", "cow", "cub", "cup", "cot", "cut", "act", "bat", "dog", "cab", "can", "cap", "car", "caw"}

type mquery struct {
	kind         byte
	field        string
	a, b         string
	fuzz         int
	incLo, incHi bool
	boost        float64
}

func parseM(s string) mquery {
	p := strings.Split(s, ",")
	q := mquery{kind: s[0], field: p[1]}
	switch s[0] {
	case 'P', 'W', 'R':
		q.a, q.boost = p[2], pf(p[3])
	case 'F':
		q.a = p[2]
		fmt.Sscanf(p[3], "%d", &q.fuzz)
		q.boost = pf(p[4])
	case 'G':
		q.a, q.b, q.incLo, q.incHi, q.boost = p[2], p[3], p[4] == "1", p[5] == "1", pf(p[6])
	default:
		panic("bad mq " + s)
	}
	return q
}

func (q mquery) build() bluge.Query {
	switch q.kind {
	case 'P':
		return bluge.NewPrefixQuery(q.a).SetField(q.field).SetBoost(q.boost)
	case 'W':
		return bluge.NewWildcardQuery(q.a).SetField(q.field).SetBoost(q.boost)
	case 'R':
		return bluge.NewRegexpQuery(q.a).SetField(q.field).SetBoost(q.boost)
	case 'F':
		return bluge.NewFuzzyQuery(q.a).SetFuzziness(q.fuzz).SetField(q.field).SetBoost(q.boost)
	}
	return bluge.NewTermRangeInclusiveQuery(q.a, q.b, q.incLo, q.incHi).SetField(q.field).SetBoost(q.boost)
}

func execM(w []string, line string, out func(string, string), st *hlib.Stats, work string) {
	// w: msearch|mhit|mmatchset cfg corpus mq kind [docid]
	only := ""
	if w[0] == "mhit" {
		only = w[5]
	}
	var with, without []hit
	termTrees := map[string]map[string]string{} // word -> doc id -> tree
	segsOf := map[string]int{}
	nseg := 0
	var vocab []string
	res := hlib.Catch(func() string {
		q := parseM(w[3])
		r := openD(w[1], w[2], work)
		recMu.Lock()
		recOn, recSegs = true, map[int]*segRec{}
		recMu.Unlock()
		with = runSearch(r, q.build(), w[4], true)
		without = runSearch(r, q.build(), w[4], false)
		vocab = vocabOf(w[2])
		for _, word := range vocab {
			hs := runSearch(r, bluge.NewTermQuery(word).SetField(q.field), "all", true)
			if len(hs) == 0 {
				continue
			}
			m := map[string]string{}
			for _, x := range hs {
				m[x.id] = x.expl
			}
			termTrees[word] = m
		}
		recMu.Lock()
		recOn = false
		for _, sr := range recSegs {
			if _, ok := sr.stats[q.field]; ok {
				nseg++
			}
			for k, v := range sr.posts {
				if strings.HasPrefix(k, q.field+"|") && v[0] >= 1 {
					segsOf[k[len(q.field)+1:]]++
				}
			}
		}
		recMu.Unlock()
		return "ok"
	})
	if res != "ok" {
		out(line, "panic")
		st.Case(line, true)
		closeD()
		return
	}
	st.Count(fmt.Sprintf("m:segments-%d", min(nseg, 6)))
	plain := map[string]string{}
	for _, x := range without {
		plain[x.id] = fb(x.score)
	}
	sort.Slice(with, func(i, j int) bool { return with[i].id < with[j].id })
	if w[4] == "all" && (w[0] == "msearch" || w[0] == "mmatchset") {
		ids := make([]string, 0, len(with))
		for _, x := range with {
			ids = append(ids, x.id)
		}
		if len(ids) == 0 {
			ids = []string{"-"}
		}
		out(fmt.Sprintf("mmatchset %s %s %s all", w[1], w[2], w[3]), strings.Join(ids, ","))
	}
	if w[0] == "mmatchset" {
		return
	}
	if len(with) == 0 {
		st.Count("res:m-no-hit")
	}
	for _, x := range with {
		if only != "" && x.id != only {
			continue
		}
		p, ok := plain[x.id]
		if !ok {
			p = "missing"
		}
		var b strings.Builder
		fmt.Fprintf(&b, "%s %s %d %s", p, fb(x.score), nseg, x.expl)
		for _, word := range vocab {
			if t, ok := termTrees[word][x.id]; ok {
				fmt.Fprintf(&b, "~%s/%d=%s", word, segsOf[word], t)
			}
		}
		op := fmt.Sprintf("mhit %s %s %s %s %s", w[1], w[2], w[3], w[4], x.id)
		st.Case(op, strings.Contains(x.expl, "score(freq="))
		st.Count("res:mhit")
		out(op, b.String())
	}
}

// vocabOf: the distinct words of a corpus (any field), sorted
func vocabOf(corpus string) []string {
	seen := map[string]bool{}
	for _, batch := range strings.Split(corpus, "/") {
		if batch == "@q" {
			continue
		}
		for _, e := range strings.Split(batch, ";") {
			if e == "" || e[0] == '!' {
				continue
			}
			f := strings.Split(e, ":")
			for _, v := range f[1:] {
				if v == "-" {
					continue
				}
				for _, w := range strings.FieldsFunc(v, func(r rune) bool { return r == ',' || r == '+' }) {
					if i := strings.Index(w, "*"); i >= 0 {
						w = w[:i]
					}
					seen[w] = true
				}
			}
		}
	}
	out := make([]string, 0, len(seen))
	for w := range seen {
		out = append(out, w)
	}
	sort.Strings(out)
	return out
}

// ------------------------------------------------------------------------------------------------ generation

func genMCorpus(r *hlib.Rand, shared []string) string {
	nb := r.Range(3, 5)
	var batches []string
	id := 0
	for bi := 0; bi < nb; bi++ {
		nd := r.Range(2, 4)
		var es []string
		for i := 0; i < nd; i++ {
			l := r.Range(1, 6)
			ws := make([]string, l)
			for j := range ws {
				ws[j] = mVocab[r.Intn(len(mVocab))]
			}
			if i == 0 { // every batch (= segment) holds the shared words
				ws = append(ws, shared...)
			}
			title := "-"
			if r.Chance(50) {
				tl := r.Range(1, 3)
				ts := make([]string, tl)
				for j := range ts {
					ts[j] = mVocab[r.Intn(len(mVocab))]
				}
				if i == 0 {
					ts = append(ts, shared[0])
				}
				title = strings.Join(ts, ",")
			}
			es = append(es, fmt.Sprintf("m%d:%s:%s", id, strings.Join(ws, ","), title))
			id++
		}
		batches = append(batches, strings.Join(es, ";"))
	}
	if r.Chance(25) { // a deletion round: the segments stay, their live postings shrink
		var es []string
		for i := 0; i < id; i++ {
			if r.Chance(20) {
				es = append(es, fmt.Sprintf("!m%d", i))
			}
		}
		if len(es) > 0 {
			batches = append(batches, strings.Join(es, ";"))
		}
	}
	batches = append(batches, "@q")
	return strings.Join(batches, "/")
}

func genMQuery(r *hlib.Rand, s string) string {
	field := "body"
	if r.Chance(20) {
		field = "title"
	}
	boost := fb(qBoosts[r.Intn(len(qBoosts))])
	other := mVocab[r.Intn(len(mVocab))]
	switch r.Intn(5) {
	case 0:
		return fmt.Sprintf("P,%s,%s,%s", field, s[:r.Range(1, 2)], boost)
	case 1:
		pats := []string{s[:1] + "?" + s[2:], s[:1] + "*", "*" + s[2:], s[:2] + "?", "?" + s[1:], s[:1] + "*" + s[2:], "*"}
		return fmt.Sprintf("W,%s,%s,%s", field, pats[r.Intn(len(pats))], boost)
	case 2:
		pats := []string{s[:1] + "[a-u]" + s[2:], "(" + s + "|" + other + ")", s[:1] + ".*", s[:1] + "[aou][bptw]", ".*" + s[2:], s[:2] + ".", s + "|" + other}
		return fmt.Sprintf("R,%s,%s,%s", field, pats[r.Intn(len(pats))], boost)
	case 3:
		term := s
		if r.Chance(40) { // a term that is not in the dictionary, one edit away
			term = s[:2] + "x"
		}
		return fmt.Sprintf("F,%s,%s,%d,%s", field, term, r.Range(1, 2), boost)
	}
	lo, hi := s, other
	if lo > hi {
		lo, hi = hi, lo
	}
	if lo == hi {
		hi = lo + "z"
	}
	if r.Chance(30) {
		lo = lo[:1]
	}
	return fmt.Sprintf("G,%s,%s,%s,%d,%d,%s", field, lo, hi, r.Intn(2), r.Intn(2), boost)
}

func genM(r *hlib.Rand, nCorpora int, emit func(string)) {
	// fixed probe (every run): fuzzy queries whose term is no longer than the fuzziness — the per-term boost
	// 1 - distance/min(len) of search_fuzzy.go is then 0 or negative (known finding fuzzy-term-boost-not-positive) — and
	// two controls whose boosts are all positive
	probeCfg := fmt.Sprintf("v=1,dir=mem,mg=0,b=%s,k1=%s", fb(0.75), fb(1.2))
	for _, q := range []string{"F,body,a,2", "F,body,ab,2", "F,body,b,1", "F,body,bcd,1", "F,body,cd,1"} {
		emit(fmt.Sprintf("msearch %s p0:bc:-;p1:cd,xx:-;p2:a:-;p3:a,bc,cd:-;p4:a*6,bc:- %s,%s all", probeCfg, q, fb(1)))
	}
	emit(fmt.Sprintf("msearch v=2,dir=fs,mg=0,b=%s,k1=%s p0:bc:-/p1:cd,xx:-/p2:a:-/@q F,body,a,2,%s all", fb(1), fb(2), fb(2)))
	for ci := 0; ci < nCorpora; ci++ {
		sim := dSims[ci%len(dSims)]
		cfg := fmt.Sprintf("v=%d,dir=%s,mg=0,b=%s,k1=%s", 1+ci%2, []string{"mem", "fs"}[(ci/2)%2], fb(sim[0]), fb(sim[1]))
		s := mVocab[r.Intn(len(mVocab))]
		shared := []string{s}
		if r.Chance(50) {
			shared = append(shared, mVocab[r.Intn(len(mVocab))])
		}
		corpus := genMCorpus(r, shared)
		for qi := 0; qi < 6; qi++ {
			kind := "all"
			if r.Chance(10) {
				kind = "top"
			}
			emit(fmt.Sprintf("msearch %s %s %s %s", cfg, corpus, genMQuery(r, s), kind))
		}
	}
}

// ------------------------------------------------------------------------------------------------ heap disjunctions under a must
//
// `dsearch` lines (judged by the dhit oracle: parts = every matching clause exactly once with its statistics, plain ==
// explained, hit set) whose should side is a disjunction of MORE than searcher.DisjunctionHeapTakeover = 10 searchers — 11-16
// should term clauses, or a prefix / wildcard clause expanding to 11+ dictionary terms — under a must clause. The boolean
// searcher moves that disjunction with Advance; the must term is missing from some documents of every segment, so Advance
// has to step over pending candidates.

var hVocab = []string{"cab", "cad", "cam", "can", "cap", "car", "cat", "caw", "cay", "cob", "cod", "cog", "con", "cot", "cow", "cub", "cup", "cut",
	"act", "ant", "bat", "bee", "dog", "elk"}

func genHCorpus(r *hlib.Rand, must string) string {
	nb := r.Range(3, 5)
	var batches []string
	id := 0
	for bi := 0; bi < nb; bi++ {
		nd := r.Range(3, 6)
		var es []string
		for i := 0; i < nd; i++ {
			l := r.Range(1, 7)
			if r.Chance(10) {
				l = len(hVocab) // a document that matches (almost) every clause
			}
			ws := make([]string, 0, l+1)
			for j := 0; j < l; j++ {
				ws = append(ws, hVocab[r.Intn(len(hVocab))])
			}
			// the must word: in the 2nd document of every batch, never in the 1st (a gap at the start of every segment), random otherwise
			if i == 1 || (i > 1 && r.Chance(45)) {
				ws = append(ws, must)
			}
			es = append(es, fmt.Sprintf("h%d:%s:-", id, strings.Join(ws, ",")))
			id++
		}
		batches = append(batches, strings.Join(es, ";"))
	}
	if r.Chance(25) {
		var es []string
		for i := 0; i < id; i++ {
			if r.Chance(15) {
				es = append(es, fmt.Sprintf("!h%d", i))
			}
		}
		if len(es) > 0 {
			batches = append(batches, strings.Join(es, ";"))
		}
	}
	batches = append(batches, "@q")
	return strings.Join(batches, "/")
}

func genH(r *hlib.Rand, nCorpora int, emit func(string)) {
	for ci := 0; ci < nCorpora; ci++ {
		sim := dSims[ci%len(dSims)]
		cfg := fmt.Sprintf("v=%d,dir=%s,mg=0,b=%s,k1=%s", 1+ci%2, []string{"mem", "fs"}[(ci/2)%2], fb(sim[0]), fb(sim[1]))
		must := "zed"
		corpus := genHCorpus(r, must)
		bst := func() string { return fb(qBoosts[r.Intn(len(qBoosts))]) }
		mustT := fmt.Sprintf("T,body,%s,%s", must, bst())
		// (a) must + 11-16 distinct should term clauses
		k := r.Range(11, 16)
		perm := make([]int, len(hVocab))
		for i := range perm {
			perm[i] = i
		}
		for i := len(perm) - 1; i > 0; i-- {
			j := r.Intn(i + 1)
			perm[i], perm[j] = perm[j], perm[i]
		}
		sh := make([]string, k)
		for i := 0; i < k; i++ {
			sh[i] = fmt.Sprintf("T,body,%s,%s", hVocab[perm[i]], bst())
		}
		emit(fmt.Sprintf("dsearch %s %s B,%s,%d,[%s],[%s],[] all", cfg, corpus, bst(), r.Intn(2), mustT, strings.Join(sh, "|")))
		// (b) a second must beside the should list (conjunction + heap disjunction)
		emit(fmt.Sprintf("dsearch %s %s B,%s,0,[%s|T,body,%s,%s],[%s],[] all", cfg, corpus, bst(), mustT, hVocab[perm[0]], bst(), strings.Join(sh[1:], "|")))
		// (c) prefix / wildcard clause expanding to 11+ dictionary terms as a should clause under the must …
		multi := []string{"P,body,c", "W,body,c*", "W,body,c??", "P,body,ca", "W,body,?a?", "W,body,*"}[r.Intn(6)]
		emit(fmt.Sprintf("dsearch %s %s B,%s,0,[%s],[%s,%s],[] all", cfg, corpus, bst(), mustT, multi, bst()))
		// (d) … and as a second must clause (conjunction of the must term and the expansion)
		emit(fmt.Sprintf("dsearch %s %s B,%s,0,[%s|%s,%s],[T,body,%s,%s],[] %s", cfg, corpus, bst(), mustT, []string{"P,body,c", "W,body,c*"}[r.Intn(2)], bst(), hVocab[perm[1]], bst(), []string{"all", "all", "top"}[r.Intn(3)]))
	}
}

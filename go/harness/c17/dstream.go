// C17 phase 2 — the `dsearch` stream: real searches on indexes built adversarially for the hypotheses of the scoring
// theorems (n <= N, 0 < avgdl, 1 <= f <= dl), with the per-segment statistics recorded by a wrapper around the segment
// plugin.
//
//	script line  dsearch <cfg> <corpus> <query> <all|top>
//	pairs        dhit <cfg> <corpus> <query> <kind> <docid> ## <plain score> <explained score> <segs> <explanation tree>
//	             dmatchset <cfg> <corpus> <query> all        ## ids of the matching documents
//
//	cfg     v=1|2,dir=mem|fs,mg=0|1,b=<16 hex>,k1=<16 hex>[,tb=<hex>,tk1=<hex>][,all=1]
//	        (ice version, directory, merging off / eager, similarity parameters, per-field similarity of `title`,
//	        composite field `all` consuming every other field)
//	corpus  batches separated by `/`; a batch is `@q` (wait for the background work to settle) or entries separated by
//	        `;`: `id:body:title` (Update; `-` = field absent, `` = field with no token, words joined by `,`, a `+` splits
//	        the value into two fields of the same name) or `!id` (Delete)
//	segs    for every distinct (field, word) of the query, in order: field|word=n/N/ttf/del+…  (one term per segment of the
//	        snapshot: live postings of the term, documents with the field, tokens of the field, size of the segment's
//	        deleted bitmap), entries separated by `;`
package main

import (
	"context"
	"fmt"
	"os"
	"path/filepath"
	"sort"
	"strings"
	"sync"
	"time"

	"github.com/RoaringBitmap/roaring"
	"github.com/blugelabs/bluge"
	"github.com/blugelabs/bluge/index"
	"github.com/blugelabs/bluge/index/mergeplan"
	"github.com/blugelabs/bluge/search/similarity"
	segment "github.com/blugelabs/bluge_segment_api"
	iceV1 "github.com/blugelabs/ice"
	iceV2 "github.com/blugelabs/ice/v2"

	"verif/harness/hlib"
)

// ------------------------------------------------------------------------------------------------ recording plugin

type segRec struct {
	stats map[string][2]uint64 // field -> (documents with field, tokens of field)
	posts map[string][2]uint64 // field|term -> (live postings, size of the except bitmap)
}

var (
	recMu   sync.Mutex
	recOn   bool
	recSegs map[int]*segRec
	segSeq  int
	lastAct time.Time
)

func touch() {
	recMu.Lock()
	lastAct = time.Now()
	recMu.Unlock()
}

func recOf(id int) *segRec {
	r := recSegs[id]
	if r == nil {
		r = &segRec{stats: map[string][2]uint64{}, posts: map[string][2]uint64{}}
		recSegs[id] = r
	}
	return r
}

type wseg struct {
	segment.Segment
	id int
}

func (s *wseg) CollectionStats(field string) (segment.CollectionStats, error) {
	cs, err := s.Segment.CollectionStats(field)
	if err == nil && cs != nil {
		recMu.Lock()
		if recOn {
			recOf(s.id).stats[field] = [2]uint64{cs.DocumentCount(), cs.SumTotalTermFrequency()}
		}
		recMu.Unlock()
	}
	return cs, err
}

type wdict struct {
	segment.Dictionary
	id    int
	field string
}

func (d *wdict) PostingsList(term []byte, except *roaring.Bitmap, prealloc segment.PostingsList) (segment.PostingsList, error) {
	pl, err := d.Dictionary.PostingsList(term, except, prealloc)
	if err == nil && pl != nil {
		var dc uint64
		if except != nil {
			dc = except.GetCardinality()
		}
		recMu.Lock()
		if recOn {
			recOf(d.id).posts[d.field+"|"+string(term)] = [2]uint64{pl.Count(), dc}
		}
		recMu.Unlock()
	}
	return pl, err
}

func (s *wseg) Dictionary(field string) (segment.Dictionary, error) {
	d, err := s.Segment.Dictionary(field)
	if err != nil || d == nil {
		return d, err
	}
	return &wdict{d, s.id, field}, nil
}

func wrapSeg(s segment.Segment) segment.Segment {
	recMu.Lock()
	segSeq++
	id := segSeq
	lastAct = time.Now()
	recMu.Unlock()
	return &wseg{s, id}
}

func recPlugin(ver int) *index.SegmentPlugin {
	newF, loadF, mergeF := iceV1.New, iceV1.Load, iceV1.Merge
	typ, version := iceV1.Type, uint32(iceV1.Version)
	if ver == 2 {
		newF, loadF, mergeF = iceV2.New, iceV2.Load, iceV2.Merge
		typ, version = iceV2.Type, uint32(iceV2.Version)
	}
	return &index.SegmentPlugin{
		Type: typ, Version: version,
		New: func(results []segment.Document, normCalc func(string, int) float32) (segment.Segment, uint64, error) {
			s, n, err := newF(results, normCalc)
			if err != nil || s == nil {
				return s, n, err
			}
			return wrapSeg(s), n, nil
		},
		Load: func(data *segment.Data) (segment.Segment, error) {
			s, err := loadF(data)
			if err != nil || s == nil {
				return s, err
			}
			return wrapSeg(s), nil
		},
		Merge: func(segs []segment.Segment, drops []*roaring.Bitmap, bufSize int) segment.Merger {
			in := make([]segment.Segment, len(segs))
			for i, s := range segs {
				if w, ok := s.(*wseg); ok {
					in[i] = w.Segment
				} else {
					in[i] = s
				}
			}
			touch()
			return mergeF(in, drops, bufSize)
		},
	}
}

func quiesce(maxWait time.Duration) bool {
	t0 := time.Now()
	for time.Since(t0) < maxWait {
		time.Sleep(10 * time.Millisecond)
		recMu.Lock()
		idle := time.Since(lastAct)
		recMu.Unlock()
		if idle > 70*time.Millisecond {
			return true
		}
	}
	return false
}

// ------------------------------------------------------------------------------------------------ index building

func kvOf(cfg string) map[string]string {
	m := map[string]string{}
	for _, p := range strings.Split(cfg, ",") {
		if i := strings.Index(p, "="); i > 0 {
			m[p[:i]] = p[i+1:]
		}
	}
	return m
}

var (
	dKey    string
	dReader *bluge.Reader
	dWriter *bluge.Writer
	dDir    string
	dSeq    int
	dQuiet  bool
)

func closeD() {
	if dReader != nil {
		_ = dReader.Close()
		_ = dWriter.Close()
		dReader, dWriter = nil, nil
	}
	if dDir != "" {
		_ = os.RemoveAll(dDir)
		dDir = ""
	}
	dKey = ""
}

func mkDoc(p map[string]string, entry string) *bluge.Document {
	f := strings.Split(entry, ":")
	doc := bluge.NewDocument(f[0])
	for i, name := range []string{"body", "title"} {
		if i+1 >= len(f) || f[i+1] == "-" {
			continue
		}
		for _, part := range strings.Split(f[i+1], "+") {
			doc.AddField(bluge.NewTextField(name, expandWords(part)))
		}
	}
	if p["all"] == "1" {
		doc.AddField(bluge.NewCompositeFieldExcluding("all", nil))
	}
	return doc
}

// expandWords: `ka,kb*3,kc` -> "ka kb kb kb kc"
func expandWords(part string) string {
	if !strings.Contains(part, "*") {
		return strings.ReplaceAll(part, ",", " ")
	}
	var b strings.Builder
	for _, w := range strings.Split(part, ",") {
		k := 1
		if i := strings.Index(w, "*"); i >= 0 {
			fmt.Sscanf(w[i+1:], "%d", &k)
			w = w[:i]
		}
		for j := 0; j < k; j++ {
			b.WriteString(w)
			b.WriteByte(' ')
		}
	}
	return b.String()
}

func openD(cfg, corpus, work string) *bluge.Reader {
	key := cfg + " " + corpus
	if key == dKey && dReader != nil {
		return dReader
	}
	closeD()
	p := kvOf(cfg)
	var c bluge.Config
	if p["dir"] == "fs" {
		if dSeq == 0 { // leftovers of an earlier run (the last index of a run is still open when the process exits)
			_ = os.RemoveAll(filepath.Join(work, "c17idx"))
		}
		dSeq++
		dDir = filepath.Join(work, "c17idx", fmt.Sprintf("d%d_%d", os.Getpid(), dSeq))
		_ = os.RemoveAll(dDir)
		if err := os.MkdirAll(dDir, 0o755); err != nil {
			panic(err)
		}
		c = bluge.DefaultConfig(dDir)
	} else {
		c = bluge.InMemoryOnlyConfig()
	}
	c.DefaultSimilarity = similarity.NewBM25SimilarityBK1(pf(p["b"]), pf(p["k1"]))
	if p["tb"] != "" {
		c.PerFieldSimilarity["title"] = similarity.NewBM25SimilarityBK1(pf(p["tb"]), pf(p["tk1"]))
	}
	ic := c.VerifIndexConfig()
	ver := 1
	if p["v"] == "2" {
		ver = 2
	}
	pl := recPlugin(ver)
	ic = ic.WithSegmentPlugin(pl)
	ic.SegmentType, ic.SegmentVersion = pl.Type, pl.Version
	ic.AsyncError = func(error) {}
	ic.EventCallback = func(index.Event) { touch() }
	if p["mg"] == "1" {
		ic.MergePlanOptions.FloorSegmentSize = 1
		ic.MergePlanOptions.MaxSegmentsPerTier = 1
		ic.MergePlanOptions.SegmentsPerMergeTask = 2
		ic.MergePlanOptions.TierGrowth = 2.0
	} else {
		ic.MergePlanOptions.CalcBudget = func(int64, int64, *mergeplan.Options) int { return 1 << 30 }
		ic.MinSegmentsForInMemoryMerge = 1 << 30
	}
	c = c.VerifWithIndexConfig(ic)
	w, err := bluge.OpenWriter(c)
	if err != nil {
		panic(err)
	}
	dQuiet = true
	for _, batch := range strings.Split(corpus, "/") {
		if batch == "@q" {
			if !quiesce(2 * time.Second) {
				dQuiet = false
			}
			continue
		}
		b := bluge.NewBatch()
		for _, e := range strings.Split(batch, ";") {
			if e == "" {
				continue
			}
			if e[0] == '!' {
				b.Delete(bluge.Identifier(e[1:]))
				continue
			}
			doc := mkDoc(p, e)
			b.Update(doc.ID(), doc)
		}
		if err := w.Batch(b); err != nil {
			panic(err)
		}
		touch()
	}
	r, err := w.Reader()
	if err != nil {
		panic(err)
	}
	dKey, dReader, dWriter = key, r, w
	return r
}

func termsOf(q *qnode, seen map[string]bool, out *[]string) {
	if q.term && q.multi != 0 {
		// a prefix / wildcard clause: every term its expansion searched (recorded by the plugin wrapper), in sorted order
		recMu.Lock()
		var ks []string
		for _, r := range recSegs {
			for k := range r.posts {
				if strings.HasPrefix(k, q.field+"|") && !seen[k] {
					w := k[len(q.field)+1:]
					ok := strings.HasPrefix(w, q.word)
					if q.multi == 'W' {
						ok = globOK(q.word, w)
					}
					if ok {
						seen[k] = true
						ks = append(ks, k)
					}
				}
			}
		}
		recMu.Unlock()
		sort.Strings(ks)
		*out = append(*out, ks...)
		return
	}
	if q.term {
		k := q.field + "|" + q.word
		if !seen[k] {
			seen[k] = true
			*out = append(*out, k)
		}
		return
	}
	for _, l := range [][]*qnode{q.musts, q.shoulds, q.nots} {
		for _, c := range l {
			termsOf(c, seen, out)
		}
	}
}

// globOK: `*` any string, `?` any byte
func globOK(pat, w string) bool {
	if pat == "" {
		return w == ""
	}
	switch pat[0] {
	case '*':
		return globOK(pat[1:], w) || (w != "" && globOK(pat, w[1:]))
	case '?':
		return w != "" && globOK(pat[1:], w[1:])
	}
	return w != "" && pat[0] == w[0] && globOK(pat[1:], w[1:])
}

func segsText(q *qnode) string {
	var keys []string
	termsOf(q, map[string]bool{}, &keys)
	recMu.Lock()
	defer recMu.Unlock()
	ids := make([]int, 0, len(recSegs))
	for id := range recSegs {
		ids = append(ids, id)
	}
	sort.Ints(ids)
	var entries []string
	for _, k := range keys {
		field := k[:strings.Index(k, "|")]
		var parts []string
		for _, id := range ids {
			r := recSegs[id]
			st, okS := r.stats[field]
			po, okP := r.posts[k]
			if !okS && !okP {
				continue
			}
			parts = append(parts, fmt.Sprintf("%d/%d/%d/%d", po[0], st[0], st[1], po[1]))
		}
		if len(parts) == 0 {
			parts = []string{"-"}
		}
		entries = append(entries, k+"="+strings.Join(parts, "+"))
	}
	if len(entries) == 0 {
		return "-"
	}
	return strings.Join(entries, ";")
}

func execD(w []string, line string, out func(string, string), st *hlib.Stats, work string) {
	// w: dsearch|dhit|dmatchset cfg corpus query kind [docid]
	only := ""
	if w[0] == "dhit" {
		only = w[5]
	}
	var with, without []hit
	var q *qnode
	segs := "-"
	res := hlib.Catch(func() string {
		q, _ = parseQuery(w[3])
		r := openD(w[1], w[2], work)
		recMu.Lock()
		recOn, recSegs = true, map[int]*segRec{}
		recMu.Unlock()
		with = runSearch(r, build(q), w[4], true)
		recMu.Lock()
		recOn = false
		recMu.Unlock()
		segs = segsText(q)
		without = runSearch(r, build(q), w[4], false)
		return "ok"
	})
	if res != "ok" {
		out(line, "panic")
		st.Case(line, true)
		closeD()
		return
	}
	if !dQuiet {
		st.Count("d:no-quiescence")
	}
	nseg := 0
	for _, e := range strings.Split(segs, ";") {
		if i := strings.Index(e, "="); i >= 0 {
			if k := strings.Count(e[i+1:], "+") + 1; k > nseg {
				nseg = k
			}
			for _, sg := range strings.Split(e[i+1:], "+") {
				if f := strings.Split(sg, "/"); len(f) == 4 && f[3] != "0" {
					st.Count("d:segment-with-deletions")
				}
			}
		}
	}
	st.Count(fmt.Sprintf("d:segments-%d", min(nseg, 4)))
	plain := map[string]string{}
	for _, x := range without {
		plain[x.id] = fb(x.score)
	}
	sort.Slice(with, func(i, j int) bool { return with[i].id < with[j].id })
	if w[4] == "all" && (w[0] == "dsearch" || w[0] == "dmatchset") {
		ids := make([]string, 0, len(with))
		for _, x := range with {
			ids = append(ids, x.id)
		}
		if len(ids) == 0 {
			ids = []string{"-"}
		}
		out(fmt.Sprintf("dmatchset %s %s %s all", w[1], w[2], w[3]), strings.Join(ids, ","))
	}
	if w[0] == "dmatchset" {
		return
	}
	if len(with) == 0 {
		st.Count("res:d-no-hit")
	}
	for _, x := range with {
		if only != "" && x.id != only {
			continue
		}
		p, ok := plain[x.id]
		if !ok {
			p = "missing"
		}
		op := fmt.Sprintf("dhit %s %s %s %s %s", w[1], w[2], w[3], w[4], x.id)
		st.Case(op, strings.Contains(x.expl, "score(freq="))
		st.Count("res:dhit")
		out(op, p+" "+fb(x.score)+" "+segs+" "+x.expl)
	}
}

// nscore <cfg> <corpus> <field> <word>: TermQuery under SetScore("none"); result: id=score bits of every hit, sorted
func execN(w []string, line string, out func(string, string), st *hlib.Stats, work string) {
	res := hlib.Catch(func() string {
		r := openD(w[1], w[2], work)
		req := bluge.NewTopNSearch(1000, bluge.NewTermQuery(w[4]).SetField(w[3])).SetScore("none")
		it, err := r.Search(context.Background(), req)
		if err != nil {
			return "err"
		}
		var hs []hit
		for {
			m, err := it.Next()
			if err != nil {
				return "err"
			}
			if m == nil {
				break
			}
			id := ""
			_ = m.VisitStoredFields(func(f string, v []byte) bool {
				if f == "_id" {
					id = string(v)
				}
				return true
			})
			hs = append(hs, hit{id: id, score: m.Score})
		}
		sort.Slice(hs, func(i, j int) bool { return hs[i].id < hs[j].id })
		if len(hs) == 0 {
			return "-"
		}
		parts := make([]string, len(hs))
		for i, x := range hs {
			parts[i] = x.id + "=" + fb(x.score)
		}
		return strings.Join(parts, ",")
	})
	st.Case(line, res != "-")
	st.Count("res:nscore")
	out(line, res)
}

// ------------------------------------------------------------------------------------------------ generation

var dSims = [][2]float64{{0.75, 1.2}, {0.75, 1.2}, {1, 1.2}, {1, 2}, {0, 1.2}, {0.5, 0.9}, {1, 0.0001}}

func genDCorpus(r *hlib.Rand, mg bool) string {
	// a rare hot word in few documents, many filler documents without it, then deletions of MANY documents that do not
	// contain the hot word (so that N keeps counting deleted documents while n counts live ones only)
	hot := words[r.Intn(len(words))]
	other := func() string {
		for {
			w := words[r.Intn(len(words))]
			if w != hot {
				return w
			}
		}
	}
	text := func(withHot bool, maxLen int) string {
		l := r.Range(1, maxLen)
		ws := make([]string, l)
		for j := range ws {
			ws[j] = other()
		}
		if withHot {
			k := r.Range(1, 3)
			for j := 0; j < k; j++ {
				ws[r.Intn(l)] = hot
			}
		}
		s := strings.Join(ws, ",")
		if l >= 2 && r.Chance(12) { // two fields of the same name
			cut := r.Range(1, l-1)
			s = strings.Join(ws[:cut], ",") + "+" + strings.Join(ws[cut:], ",")
		}
		return s
	}
	nd := r.Range(4, 24)
	nb := r.Range(1, 4)
	type dd struct {
		id       string
		hot      bool
		hotTitle bool
	}
	var docs []dd
	var batches []string
	entry := func(d *dd) string {
		body, title := "-", "-"
		if !r.Chance(10) {
			body = text(d.hot, 8)
		} else if r.Chance(40) {
			body = ""
		}
		if r.Chance(45) {
			title = text(d.hotTitle, 3)
		} else if r.Chance(10) {
			title = ""
		}
		return fmt.Sprintf("%s:%s:%s", d.id, body, title)
	}
	id := 0
	for bi := 0; bi < nb; bi++ {
		cnt := nd / nb
		if bi == 0 {
			cnt = nd - cnt*(nb-1)
		}
		var es []string
		for i := 0; i < cnt; i++ {
			d := dd{id: fmt.Sprintf("d%d", id), hot: r.Chance(15) || id == 0, hotTitle: r.Chance(15)}
			id++
			docs = append(docs, d)
			es = append(es, entry(&d))
		}
		batches = append(batches, strings.Join(es, ";"))
		if r.Chance(35) {
			batches = append(batches, "@q")
		}
	}
	// deletion / update rounds
	rounds := r.Range(1, 3)
	for ro := 0; ro < rounds; ro++ {
		var es []string
		pDel := []int{60, 85, 100}[r.Intn(3)]
		for i := range docs {
			d := &docs[i]
			if d.id == "" {
				continue
			}
			switch {
			case !d.hot && !d.hotTitle && r.Chance(pDel):
				es = append(es, "!"+d.id)
				d.id = ""
			case (d.hot || d.hotTitle) && r.Chance(8): // now and then a document WITH the hot word goes too
				es = append(es, "!"+d.id)
				d.id = ""
			case r.Chance(10): // update in place (the old version stays in its segment as a deleted document)
				if r.Chance(50) {
					d.hot = !d.hot
				}
				es = append(es, entry(d))
			}
		}
		if r.Chance(25) { // fresh documents in the same batch
			d := dd{id: fmt.Sprintf("d%d", id), hot: r.Chance(50)}
			id++
			docs = append(docs, d)
			es = append(es, entry(&d))
		}
		if len(es) == 0 {
			continue
		}
		if r.Chance(40) {
			batches = append(batches, "@q")
		}
		batches = append(batches, strings.Join(es, ";"))
	}
	if mg && r.Chance(70) || r.Chance(20) {
		batches = append(batches, "@q")
	}
	return strings.Join(batches, "/") + " " + hot
}

func genDTerm(r *hlib.Rand, hot string, all bool) string {
	field := "body"
	switch {
	case all && r.Chance(30):
		field = "all"
	case r.Chance(25):
		field = "title"
	}
	w := hot
	if r.Chance(35) {
		w = words[r.Intn(len(words))]
	}
	return fmt.Sprintf("T,%s,%s,%s", field, w, fb(qBoosts[r.Intn(len(qBoosts))]))
}

func genDQuery(r *hlib.Rand, hot string, all bool) string {
	if r.Chance(55) {
		return genDTerm(r, hot, all)
	}
	list := func(max int) string {
		n := r.Intn(max + 1)
		qs := make([]string, n)
		for i := range qs {
			qs[i] = genDTerm(r, hot, all)
		}
		return "[" + strings.Join(qs, "|") + "]"
	}
	musts, shoulds, nots := list(2), list(3), "[]"
	if r.Chance(20) {
		nots = "[" + genDTerm(r, hot, all) + "]"
	}
	if musts == "[]" && shoulds == "[]" {
		shoulds = "[" + genDTerm(r, hot, all) + "]"
	}
	min := 0
	if r.Chance(30) {
		min = r.Intn(2)
	}
	return fmt.Sprintf("B,%s,%d,%s,%s,%s", fb(qBoosts[r.Intn(len(qBoosts))]), min, musts, shoulds, nots)
}

func genD(r *hlib.Rand, nCorpora int, emit func(string)) {
	// fixed shapes first: a term in every document of its field (n = N), and the same after its neighbours were deleted
	// (n counts live documents, N keeps counting the deleted ones until a merge drops them)
	for i, corpus := range []string{"d0:ka:ka", "d0:ka,kb:-;d1:ka:kb/d2:ka,ka,kc:-", "d0:ka:-;d1:kb:-;d2:kc,kb:-/!d1;!d2", "d0:ka:-;d1:kb:-;d2:kc,kb:-/@q/!d1;!d2/@q"} {
		cfg := fmt.Sprintf("v=%d,dir=%s,mg=%d,b=%s,k1=%s", 1+i%2, []string{"mem", "fs"}[(i/2)%2], i/2%2, fb(0.75), fb(1.2))
		emit(fmt.Sprintf("dsearch %s %s T,body,ka,%s all", cfg, corpus, fb(1)))
	}
	// a long field (more tokens than 16 bits, frequency in the ten thousands), alone in its postings list (1-hit shape) and merged
	emit(fmt.Sprintf("dsearch v=1,dir=fs,mg=1,b=%s,k1=%s d0:ka*70000,kb:kb;d1:kb:-/d2:kc:-/@q T,body,ka,%s all", fb(0.75), fb(1.2), fb(1)))
	emit(fmt.Sprintf("dsearch v=2,dir=mem,mg=0,b=%s,k1=%s d0:ka*70000,kb:kb;d1:kb:-/d2:kc:- B,%s,0,[T,body,ka,%s],[T,body,kb,%s],[] all", fb(1), fb(1.2), fb(2), fb(1), fb(1)))
	for ci := 0; ci < nCorpora; ci++ {
		// the configuration axes are cycled (every small run covers them), the rest is random
		sim := dSims[ci%len(dSims)]
		mg := (ci/4)%2 == 1
		cfg := fmt.Sprintf("v=%d,dir=%s,mg=%d,b=%s,k1=%s", 1+ci%2, []string{"mem", "fs"}[(ci/2)%2], map[bool]int{false: 0, true: 1}[mg], fb(sim[0]), fb(sim[1]))
		if r.Chance(25) {
			t := dSims[r.Intn(len(dSims))]
			cfg += fmt.Sprintf(",tb=%s,tk1=%s", fb(t[0]), fb(t[1]))
		}
		all := ci%3 == 1
		if all {
			cfg += ",all=1"
		}
		ch := strings.Split(genDCorpus(r, mg), " ")
		corpus, hot := ch[0], ch[1]
		for qi := 0; qi < 6; qi++ {
			kind := "all"
			if r.Chance(15) {
				kind = "top"
			}
			emit(fmt.Sprintf("dsearch %s %s %s %s", cfg, corpus, genDQuery(r, hot, all), kind))
		}
		// the same index under score mode "none": the term searcher loads neither frequency nor norm and still calls the scorer
		emit(fmt.Sprintf("nscore %s %s body %s", cfg, corpus, hot))
	}
}

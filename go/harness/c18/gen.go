package main

import (
	"fmt"
	"strconv"
	"strings"

	"verif/harness/hlib"
)

// ---------------------------------------------------------------------------------------------
// script-aware text generators (pure functions of the seed; they never call the code under test)

func runesOf(lo, hi rune) []rune {
	var rs []rune
	for r := lo; r <= hi; r++ {
		rs = append(rs, r)
	}
	return rs
}

type script struct {
	name     string
	letters  []rune
	prefixes []string
	suffixes []string
	words    []string // frequent words (stop words, elisions, words the stemmers know)
	seps     []string
}

var scripts = []script{
	{name: "latin", letters: []rune("abcdefghijklmnopqrstuvwxyzABCDEFGHIJKLMNOPQRSTUVWXYZäöüßéèêàçñáíóúâôûïœæøåãõěščřžýłÿÈÉÊÀÇÑŒÆØÅŞşİıĞğȺȾΣσς"),
		suffixes: []string{"s", "es", "ing", "ed", "ly", "ness", "ement", "ements", "ité", "ités", "ation", "ations", "eux", "euse", "mente", "mento",
			"ación", "aciones", "issimo", "issima", "heit", "keit", "ung", "ungen", "en", "ern", "em", "er", "e", "n", "ismo", "ismos", "ões", "ães", "ais", "éis", "eis", "óis", "is", "les", "ns", "ão",
			"'s", "’s", "'S", "＇s", "amente", "able", "ible", "ance", "ence", "logie", "ical", "ic", "ical", "iva", "ivo", "ando", "endo", "ar", "ir", "er", "i", "a", "o", "he", "ie", "chi", "ghe",
			"x", "aux", "ère", "ières", "ss", "ß", "st", "nd", "t", "lar", "ler", "dir", "dır", "in", "ın", "ene", "ane", "ende", "erte", "et", "ene", "hed", "heden", "lig", "else", "tje", "tjes"},
		prefixes: []string{"l'", "L'", "d'", "qu'", "j’", "lorsqu'", "dell'", "all’", "un'", "m'", "b'", "d’", "n-", "h-", "t-", "ge", "un", "re", "'", "’"},
		words: []string{"the", "and", "a", "of", "to", "le", "la", "les", "de", "der", "die", "das", "und", "el", "los", "que", "il", "lo", "gli", "een", "het", "och", "og", "ja", "on", "és", "şi", "bir", "ve",
			"running", "houses", "l'avion", "qu'il", "dell'arte", "http://example.com/a?b=c", "user.name+tag@example.org", "@handle", "#hashTag9", "www.x.io/p", "camelCaseWord", "HTTPServer2Go", "ABCdef123ghi", "x1y2", "3.14", "1e9", "0x1F",
			"Istanbul'da", "Türkiye’nin", "<b>bold</b>", "<a href=\"x\">", "<!doctype html>", "a<b", "&amp;", "naïve", "coöperate", "Straße", "ǅ", "ǈ", "ⱥ", "İ", "ΟΔΟΣ", "ΑΣ",
			"İstanbul", "aİb", "DİYARBAKIR", "Kelvin", "aKb", "Ωhm", "5Ωx"},
		seps: []string{" ", " ", " ", "  ", ", ", ". ", "\n", "\t", "-", "_", "'", "’", "/", " - ", "; ", "!", "?", ":", " ", " ", "　", "\u0085", "​", "‌", "\u00ad"}},
	{name: "arabic", letters: []rune("ابتثجحخدذرزسشصضطظعغفقكلمنهويءآأؤإئةىًٌٍَُِّْـ٠١٢٣٤٥٦٧٨٩"),
		prefixes: []string{"ال", "وال", "بال", "كال", "فال", "لل", "و"},
		suffixes: []string{"ها", "ان", "ات", "ون", "ين", "يه", "ية", "ه", "ة", "ي"},
		words:    []string{"في", "من", "على", "الكتاب", "والكتاب", "مدرسة", "المعلمون", "كتابها", "و", "وا", "ال", "لل", "للل", "وال"},
		seps:     []string{" ", " ", "، ", "؛", ".", "‌", "‏", "\n"}},
	{name: "persian", letters: []rune("ابپتثجچحخدذرزژسشصضطظعغفقکگلمنوهیكيۀەےۓۂہھ‌ًَُِّٔ۰۱۲۳۴۵۶۷۸۹"),
		suffixes: []string{"ها", "های", "ان", "ات", "ی", "ای", "تر", "ترین", "ه", "هٔ", "ۀ", "‌ها", "‌ای"},
		words:    []string{"و", "در", "به", "از", "که", "می‌رود", "کتاب‌ها", "خانهٔ", "است"},
		seps:     []string{" ", " ", "، ", "‌", ".", "\n"}},
	{name: "sorani", letters: []rune("ئابپتجچحخدرڕزژسشعغفڤقکگلڵمنوۆھەیێكيىەهۀ‌ـًٌٍَُِّْ"),
		suffixes: []string{"دا", "نا", "ەوە", "مان", "یان", "تان", "ێکی", "یەکی", "ێک", "یەک", "ەکە", "کە", "ەکان", "کان", "یانی", "انی", "ان", "یانە", "انە", "ایە", "ەیە", "ە", "ی", "ه‌", "ە‌"},
		words:    []string{"لە", "بۆ", "و", "کە", "پیاوەکان", "کتێبێک", "دەچم", "ماڵەکەمان", "ئەوەی"},
		seps:     []string{" ", " ", "، ", "‌", ".", "\n"}},
	{name: "cyrillic", letters: []rune("абвгдежзийклмнопрстуфхцчшщъыьэюяёАБВГДЕЖЗИЙКЛМНОПРСТУФХЦЧШЩЪЫЬЭЮЯЁіїєґўђљњћџ"),
		suffixes: []string{"ами", "ями", "ов", "ев", "ей", "ый", "ий", "ая", "яя", "ое", "ее", "ться", "тся", "ешь", "ет", "ем", "ете", "ут", "ют", "ала", "ило", "ость", "ости", "ение", "ения", "ся", "сь", "а", "я", "ы", "и", "у", "ю", "ь", "ейше", "нн", "вшись", "ив", "ывши"},
		words:    []string{"и", "в", "не", "на", "что", "книга", "книгами", "бегающий", "ёлка", "Ёжик"},
		seps:     []string{" ", " ", ", ", ". ", "-", "\n", "—"}},
	{name: "devanagari", letters: []rune("अआइईउऊऋएऐओऔकखगघङचछजझञटठडढणतथदधनपफबभमयरलवशषसहािीुूृेैोौंःँ़्ॅॉऍऑऩऱऴक़ख़ग़ज़ड़ढ़फ़य़ॠॢॣ०१२३४५६७८९।ॐ"),
		suffixes: []string{"ों", "ें", "ीं", "ियों", "ियाँ", "ियां", "ाओं", "ाएं", "ाएँ", "ाने", "ाना", "ाते", "ाती", "ाता", "ना", "ने", "नी", "ता", "ती", "ते", "ो", "े", "ू", "ु", "ी", "ि", "ा", "ेंगी", "ेंगे", "ाएगी", "ाएगा", "ूंगी", "ूंगा", "ाइयों", "ाइयाँ"},
		words:    []string{"के", "का", "की", "में", "है", "और", "से", "किताबें", "लड़कियों", "क़", "ज़िंदगी", "हिंदी", "हिन्दी", "ऑफ़"},
		seps:     []string{" ", " ", "। ", ", ", "‍", "‌", "\n"}},
	{name: "bengali-etc", letters: append(append(append(runesOf(0x0985, 0x09b9), runesOf(0x09bc, 0x09d7)...), runesOf(0x0b85, 0x0bcd)...), runesOf(0x0d05, 0x0d4d)...),
		seps: []string{" ", "‍", ", "}},
	{name: "cjk", letters: append(append(append(append(append(runesOf(0x4e00, 0x4e80), runesOf(0x3041, 0x3096)...), runesOf(0x30a1, 0x30fa)...), runesOf(0xff65, 0xff9f)...), runesOf(0xff01, 0xff5e)...),
		[]rune("ｶﾞｷﾞﾊﾟﾋﾟｳﾞヴゔー々〆〇〡㐀𠀀𠮷한글조선각ㄱㅏ豈﨑。、「」・")...),
		words: []string{"こんにちは", "世界", "日本語", "ｶﾞｲﾄﾞ", "ﾊﾟｿｺﾝ", "ＡＢＣ１２３", "東京都", "한국어", "𠮷野家", "ﾞ", "ﾟ", "ｶﾞ", "ｱﾞ", "ヷ", "ｳﾞｧ", "ー"},
		seps:  []string{"", "", "", " ", "。", "、", "　", "abc", "1", "ａ", "ｶ", "ﾞ", "ﾟ"}},
}

func (s *script) word(r *hlib.Rand) string {
	var b strings.Builder
	if len(s.words) > 0 && r.Chance(25) {
		return s.words[r.Intn(len(s.words))]
	}
	if len(s.prefixes) > 0 && r.Chance(30) {
		b.WriteString(s.prefixes[r.Intn(len(s.prefixes))])
	}
	n := []int{0, 0, 1, 1, 2, 2, 3, 3, 4, 5, 6, 8, 12}[r.Intn(13)]
	for i := 0; i < n; i++ {
		b.WriteRune(s.letters[r.Intn(len(s.letters))])
	}
	ns := 0
	if len(s.suffixes) > 0 {
		ns = []int{0, 1, 1, 1, 2, 3}[r.Intn(6)]
	}
	for i := 0; i < ns; i++ {
		b.WriteString(s.suffixes[r.Intn(len(s.suffixes))])
	}
	return b.String()
}

func (s *script) text(r *hlib.Rand, nwords int) string {
	var b strings.Builder
	for i := 0; i < nwords; i++ {
		if i > 0 || r.Chance(15) {
			b.WriteString(s.seps[r.Intn(len(s.seps))])
		}
		b.WriteString(s.word(r))
	}
	if r.Chance(15) {
		b.WriteString(s.seps[r.Intn(len(s.seps))])
	}
	return b.String()
}

// malformed byte material
var badPieces = [][]byte{
	{0xff}, {0xfe}, {0x80}, {0xbf}, {0xc0, 0x80}, {0xc1, 0xbf}, {0xc2}, {0xe0, 0x80, 0x80}, {0xe0, 0xa0}, {0xe2, 0x82}, {0xe2}, {0xed, 0xa0, 0x80}, {0xed, 0xbf, 0xbf},
	{0xf0, 0x80, 0x80, 0x80}, {0xf0, 0x9f, 0x98}, {0xf0, 0x9f}, {0xf0}, {0xf4, 0x90, 0x80, 0x80}, {0xf5, 0x80, 0x80, 0x80}, {0xf8, 0x88, 0x80, 0x80, 0x80},
	{0xef, 0xbf, 0xbd}, {0xef, 0xbf, 0xbe}, {0xef, 0xbb, 0xbf}, {0x00}, {0x7f}, {0x1b}, {0xe4, 0xb8}, {0xe3, 0x81}, {0xd8}, {0xd9}, {0xe0, 0xa4}, {0xef, 0xbd}, {0xef, 0xbe},
}

func rawBytes(r *hlib.Rand, n int) []byte {
	b := make([]byte, n)
	for i := range b {
		switch r.Weighted(4, 3, 2, 1) {
		case 0:
			b[i] = byte(r.Intn(256))
		case 1:
			b[i] = byte(0x80 + r.Intn(0x80))
		case 2:
			b[i] = byte(0x20 + r.Intn(0x5f))
		default:
			b[i] = []byte{0xc2, 0xe0, 0xe3, 0xe4, 0xed, 0xef, 0xf0, 0xf4, 0xd8, 0xd9}[r.Intn(10)]
		}
	}
	return b
}

// damage a valid text: truncate inside a rune, splice malformed pieces, drop a lead byte
func damage(r *hlib.Rand, t []byte) []byte {
	out := append([]byte{}, t...)
	k := 1 + r.Intn(3)
	for i := 0; i < k; i++ {
		switch r.Intn(5) {
		case 0: // cut at an arbitrary byte
			if len(out) > 0 {
				out = out[:r.Intn(len(out)+1)]
			}
		case 1, 2: // splice a malformed piece
			p := badPieces[r.Intn(len(badPieces))]
			at := r.Intn(len(out) + 1)
			out = append(out[:at:at], append(append([]byte{}, p...), out[at:]...)...)
		case 3: // delete one byte
			if len(out) > 0 {
				at := r.Intn(len(out))
				out = append(out[:at:at], out[at+1:]...)
			}
		case 4: // overwrite one byte
			if len(out) > 0 {
				out[r.Intn(len(out))] = byte(r.Intn(256))
			}
		}
	}
	return out
}

func genTexts(r *hlib.Rand, n int) [][]byte {
	var ts [][]byte
	add := func(s string) { ts = append(ts, []byte(s)) }
	// fixed boundary texts
	for _, s := range []string{"", " ", "   \n\t", "a", "é", "'", "’", "l'", "l’", "'a", "a'", "s", "'s", "’s", "x's", "S", "日", "日本", "ｶ", "ﾞ", "ｶﾞ", "ﾞｶ", "‌", "�", "a�b c", "a b� c d",
		"ال", "و", "وا", "وال", "لل", "ە", "ی", "ों", "ा", "İ", "Σ", "ΑΣ", "Ⱥ", "ȺȾ", "aȺ", "ǅ", "ß", "ﬁ", "ﷺ", "㍿", "½", "①", "é", "́", "́́a", "á̂b", "👍", "👨‍👩‍👧", "🇩🇪", "a👍b",
		"http://", "@", "#", "@@", "a@b", "a@b.c", "x@y.zz/", "www.", "www.a.b", "1.2.3.4", "1,000.5", "-1", "1e9", "NaN", "Inf", "0x10", "<>", "<a>", "</a >", "<a b='c'>d", "<!-- x -->", "<br/>text"} {
		add(s)
	}
	for _, p := range badPieces {
		ts = append(ts, append([]byte{}, p...))
		ts = append(ts, append(append([]byte("ab "), p...), []byte(" cd")...))
		ts = append(ts, append(append([]byte("ab"), p...), []byte("cd ef")...))
		ts = append(ts, append(append([]byte("日本"), p...), []byte("語")...))
	}
	// very long tokens
	for _, s := range []string{"a", "é", "日", "ｶﾞ", "ب", "x1", "aB", "ا"} {
		for _, k := range []int{255, 256, 1000, 4000} {
			if k >= 1000 && len(s) > 1 {
				continue
			}
			add(strings.Repeat(s, k))
			add("w " + strings.Repeat(s, k) + " z")
		}
	}
	add(strings.Repeat("ab ", 1200))
	add(strings.Repeat("日本語 ", 300))
	for i := 0; i < n; i++ {
		var t []byte
		switch r.Weighted(8, 2, 3, 2, 1) {
		case 0: // one script
			s := &scripts[r.Intn(len(scripts))]
			t = []byte(s.text(r, r.Range(1, 9)))
		case 1: // mixed scripts
			var b strings.Builder
			for k := r.Range(2, 5); k > 0; k-- {
				s := &scripts[r.Intn(len(scripts))]
				b.WriteString(s.text(r, r.Range(1, 3)))
				if r.Chance(60) {
					b.WriteString(" ")
				}
			}
			t = []byte(b.String())
		case 2: // damaged valid text
			s := &scripts[r.Intn(len(scripts))]
			t = damage(r, []byte(s.text(r, r.Range(1, 6))))
		case 3: // raw bytes
			t = rawBytes(r, r.Range(1, 40))
		default: // single word (reaches the stemmers with short and empty stems)
			s := &scripts[r.Intn(len(scripts))]
			t = []byte(s.word(r))
		}
		ts = append(ts, t)
	}
	return ts
}

// ---------------------------------------------------------------------------------------------
// explicit stage inputs for the modelled filters

type gtok struct {
	term       []byte
	start, end int
	pi, ty, kw int
}

func streamOf(ts []gtok) string {
	if len(ts) == 0 {
		return "_"
	}
	ps := make([]string, len(ts))
	for i, t := range ts {
		ps[i] = fmt.Sprintf("%s,%d,%d,%d,%d,%d", hlib.Hex(t.term), t.start, t.end, t.pi, t.ty, t.kw)
	}
	return strings.Join(ps, ";")
}

// splitWords: a tiny generator-side tokenizer (ASCII blanks) that gives a Valid, ordered stream whose terms are
// the slices of the text; the variations below then perturb it.
func splitWords(text []byte) []gtok {
	var out []gtok
	i := 0
	for i < len(text) {
		for i < len(text) && (text[i] == ' ' || text[i] == '\n' || text[i] == '\t') {
			i++
		}
		j := i
		for j < len(text) && !(text[j] == ' ' || text[j] == '\n' || text[j] == '\t') {
			j++
		}
		if j > i {
			out = append(out, gtok{term: append([]byte{}, text[i:j]...), start: i, end: j, pi: 1})
		}
		i = j
	}
	return out
}

func perturb(r *hlib.Rand, ts []gtok, malformed bool) []gtok {
	for i := range ts {
		if r.Chance(20) {
			ts[i].pi = []int{0, 2, 3, 5}[r.Intn(4)]
		}
		if r.Chance(15) {
			ts[i].ty = []int{1, 1, 2, 4, 5, 6}[r.Intn(6)]
		}
		if r.Chance(10) {
			ts[i].kw = 1
		}
		if r.Chance(12) && i > 0 { // repeated term
			ts[i].term = append([]byte{}, ts[r.Intn(i)].term...)
		}
		if r.Chance(6) { // a term that no longer is the slice (as after a stemmer / normaliser)
			ts[i].term = append(ts[i].term, []byte("é")...)
		}
		if r.Chance(4) {
			ts[i].term = []byte{}
		}
		if malformed && r.Chance(35) {
			switch r.Intn(5) {
			case 0:
				ts[i].start, ts[i].end = ts[i].end, ts[i].start
			case 1:
				ts[i].start = -1 - r.Intn(3)
			case 2:
				ts[i].end += 1000
			case 3:
				ts[i].pi = -1 - r.Intn(3)
			case 4:
				ts[i].start, ts[i].end = -1, -1
			}
		}
	}
	if malformed && len(ts) > 1 && r.Chance(50) { // out of order
		i, j := r.Intn(len(ts)), r.Intn(len(ts))
		ts[i], ts[j] = ts[j], ts[i]
	}
	return ts
}

func (h) Gen(r *hlib.Rand, tier string, scale int, emit func(string)) {
	nText := 70 * scale
	nStage := 40 * scale
	if tier == "thorough" {
		nText = 1500 * scale
		nStage = 800 * scale
	}
	texts := genTexts(r, nText)
	hexOf := func(t []byte) string { return hlib.Hex(t) }

	// 1. every text through every analyzer (bundled + wrappers); the match-query round trip on the bundled
	//    ones and on a sample of the wrappers
	for ti, t := range texts {
		long := len(t) > 600
		for ai, a := range analyzers {
			bundled := ai < 24
			if long && !bundled && (ti+ai)%3 != 0 {
				continue
			}
			line := "an " + a.name + " " + hexOf(t)
			if long && ai%4 != ti%4 || !bundled && (ti+ai)%4 != 0 {
				line += " nomq"
			}
			emit(line)
		}
	}

	// 1b. pinned inputs: the shapes behind the recorded findings and their neighbours (always exercised)
	for _, l := range []string{
		"pipe single reverse ff", "pipe renonspace reverse 61ff62", "pipe unicode reverse 61ff62", "pipe single reverse c3a9cc81e697a5",
		"pipe single camel fe", "pipe single camel 616220fe206364", "pipe unicode lower,camel c8bac8ba", "pipe unicode camel c8bac8ba",
		"pipe unicode camel 48545450536572766572324766f", "pipe ws camel 48545450536572766572324766",
		"pipe unicode nfkd,dict:1:1:3:0:d8b5+d984 efb7ba", "pipe unicode dict:1:1:3:0:c3a9+61 c3a9c3a961",
		"pipe unicode cjk:0 e697a5ffe69cac", "pipe renonspace cjk:0 e697a5ff", "pipe renonspace porter,cjk:0 e697a5ff", "pipe renonspace lower,cjk:1 e697a5e69cacff20e8aa9e", "pipe unicode cjk:1 e697a5e69cace8aa9e", "pipe unicode width,cjk:0 efbdb6efbe9eefbdb2",
		"flt cjk:0 4 e697a5ff,0,4,1,1,0", "flt cjk:1 6 e697a5,0,3,1,1,0;e69cac,3,6,1,1,0",
		"flt shingle:2:2:0:-:- 8 -,5,8,1,0,0;-,0,3,1,0,0", "flt dict:1:1:1:0:62 1 6162,0,1,1,0,0",
	} {
		emit(l)
	}

	// 1b'. every range of every unicode script table the analysis packages consult (see scripts_sweep.go)
	genScriptSweep(r, tier, emit)

	// 1c. re-entrancy: ONE value of every analyzer (bundled and x-*) and of every configurable filter used by 8
	//     goroutines at once, on ideographic / Latin / mixed texts (see conc.go)
	cjkS, latS := &scripts[len(scripts)-1], &scripts[0]
	concTexts := func() string {
		var hs []string
		hs = append(hs, hexOf([]byte(strings.Repeat("日本語", 20)+cjkS.text(r, 30))))
		hs = append(hs, hexOf([]byte(latS.text(r, 25)+" 東京都 "+latS.text(r, 5))))
		hs = append(hs, hexOf([]byte(cjkS.text(r, 12)+" "+scripts[r.Intn(len(scripts))].text(r, 8))))
		hs = append(hs, hexOf([]byte("世界 abc こんにちは ﾊﾟｿｺﾝ 한국어")))
		return strings.Join(hs, "+")
	}
	for _, a := range analyzers {
		emit("conc " + a.name + " " + concTexts())
	}

	// 1d. translator validation: the real stemmers / normalisers / rune helpers against their translated definitions
	genStem(r, nStage, emit)

	// 2. modelled tokenizers and the other pure tokenizers on every text
	for _, t := range texts {
		for _, k := range []string{"letter", "ws", "alnum", "single"} {
			emit("tok " + k + " " + hexOf(t))
		}
		for _, k := range []string{"unicode", "web", "reword", "renonspace", "excletter", "excws"} {
			emit("tokx " + k + " " + hexOf(t))
		}
	}

	// 3. configurable filters over their parameter grid, behind real tokenizers
	grid := []string{}
	for _, mm := range [][2]int{{1, 1}, {1, 2}, {1, 3}, {2, 2}, {2, 3}, {2, 4}, {3, 5}, {1, 8}} {
		grid = append(grid, fmt.Sprintf("ngram:%d:%d", mm[0], mm[1]), fmt.Sprintf("edge:f:%d:%d", mm[0], mm[1]), fmt.Sprintf("edge:b:%d:%d", mm[0], mm[1]))
	}
	sep, fill := hlib.Hex([]byte(" ")), hlib.Hex([]byte("_"))
	for _, mm := range [][2]int{{1, 1}, {1, 2}, {2, 2}, {2, 3}, {2, 4}, {3, 3}, {1, 5}} {
		for _, oo := range []int{0, 1} {
			grid = append(grid, fmt.Sprintf("shingle:%d:%d:%d:%s:%s", mm[0], mm[1], oo, sep, fill))
		}
	}
	grid = append(grid, "shingle:2:2:0:-:-", "shingle:2:3:1:"+hlib.Hex([]byte("·"))+":"+hlib.Hex([]byte("∅")))
	for _, n := range []int{1, 2, 3, 5, 10, 255} {
		grid = append(grid, fmt.Sprintf("trunc:%d", n))
	}
	for _, mm := range [][2]int{{1, 1}, {1, 3}, {2, 5}, {3, 3}, {0, 4}, {3, 0}, {0, 0}, {1, 255}} {
		grid = append(grid, fmt.Sprintf("length:%d:%d", mm[0], mm[1]))
	}
	dictWords := hexList([]string{"ab", "abc", "soft", "ball", "softball", "日本", "本語", "é", "éé", "a", "кни", "га", "ال", "كتاب"})
	for _, d := range []string{"1:1:3:0", "1:1:3:1", "3:2:4:0", "3:2:4:1", "5:2:15:0", "1:1:1:0", "2:1:8:1"} {
		grid = append(grid, "dict:"+d+":"+dictWords)
	}
	arts := hexList([]string{"l", "d", "qu", "j", "m", "dell", "all", "un", "L", "é", "日"})
	stops := hexList([]string{"the", "and", "a", "ab", "и", "في", "日本", ""})
	grid = append(grid, "unique", "reverse", "apos", "camel", "cjk:0", "cjk:1", "elision:"+arts, "elision:-", "stop:"+stops, "kwmark:"+stops)
	for gi, g := range grid {
		emit("concp " + []string{"unicode", "ws", "web"}[gi%3] + " " + g + " " + concTexts())
	}
	emit("concp unicode lower,width,cjk:1,unique " + concTexts())
	toks := []string{"ws", "unicode", "single", "letter", "web", "renonspace", "excws"}
	post := []string{"", "", "", "lower", "nfkd", "width", "porter"}
	for i := 0; i < nStage*6; i++ {
		t := texts[r.Intn(len(texts))]
		if len(t) > 300 {
			t = t[:r.Range(0, 300)]
		}
		g := grid[i%len(grid)]
		specs := []string{g}
		if p := post[r.Intn(len(post))]; p != "" { // a term-rewriting filter first: terms stop being slices
			specs = []string{p, g}
		}
		if r.Chance(25) { // chains of offset-writing filters
			specs = append(specs, grid[r.Intn(len(grid))])
		}
		emit("pipe " + toks[r.Intn(len(toks))] + " " + strings.Join(specs, ",") + " " + hexOf(t))
	}

	// 4. explicit stage inputs (valid streams with gaps / flags / repeated and rewritten terms; a malformed class)
	for i := 0; i < nStage*len(grid)/2; i++ {
		s := &scripts[r.Intn(len(scripts))]
		var text []byte
		if r.Chance(80) {
			text = []byte(s.text(r, r.Range(0, 7)))
		} else {
			text = damage(r, []byte(s.text(r, r.Range(1, 5))))
		}
		malformed := r.Chance(12)
		ts := perturb(r, splitWords(text), malformed)
		g := grid[i%len(grid)]
		emit("flt " + g + " " + strconv.Itoa(len(text)) + " " + streamOf(ts))
	}
	// parameters outside the stated ranges (min > max, zero and negative sizes): a separate, small class
	for _, g := range []string{"ngram:3:1", "ngram:0:2", "ngram:-1:2", "edge:f:0:1", "edge:b:-2:1", "edge:b:2:1", "shingle:3:2:1:20:5f", "shingle:0:2:0:20:5f", "shingle:1:0:0:20:5f",
		"trunc:0", "trunc:-1", "length:5:2", "length:-1:-1", "dict:0:0:3:0:" + dictWords, "dict:1:-1:3:0:" + dictWords, "dict:1:3:1:1:" + dictWords} {
		for k := 0; k < 3; k++ {
			s := &scripts[r.Intn(3)]
			text := []byte(s.text(r, r.Range(0, 4)))
			emit("flt " + g + " " + strconv.Itoa(len(text)) + " " + streamOf(perturb(r, splitWords(text), false)))
		}
	}

	// 5. TokenFrequency and Document.Analyze position gaps
	for i := 0; i < nStage*4; i++ {
		s := &scripts[r.Intn(len(scripts))]
		text := []byte(s.text(r, r.Range(0, 8)))
		ts := perturb(r, splitWords(text), r.Chance(10))
		tv := 1
		if r.Chance(25) {
			tv = 0
		}
		emit(fmt.Sprintf("tf %d %d %s", tv, []int{0, 0, 1, 7, 100, 101}[r.Intn(6)], streamOf(ts)))
	}
	for i := 0; i < nStage*2; i++ {
		nf := r.Range(1, 4)
		parts := make([]string, nf)
		for k := range parts {
			s := &scripts[r.Intn(len(scripts))]
			text := []byte(s.text(r, r.Range(0, 4)))
			ts := perturb(r, splitWords(text), false)
			parts[k] = streamOf(ts)
		}
		emit(fmt.Sprintf("doc %d %s", []int{0, 1, 100, 100, 7}[r.Intn(5)], strings.Join(parts, "|")))
	}
}

// ---------------------------------------------------------------------------------------------
// stem / util ops (stem.go): words of the script each stemmer knows (stems of every length 0..12 under every
// affix of the generator's lists, so that every length guard is met from both sides), accents, damaged and raw
// bytes; rune helpers over valid and invalid runes with positions / counts inside and outside their domain

var stemScript = map[string]string{"de_normalize": "latin", "de_light": "latin", "es_light": "latin", "it_light": "latin", "pt_light": "latin",
	"fr_light": "latin", "fr_min": "latin", "ar_normalize": "arabic", "ar_stem": "arabic", "fa_normalize": "persian",
	"ckb_normalize": "sorani", "ckb_stem": "sorani", "hi_normalize": "devanagari", "hi_stem": "devanagari", "in_normalize": "devanagari"}

var stemExtra = map[string][]string{
	"de_normalize": {"ß", "aß", "ßß", "ae", "oe", "ue", "aue", "eue", "quelle", "aee", "äöüß", "Maße", "e", "ee", "aeaeae"},
	"de_light":     {"ern", "abcern", "abcdern", "em", "abcem", "abcdes", "e", "abce", "abs", "abds", "est", "abcest", "abcdest", "abcder", "abcbst", "äàáâöòóôïìíîüùúû"},
	"fr_light": {"x", "aux", "eaux", "chevaux", "abeaux", "issement", "abissement", "abcissement", "issant", "ement", "ivement", "abivement", "ficatrice", "abcficatrice", "ficateur", "catrice", "cateur", "atrice", "ateur", "trice",
		"ième", "teuse", "teur", "euse", "ère", "ive", "folle", "molle", "nnelle", "nnel", "ète", "ique", "esse", "inage", "isation", "ualisation", "abcualisation", "isateur", "ation", "ition",
		"aaaaa", "aaaaaa", "aabbccdd", "bbbbbie", "abcdie", "abcder", "abcdee", "abcdeer", "abcdd", "àáâôèéêùûîç", "11111", "....."},
	"fr_min":   {"abcdex", "abcaux", "abcdes", "abcder", "abcdee", "abcdeé", "abcdd", "abcdsre", "aasreé", "xxxxxx", "ssssss", "rrrrrr", "eeeeee", "éééééé"},
	"es_light": {"abcdo", "abceses", "abcces", "abcdos", "abcdas", "abcdes", "abcds", "àáâäòóôöèéêëùúûüìíîï", "abcd", "ses"},
	"it_light": {"abcdie", "abcdhe", "abcdee", "abcdhi", "abcdii", "abcdei", "abcdia", "abcdea", "abcdio", "abcdeo", "abcde", "àáâäòóôöèéêëùúûüìíîï"},
	"pt_light": {"abres", "abses", "ables", "abzes", "abns", "abcns", "abeis", "abéis", "abais", "abóis", "abcis", "ões", "aões", "abães", "abmente", "abcmente", "abs", "abcs",
		"abcdinha", "abcdiaca", "abcdeira", "abcdosa", "abcdica", "abcdida", "abcdada", "abcdiva", "abcdama", "abcdona", "abcdora", "abcdesa", "abcdena", "abca", "abcde", "àáâäãòóôöõèéêëùúûüìíîïç"},
	"ar_normalize":  {"ـ", "ـــ", "اَ", "َُِّْ", "آأإ", "ىة"},
	"ar_stem":       {"و", "وا", "واب", "وابت", "الا", "الاب", "والاب", "للاب", "ابها", "ابتها", "هاها", "الها", "وه", "وهي"},
	"fa_normalize":  {"ٔ", "ۀ", "هٔ", "ٔٔ", "یےۓکۀہ"},
	"ckb_normalize": {"‌", "ه‌", "‌ه", "ه", "هه", "ر", "رر", "ـ", "‍", "\u200e\u200f", "\u00ad", "\ufeff", "يىكةھڒ"},
	"ckb_stem":      {"دا", "ابجددا", "ابجدهدا", "نا", "ابجدنا", "ەوە", "مان", "یان", "تان", "ێکی", "یەکی", "ێک", "یەک", "ەکە", "کە", "ەکان", "کان", "یانی", "انی", "ان", "یانە", "انە", "ایە", "ەیە", "ە", "ی"},
	"hi_normalize":  {"न्", "न्न्", "न", "़", "़़", "्", "‍", "‌", "ँ", "ऩऱऴक़ख़ग़ज़ड़ढ़फ़य़"},
	"hi_stem":       {"ाएंगी", "कखाएंगी", "कखगाएंगी", "ाएगी", "कखाएगी", "ाकर", "ककर", "कखकर", "कर", "ो", "को", "कखो"},
}

func genStem(r *hlib.Rand, nStage int, emit func(string)) {
	byName := map[string]*script{}
	for i := range scripts {
		byName[scripts[i].name] = &scripts[i]
	}
	for _, name := range stemNames {
		s := byName[stemScript[name]]
		var words []string
		words = append(words, "", "a", "ab", "abc")
		words = append(words, stemExtra[name]...)
		// every affix under stems of length 0..8, and pairs of suffixes
		for _, suf := range s.suffixes {
			for k := 0; k <= 8; k += 1 + r.Intn(2) {
				var b strings.Builder
				for i := 0; i < k; i++ {
					b.WriteRune(s.letters[r.Intn(len(s.letters))])
				}
				words = append(words, b.String()+suf)
			}
		}
		for _, pre := range s.prefixes {
			for k := 0; k <= 4; k++ {
				var b strings.Builder
				b.WriteString(pre)
				for i := 0; i < k; i++ {
					b.WriteRune(s.letters[r.Intn(len(s.letters))])
				}
				if len(s.suffixes) > 0 && r.Chance(40) {
					b.WriteString(s.suffixes[r.Intn(len(s.suffixes))])
				}
				words = append(words, b.String())
			}
		}
		for i := 0; i < nStage; i++ {
			words = append(words, s.word(r))
		}
		// every letter of the script alone and in final position (rules that look at runes[i+1], at the last rune, …)
		for _, l := range s.letters {
			var b strings.Builder
			for i := r.Intn(4); i > 0; i-- {
				b.WriteRune(s.letters[r.Intn(len(s.letters))])
			}
			words = append(words, string(l), b.String()+string(l))
		}
		if name == "in_normalize" {
			// sequences over the offsets the decomposition table speaks about, in each of the nine script blocks, with
			// ZWJ / ZWNJ and a rune of a neighbouring script in second or third place (compose: same-script and 2/3-rune rows)
			offs := []rune{0x05, 0x06, 0x07, 0x09, 0x0A, 0x0B, 0x0F, 0x10, 0x13, 0x14, 0x15, 0x28, 0x30, 0x33, 0x3C, 0x3E, 0x3F, 0x40, 0x41, 0x42,
				0x43, 0x45, 0x46, 0x47, 0x48, 0x49, 0x4A, 0x4B, 0x4C, 0x4D, 0x55, 0x56, 0x57, 0x72, 0x73, 0x7C, 0x7F}
			for i := 0; i < nStage*6+200; i++ {
				base := rune(0x0900 + 0x80*r.Intn(9))
				var b strings.Builder
				for k := r.Range(1, 6); k > 0; k-- {
					switch r.Weighted(12, 1, 1, 1, 1) {
					case 0:
						b.WriteRune(base + offs[r.Intn(len(offs))])
					case 1:
						b.WriteRune(0x200D)
					case 2:
						b.WriteRune(0x200C)
					case 3:
						b.WriteRune(rune(0x0900+0x80*r.Intn(9)) + offs[r.Intn(len(offs))])
					default:
						b.WriteRune([]rune{0xA8E0, 0xA8F2, 0xA8FF, 0x11B00, 0x11FC0, 0x1CD0, 0x0964, 'a', 0x0D81}[r.Intn(9)])
					}
				}
				words = append(words, b.String())
			}
		}
		for _, w := range words {
			emit("stem " + name + " " + hlib.Hex([]byte(w)))
		}
		// malformed material
		for i := 0; i < nStage/4+3; i++ {
			var t []byte
			if r.Chance(50) {
				t = damage(r, []byte(s.word(r)))
			} else {
				t = rawBytes(r, r.Range(1, 14))
			}
			emit("stem " + name + " " + hlib.Hex(t))
		}
	}
	// rune helpers
	weird := []int{-1, -2147483648, 0xD800, 0xDFFF, 0x110000, 2147483647, 0xFFFD, 0, 0x7f, 0x80, 0x7ff, 0x800, 0xffff, 0x10000, 0x10ffff}
	runeList := func(n int, invalid bool) string {
		if n == 0 {
			return "-"
		}
		ss := make([]string, n)
		for i := range ss {
			if invalid && r.Chance(40) {
				ss[i] = strconv.Itoa(weird[r.Intn(len(weird))])
			} else {
				s := &scripts[r.Intn(len(scripts))]
				ss[i] = strconv.Itoa(int(s.letters[r.Intn(len(s.letters))]))
			}
		}
		return strings.Join(ss, ",")
	}
	for i := 0; i < nStage*2; i++ {
		n := r.Range(0, 7)
		rs := runeList(n, r.Chance(30))
		emit(fmt.Sprintf("util DeleteRune %s %d", rs, r.Range(-1, n+1)))
		emit(fmt.Sprintf("util InsertRune %s %d %d", rs, r.Range(-1, n+1), weird[r.Intn(len(weird))]))
		emit("util BuildTermFromRunes " + rs)
		emit(fmt.Sprintf("util BuildTermOpt %d %s", []int{0, 0, 1, 2, 3, 4, 5, 8, 30}[r.Intn(9)], rs))
		s := &scripts[r.Intn(len(scripts))]
		w := s.word(r)
		if r.Chance(20) {
			w = string(damage(r, []byte(w)))
		}
		emit(fmt.Sprintf("util TruncateRunes %s %d", hlib.Hex([]byte(w)), r.Range(-1, len([]rune(w))+1)))
		suf := ""
		if len(s.suffixes) > 0 {
			suf = s.suffixes[r.Intn(len(s.suffixes))]
		}
		if r.Chance(50) && n > 0 { // a true suffix
			emit(fmt.Sprintf("util RunesEndsWith %s %s", showRunes([]rune(w+suf)), hlib.Hex([]byte(suf))))
		} else {
			emit(fmt.Sprintf("util RunesEndsWith %s %s", rs, hlib.Hex([]byte(suf))))
		}
	}
}

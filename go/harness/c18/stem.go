package main

// Translator validation ops: the REAL in-repo stemmers / normalisers / rune helpers on explicit inputs; the
// Lean driver runs the definitions TRANSLATED from the same source (BlugeGen.C18S) on the same bytes and the
// two results are compared as strings.
//
//	stem <name> <termHex> [l=<bits>] [c=<bits>]   one token with that term through the real filter -> <termHex>|panic
//	    l= / c= : unicode.IsLetter / unicode.In(r, unicode.Cf) of every rune of bytes.Runes(term) (the tables are
//	    an opaque parameter of the translated definitions)
//	util DeleteRune <runes> <pos> | InsertRune <runes> <pos> <r> | BuildTermFromRunes <runes> |
//	     BuildTermOpt <bufLen> <runes> | TruncateRunes <termHex> <num> | RunesEndsWith <runes> <suffixHex>
//	    <runes> = comma separated signed decimals, "-" = empty (invalid runes can be sent)

import (
	"bytes"
	"strconv"
	"strings"
	"unicode"

	"github.com/blugelabs/bluge/analysis"
	"github.com/blugelabs/bluge/analysis/lang/ar"
	"github.com/blugelabs/bluge/analysis/lang/ckb"
	"github.com/blugelabs/bluge/analysis/lang/de"
	"github.com/blugelabs/bluge/analysis/lang/es"
	"github.com/blugelabs/bluge/analysis/lang/fa"
	"github.com/blugelabs/bluge/analysis/lang/fr"
	"github.com/blugelabs/bluge/analysis/lang/hi"
	"github.com/blugelabs/bluge/analysis/lang/in"
	"github.com/blugelabs/bluge/analysis/lang/it"
	"github.com/blugelabs/bluge/analysis/lang/pt"

	"verif/harness/hlib"
)

var stemFilters = map[string]func() analysis.TokenFilter{
	"de_normalize":  func() analysis.TokenFilter { return de.NormalizeFilter() },
	"de_light":      func() analysis.TokenFilter { return de.LightStemmerFilter() },
	"ar_normalize":  func() analysis.TokenFilter { return ar.NormalizeFilter() },
	"ar_stem":       func() analysis.TokenFilter { return ar.StemmerFilter() },
	"fa_normalize":  func() analysis.TokenFilter { return fa.NormalizeFilter() },
	"ckb_normalize": func() analysis.TokenFilter { return ckb.NormalizeFilter() },
	"ckb_stem":      func() analysis.TokenFilter { return ckb.StemmerFilter() },
	"in_normalize":  func() analysis.TokenFilter { return in.NormalizeFilter() },
	"hi_normalize":  func() analysis.TokenFilter { return hi.NormalizeFilter() },
	"hi_stem":       func() analysis.TokenFilter { return hi.StemmerFilter() },
	"es_light":      func() analysis.TokenFilter { return es.LightStemmerFilter() },
	"it_light":      func() analysis.TokenFilter { return it.LightStemmerFilter() },
	"pt_light":      func() analysis.TokenFilter { return pt.LightStemmerFilter() },
	"fr_light":      func() analysis.TokenFilter { return fr.LightStemmerFilter() },
	"fr_min":        func() analysis.TokenFilter { return fr.MinimalStemmerFilter() },
}

var stemNames = []string{"de_normalize", "de_light", "ar_normalize", "ar_stem", "fa_normalize", "ckb_normalize", "ckb_stem",
	"in_normalize", "hi_normalize", "hi_stem", "es_light", "it_light", "pt_light", "fr_light", "fr_min"}

func obsBits(term []byte, f func(rune) bool) string {
	var b strings.Builder
	for _, r := range bytes.Runes(term) {
		if f(r) {
			b.WriteByte('1')
		} else {
			b.WriteByte('0')
		}
	}
	return b.String()
}

func parseRunes(s string) ([]rune, bool) {
	if s == "-" {
		return []rune{}, true
	}
	var rs []rune
	for _, w := range strings.Split(s, ",") {
		n, err := strconv.ParseInt(w, 10, 32)
		if err != nil {
			return nil, false
		}
		rs = append(rs, rune(n))
	}
	return rs, true
}

func showRunes(rs []rune) string {
	if len(rs) == 0 {
		return "-"
	}
	ss := make([]string, len(rs))
	for i, r := range rs {
		ss[i] = strconv.Itoa(int(r))
	}
	return strings.Join(ss, ",")
}

func execStem(w []string, out func(string, string), st *hlib.Stats) {
	name := w[1]
	mk, ok := stemFilters[name]
	if !ok {
		out(strings.Join(w, " "), "bad-op")
		return
	}
	term := unhex(w[2])
	op := "stem " + name + " " + hlib.Hex(term)
	switch name {
	case "fr_light":
		op += " l=" + obsBits(term, unicode.IsLetter)
	case "in_normalize":
		// s=: for every rune, the index (by base) of the script table that contains it, '-' for none
		var b strings.Builder
		for _, r := range bytes.Runes(term) {
			c := byte('-')
			for i := 0; i < 9; i++ {
				if unicode.Is(scriptTables[i].t, r) {
					c = byte('0' + i)
				}
			}
			b.WriteByte(c)
		}
		op += " s=" + b.String()
	case "ckb_normalize":
		op += " c=" + obsBits(term, func(r rune) bool { return unicode.In(r, unicode.Cf) })
	}
	res := hlib.Catch(func() string {
		ts := mk().Filter(analysis.TokenStream{&analysis.Token{Term: clone(term), Start: 0, End: len(term), PositionIncr: 1}})
		if len(ts) != 1 || ts[0] == nil {
			return "not-one-token"
		}
		return hlib.Hex(ts[0].Term)
	})
	st.Count("op:stem")
	st.Count("stem:" + name)
	if res == "panic" {
		st.Count("res:panic")
	}
	st.Case(op, res != hlib.Hex(term))
	out(op, res)
}

func execUtil(w []string, out func(string, string), st *hlib.Stats) {
	line := strings.Join(w, " ")
	bad := func() { out(line, "bad-op") }
	atoi := func(s string) (int, bool) { n, err := strconv.Atoi(s); return n, err == nil }
	var res string
	switch {
	case w[1] == "DeleteRune" && len(w) == 4:
		rs, ok1 := parseRunes(w[2])
		pos, ok2 := atoi(w[3])
		if !ok1 || !ok2 {
			bad()
			return
		}
		res = hlib.Catch(func() string { return showRunes(analysis.DeleteRune(rs, pos)) })
	case w[1] == "InsertRune" && len(w) == 5:
		rs, ok1 := parseRunes(w[2])
		pos, ok2 := atoi(w[3])
		r, ok3 := atoi(w[4])
		if !ok1 || !ok2 || !ok3 {
			bad()
			return
		}
		res = hlib.Catch(func() string { return showRunes(analysis.InsertRune(rs, pos, rune(r))) })
	case w[1] == "BuildTermFromRunes" && len(w) == 3:
		rs, ok1 := parseRunes(w[2])
		if !ok1 {
			bad()
			return
		}
		res = hlib.Catch(func() string { return hlib.Hex(analysis.BuildTermFromRunes(rs)) })
	case w[1] == "BuildTermOpt" && len(w) == 4:
		n, ok1 := atoi(w[2])
		rs, ok2 := parseRunes(w[3])
		if !ok1 || !ok2 || n < 0 || n > 1<<20 {
			bad()
			return
		}
		res = hlib.Catch(func() string { return hlib.Hex(analysis.BuildTermFromRunesOptimistic(make([]byte, n), rs)) })
	case w[1] == "TruncateRunes" && len(w) == 4:
		num, ok1 := atoi(w[3])
		if !ok1 {
			bad()
			return
		}
		res = hlib.Catch(func() string { return hlib.Hex(analysis.TruncateRunes(clone(unhex(w[2])), num)) })
	case w[1] == "RunesEndsWith" && len(w) == 4:
		rs, ok1 := parseRunes(w[2])
		if !ok1 {
			bad()
			return
		}
		res = hlib.Catch(func() string {
			if analysis.RunesEndsWith(rs, string(unhex(w[3]))) {
				return "1"
			}
			return "0"
		})
	default:
		bad()
		return
	}
	st.Count("op:util")
	st.Count("util:" + w[1])
	if res == "panic" {
		st.Count("res:util-panic")
	}
	st.Case(line, res != "panic")
	out(line, res)
}

package main

// Script-table sweep: the in-repo normalisers / stemmers / tokenizers decide by unicode.Is(<script table>, r),
// and those tables reach far beyond the "main block" of a script (Devanagari Extended U+A8E0.., Extended-A
// U+11B00.., Tamil Supplement U+11FC0.., Arabic Supplement / Extended-A / presentation forms / U+10E60..,
// Cyrillic Extended-A/B/C, Han extensions in plane 2 and 3, …). The sweep draws code points from EVERY range
// of every such table (both ends, the second member, seeded members; every member in the thorough tier for
// small ranges) and sends them, alone and inside a word of the script, through the analyzers and translated
// stemmers that consult the table. It uses Go's unicode package only (never the code under test).

import (
	"unicode"
	"unicode/utf8"

	"verif/harness/hlib"
)

type scriptTable struct {
	name       string
	t          *unicode.RangeTable
	base, size rune   // the main block [base, base+size)
	letter     string // an ordinary letter of the main block
	indic      bool   // one of the nine tables of analysis/lang/in/scripts.go
	analyzers  []string
	stems      []string
}

var indicAn = []string{"hi", "x-indic", "standard"}
var indicStem = []string{"in_normalize", "hi_normalize", "hi_stem"}

var scriptTables = []scriptTable{
	{"Devanagari", unicode.Devanagari, 0x0900, 0x80, "क", true, indicAn, indicStem},
	{"Bengali", unicode.Bengali, 0x0980, 0x80, "ক", true, indicAn, indicStem},
	{"Gurmukhi", unicode.Gurmukhi, 0x0A00, 0x80, "ਕ", true, indicAn, indicStem},
	{"Gujarati", unicode.Gujarati, 0x0A80, 0x80, "ક", true, indicAn, indicStem},
	{"Oriya", unicode.Oriya, 0x0B00, 0x80, "କ", true, indicAn, indicStem},
	{"Tamil", unicode.Tamil, 0x0B80, 0x80, "க", true, indicAn, indicStem},
	{"Telugu", unicode.Telugu, 0x0C00, 0x80, "క", true, indicAn, indicStem},
	{"Kannada", unicode.Kannada, 0x0C80, 0x80, "ಕ", true, indicAn, indicStem},
	{"Malayalam", unicode.Malayalam, 0x0D00, 0x80, "ക", true, indicAn, indicStem},
	{"Arabic", unicode.Arabic, 0x0600, 0x100, "ب", false, []string{"ar", "fa", "ckb", "x-arstem-ws", "x-ckb-ws", "x-fa-ws"},
		[]string{"ar_normalize", "ar_stem", "fa_normalize", "ckb_normalize", "ckb_stem"}},
	{"Cyrillic", unicode.Cyrillic, 0x0400, 0x100, "б", false, []string{"ru", "standard", "simple"}, nil},
	{"Han", unicode.Han, 0x4E00, 0x5200, "日", false, []string{"cjk", "standard", "x-renonspace", "x-width-single"}, nil},
	{"Hiragana", unicode.Hiragana, 0x3040, 0x60, "あ", false, []string{"cjk", "x-renonspace"}, nil},
	{"Katakana", unicode.Katakana, 0x30A0, 0x60, "カ", false, []string{"cjk", "x-renonspace", "x-width-single"}, nil},
	{"Hangul", unicode.Hangul, 0xAC00, 0x2BB0, "한", false, []string{"cjk", "x-renonspace"}, nil},
	{"Latin", unicode.Latin, 0x0000, 0x250, "a", false, []string{"en", "de", "fr", "tr", "simple", "x-latin-light-ws", "x-de-ws"},
		[]string{"de_normalize", "de_light", "fr_light", "fr_min", "es_light", "it_light", "pt_light"}},
	{"Greek", unicode.Greek, 0x0370, 0x90, "α", false, []string{"standard", "simple"}, nil},
}

// members picks code points from every range of a table
func tableMembers(r *hlib.Rand, t *unicode.RangeTable, thorough bool) []rune {
	var out []rune
	pick := func(lo, hi, stride rune) {
		n := (hi-lo)/stride + 1
		if thorough && n <= 160 {
			for c := lo; c <= hi; c += stride {
				out = append(out, c)
			}
			return
		}
		out = append(out, lo)
		if n > 1 {
			out = append(out, hi)
		}
		if n > 2 {
			out = append(out, lo+stride)
		}
		k := 1
		if thorough {
			k = 24
		}
		for i := 0; i < k && n > 3; i++ {
			out = append(out, lo+stride*rune(r.Intn(int(n))))
		}
	}
	for _, x := range t.R16 {
		pick(rune(x.Lo), rune(x.Hi), rune(x.Stride))
	}
	for _, x := range t.R32 {
		pick(rune(x.Lo), rune(x.Hi), rune(x.Stride))
	}
	return out
}

func genScriptSweep(r *hlib.Rand, tier string, emit func(string)) {
	for i := range scriptTables {
		st := &scriptTables[i]
		for k, c := range tableMembers(r, st.t, tier == "thorough") {
			// the code point inside a word, alone, and at both edges of a word
			text := st.letter + string(c) + st.letter + " " + string(c) + " " + string(c) + st.letter + " " + st.letter + string(c)
			h := hlib.Hex([]byte(text))
			for j, a := range st.analyzers {
				line := "an " + a + " " + h
				if (k+j)%4 != 0 {
					line += " nomq"
				}
				emit(line)
			}
			for _, s := range st.stems {
				emit("stem " + s + " " + hlib.Hex([]byte(st.letter+string(c)+st.letter)))
				emit("stem " + s + " " + hlib.Hex([]byte(string(c))))
			}
		}
	}
}

// outsideMainBlock: does the text hold a code point of one of the nine Indic script tables that lies outside
// the 0x80-wide main block of its script (the distribution key `script-table-outside-main-block`)?
func outsideMainBlock(text []byte) (indicOutside bool, otherOutside string) {
	for off := 0; off < len(text); {
		c, sz := utf8.DecodeRune(text[off:])
		off += sz
		if c == utf8.RuneError || c < 0x80 {
			continue
		}
		for i := range scriptTables {
			st := &scriptTables[i]
			if (c < st.base || c >= st.base+st.size) && unicode.Is(st.t, c) {
				if st.indic {
					indicOutside = true
				} else {
					otherOutside = st.name
				}
			}
		}
	}
	return
}

package main

// Re-entrancy ops: "gives the same tokens every time" also when ONE analyzer value is used by several
// goroutines at once (bluge does exactly that: Writer.Batch analyses the documents of a batch on 4 worker
// goroutines through the analyzer value the fields share).
//
//	conc <analyzer> <textHex>+<textHex>+…      one value of a bundled / x-* analyzer
//	concp <tok> <spec,spec,…> <textHex>+…      one tokenizer + configurable filter chain
//	    -> same | differs:<n> | panic:<n> | ref-panic
//
// The reference result of every text is computed sequentially on a FRESH value; then 8 goroutines call
// Analyze on the SAME value for a few dozen rounds, each result is compared with the reference, panics are
// caught per goroutine.

import (
	"fmt"
	"strings"
	"sync"

	"github.com/blugelabs/bluge/analysis"

	"verif/harness/hlib"
)

const concGoroutines = 8

func concRounds() int { return 40 }

func runConc(mk func() *analysis.Analyzer, texts [][]byte) string {
	refs := make([]string, len(texts))
	refPanic := false
	for i, t := range texts {
		t := t
		refs[i] = hlib.Catch(func() string { return render(mk().Analyze(clone(t))) })
		if refs[i] == "panic" {
			refPanic = true
		}
	}
	if refPanic {
		return "ref-panic"
	}
	shared := mk()
	var mu sync.Mutex
	differs, panics := 0, 0
	var wg sync.WaitGroup
	start := make(chan struct{})
	for g := 0; g < concGoroutines; g++ {
		wg.Add(1)
		go func(g int) {
			defer wg.Done()
			<-start
			for round := 0; round < concRounds(); round++ {
				k := (g + round) % len(texts)
				got := hlib.Catch(func() string { return render(shared.Analyze(clone(texts[k]))) })
				if got != refs[k] {
					mu.Lock()
					if got == "panic" {
						panics++
					} else {
						differs++
					}
					mu.Unlock()
				}
			}
		}(g)
	}
	close(start)
	wg.Wait()
	switch {
	case panics > 0:
		return fmt.Sprintf("panic:%d", panics)
	case differs > 0:
		return fmt.Sprintf("differs:%d", differs)
	}
	return "same"
}

func splitTexts(s string) [][]byte {
	var out [][]byte
	for _, h := range strings.Split(s, "+") {
		out = append(out, unhex(h))
	}
	return out
}

func execConc(w []string, out func(string, string), st *hlib.Stats) {
	line := strings.Join(w, " ")
	var mk func() *analysis.Analyzer
	var texts [][]byte
	switch w[0] {
	case "conc":
		d := findAnalyzer(w[1])
		if d == nil || len(w) < 3 {
			out(line, "bad-op")
			return
		}
		mk = d.mk
		texts = splitTexts(w[2])
	case "concp":
		if len(w) < 4 || makeTokenizer(w[1]) == nil {
			out(line, "bad-op")
			return
		}
		var specs []string
		if w[2] != "-" {
			specs = strings.Split(w[2], ",")
		}
		for _, sp := range specs {
			if makeFilter(sp) == nil {
				out(line, "bad-op")
				return
			}
		}
		mk = func() *analysis.Analyzer {
			a := &analysis.Analyzer{Tokenizer: makeTokenizer(w[1])}
			for _, sp := range specs {
				a.TokenFilters = append(a.TokenFilters, makeFilter(sp))
			}
			return a
		}
		texts = splitTexts(w[3])
	}
	if len(texts) == 0 {
		out(line, "bad-op")
		return
	}
	res := runConc(mk, texts)
	st.Count("op:" + w[0])
	st.Count("res:conc-" + strings.SplitN(res, ":", 2)[0])
	st.Case(line, true)
	out(line, res)
}

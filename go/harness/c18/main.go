// Correspondence harness for C18: analysis is total, deterministic and offset-correct on any bytes.
//
// Script / model op lines (every line is its own case):
//
//	an <analyzer> <textHex>                 full analyzer (24 bundled + x-* synthetic ones that wrap every other
//	                                        exported tokenizer / token filter / char filter of analysis/**)
//	    -> "tlen=<n> toks=<stream> det=<0|1> steps=<0|1> mq=<found|none|miss|err|skip>"
//	       tlen  = length of the text the tokenizer saw (after the char filters)
//	       det   = two runs on fresh copies gave the same stream
//	       steps = running the stages one by one gives the stream of Analyzer.Analyze, every stage Valid
//	       mq    = match-query round trip through a one-document in-memory index
//	    and, for the modelled stages of that analyzer, extra pairs "tok …" / "flt …" (below) carrying the
//	    REAL stage input and output, which the Lean driver replays.
//	tok <kind> <textHex> [<classBits>]      modelled tokenizers: letter | ws | alnum | single   -> <stream>
//	tokx <kind> <textHex>                   pure tokenizers that are not modelled (unicode, web, regexp, exception):
//	                                        the driver checks Valid, slice_eq and ordering on the real output
//	flt <spec> <len> <stream> [<aux>]       modelled token filters on an explicit stage input       -> <stream>|panic
//	pipe <tok> <spec,spec,…> <textHex>      real tokenizer, then each configurable filter; emits the stage pairs
//	tf <tv> <startOffset> <stream>          analysis.TokenFrequency
//	doc <gap> <stream>|<stream>|…           Document.Analyze over repeated fields of one name (position gaps)
//
//	conc <analyzer> <hex>+<hex>…            ONE analyzer value used by 8 goroutines at once     -> same|differs:n|panic:n|ref-panic
//	concp <tok> <spec,…> <hex>+<hex>…       the same for a tokenizer + configurable filter chain (conc.go)
//
// <stream> = "_" (no token) or tokens joined by ";", token = termHex,start,end,posIncr,type,keyword.
package main

import (
	"bytes"
	"context"
	"fmt"
	"regexp"
	"sort"
	"strconv"
	"strings"
	"unicode"
	"unicode/utf8"

	"github.com/blevesearch/segment"
	"github.com/blugelabs/bluge"
	"github.com/blugelabs/bluge/analysis"
	"github.com/blugelabs/bluge/analysis/analyzer"
	"github.com/blugelabs/bluge/analysis/char"
	"github.com/blugelabs/bluge/analysis/lang/ar"
	"github.com/blugelabs/bluge/analysis/lang/bg"
	"github.com/blugelabs/bluge/analysis/lang/ca"
	"github.com/blugelabs/bluge/analysis/lang/cjk"
	"github.com/blugelabs/bluge/analysis/lang/ckb"
	"github.com/blugelabs/bluge/analysis/lang/cs"
	"github.com/blugelabs/bluge/analysis/lang/da"
	"github.com/blugelabs/bluge/analysis/lang/de"
	"github.com/blugelabs/bluge/analysis/lang/el"
	"github.com/blugelabs/bluge/analysis/lang/en"
	"github.com/blugelabs/bluge/analysis/lang/es"
	"github.com/blugelabs/bluge/analysis/lang/eu"
	"github.com/blugelabs/bluge/analysis/lang/fa"
	"github.com/blugelabs/bluge/analysis/lang/fi"
	"github.com/blugelabs/bluge/analysis/lang/fr"
	"github.com/blugelabs/bluge/analysis/lang/ga"
	"github.com/blugelabs/bluge/analysis/lang/gl"
	"github.com/blugelabs/bluge/analysis/lang/hi"
	"github.com/blugelabs/bluge/analysis/lang/hu"
	"github.com/blugelabs/bluge/analysis/lang/hy"
	"github.com/blugelabs/bluge/analysis/lang/id"
	"github.com/blugelabs/bluge/analysis/lang/in"
	"github.com/blugelabs/bluge/analysis/lang/it"
	"github.com/blugelabs/bluge/analysis/lang/nl"
	"github.com/blugelabs/bluge/analysis/lang/no"
	"github.com/blugelabs/bluge/analysis/lang/pt"
	"github.com/blugelabs/bluge/analysis/lang/ro"
	"github.com/blugelabs/bluge/analysis/lang/ru"
	"github.com/blugelabs/bluge/analysis/lang/sv"
	"github.com/blugelabs/bluge/analysis/lang/tr"
	"github.com/blugelabs/bluge/analysis/token"
	"github.com/blugelabs/bluge/analysis/tokenizer"
	"golang.org/x/text/unicode/norm"

	"verif/harness/hlib"
)

type h struct{}

func (h) Rule() string {
	return "texts from script-aware generators (Latin with accents/apostrophes/camelCase/URLs, Arabic, Persian and Sorani with ZWNJ " +
		"and the stemmers' affixes, Cyrillic, Devanagari, CJK incl. half/full-width forms and Hangul), mixed scripts, raw bytes, " +
		"truncated runes, lone continuation bytes, genuine U+FFFD, over-long and surrogate encodings, very long tokens, empty and " +
		"blank texts; a sweep over EVERY range of the unicode script tables the analysis packages consult (the nine Indic tables of lang/in, Arabic, " +
		"Cyrillic, Han, Hiragana, Katakana, Hangul, Latin, Greek: both ends, the second and a seeded member of each range, all members in the " +
		"thorough tier — i.e. also the extended and supplementary-plane blocks outside a script's main block), each code point alone and inside " +
		"a word, through the analyzers and stemmers that consult the table; each text goes through all 24 bundled analyzers and the x-* wrappers of every other exported component; " +
		"modelled filters additionally get explicit stage inputs (valid streams with gaps, keyword/ideographic flags, repeated terms; " +
		"a malformed stream class) over their parameter grid; every analyzer value and filter chain is also used by 8 goroutines at once (conc/concp); " +
		"the in-repo stemmers / normalisers / rune helpers run on words of their script (every affix under stems of 0..8 letters, accents, " +
		"damaged and raw bytes; helpers also on invalid runes and on positions / counts outside their domain) against the definitions TRANSLATED " +
		"from their source (stem/util); a case is non-trivial when it yields at least one token (an/tok/pipe) " +
		"or has a non-empty stage input (flt/tf/doc), and distinct by its op line"
}

// ---------------------------------------------------------------------------------------------
// canonical rendering

func renderTok(t *analysis.Token) string {
	kw := 0
	if t.KeyWord {
		kw = 1
	}
	return hlib.Hex(t.Term) + "," + strconv.Itoa(t.Start) + "," + strconv.Itoa(t.End) + "," + strconv.Itoa(t.PositionIncr) +
		"," + strconv.Itoa(int(t.Type)) + "," + strconv.Itoa(kw)
}

func render(ts analysis.TokenStream) string {
	if len(ts) == 0 {
		return "_"
	}
	var b strings.Builder
	for i, t := range ts {
		if i > 0 {
			b.WriteByte(';')
		}
		if t == nil {
			b.WriteString("nil")
			continue
		}
		b.WriteString(renderTok(t))
	}
	return b.String()
}

func unhex(s string) []byte {
	if s == "-" || s == "" {
		return []byte{}
	}
	b := make([]byte, len(s)/2)
	for i := range b {
		v, _ := strconv.ParseUint(s[2*i:2*i+2], 16, 8)
		b[i] = byte(v)
	}
	return b
}

// parseStream builds a fresh token stream (fresh Term arrays with cap == len: no aliasing between tokens).
func parseStream(s string) analysis.TokenStream {
	if s == "_" || s == "" {
		return analysis.TokenStream{}
	}
	parts := strings.Split(s, ";")
	rv := make(analysis.TokenStream, 0, len(parts))
	for _, p := range parts {
		f := strings.Split(p, ",")
		if len(f) != 6 {
			continue
		}
		st, _ := strconv.Atoi(f[1])
		en, _ := strconv.Atoi(f[2])
		pi, _ := strconv.Atoi(f[3])
		ty, _ := strconv.Atoi(f[4])
		rv = append(rv, &analysis.Token{Term: unhex(f[0]), Start: st, End: en, PositionIncr: pi, Type: analysis.TokenType(ty), KeyWord: f[5] == "1"})
	}
	return rv
}

func clone(b []byte) []byte { c := make([]byte, len(b)); copy(c, b); return c }

func hexList(ws []string) string {
	if len(ws) == 0 {
		return "-"
	}
	hs := make([]string, len(ws))
	for i, w := range ws {
		hs[i] = hlib.Hex([]byte(w))
	}
	return strings.Join(hs, "+")
}

func unhexList(s string) []string {
	if s == "-" || s == "" {
		return nil
	}
	var out []string
	for _, p := range strings.Split(s, "+") {
		out = append(out, string(unhex(p)))
	}
	return out
}

func tokenMapOf(ws []string) analysis.TokenMap {
	m := analysis.NewTokenMap()
	for _, w := range ws {
		m.AddToken(w)
	}
	return m
}

func sortedKeys(m analysis.TokenMap) []string {
	ks := make([]string, 0, len(m))
	for k := range m {
		ks = append(ks, k)
	}
	sort.Strings(ks)
	return ks
}

// ---------------------------------------------------------------------------------------------
// the component registry

func isAlnumASCII(r rune) bool {
	return r < 128 && (r >= '0' && r <= '9' || r >= 'a' && r <= 'z' || r >= 'A' && r <= 'Z')
}

func notSpace(r rune) bool { return !unicode.IsSpace(r) }

var wordRe = regexp.MustCompile(`\w+`)
var nonSpaceRe = regexp.MustCompile(`[^\s]+`)
var digitsRe = regexp.MustCompile(`[0-9]+(\.[0-9]+)?`)

// modelled tokenizers (kind -> class predicate; single has none)
func classOf(kind string) func(rune) bool {
	switch kind {
	case "letter":
		return unicode.IsLetter
	case "ws":
		return notSpace
	case "alnum":
		return isAlnumASCII
	}
	return nil
}

func makeTokenizer(kind string) analysis.Tokenizer {
	switch kind {
	case "letter":
		return tokenizer.NewLetterTokenizer()
	case "ws":
		return tokenizer.NewWhitespaceTokenizer()
	case "alnum":
		return tokenizer.NewCharacterTokenizer(isAlnumASCII)
	case "single":
		return tokenizer.NewSingleTokenTokenizer()
	case "unicode":
		return tokenizer.NewUnicodeTokenizer()
	case "web":
		return tokenizer.NewWebTokenizer()
	case "reword":
		return tokenizer.NewRegexpTokenizer(wordRe)
	case "renonspace":
		return tokenizer.NewRegexpTokenizer(nonSpaceRe)
	case "excletter":
		return tokenizer.NewExceptionsTokenizer(digitsRe, tokenizer.NewLetterTokenizer())
	case "excws":
		return tokenizer.NewExceptionsTokenizer(digitsRe, tokenizer.NewWhitespaceTokenizer())
	}
	return nil
}

// depAux: what the dependency returned for this text, so that the model of the tokenizer's own arithmetic can
// be replayed: regexp match indices ("m=s-e,s-e") or the word segmenter's segments ("seg=len:type,...").
func depAux(kind string, text []byte) string {
	var re *regexp.Regexp
	switch kind {
	case "reword":
		re = wordRe
	case "renonspace":
		re = nonSpaceRe
	case "excws", "excletter":
		re = digitsRe
	case "unicode":
		var b strings.Builder
		b.WriteString("seg=")
		sg := segment.NewWordSegmenterDirect(text)
		n := 0
		for sg.Segment() {
			if n > 0 {
				b.WriteByte(',')
			}
			fmt.Fprintf(&b, "%d:%d", len(sg.Bytes()), sg.Type())
			n++
		}
		if n == 0 {
			b.WriteByte('_')
		}
		return b.String()
	default:
		return ""
	}
	ms := re.FindAllIndex(text, -1)
	if len(ms) == 0 {
		return "m=_"
	}
	parts := make([]string, len(ms))
	for i, m := range ms {
		parts[i] = strconv.Itoa(m[0]) + "-" + strconv.Itoa(m[1])
	}
	return "m=" + strings.Join(parts, ",")
}

func modelledTokenizer(kind string) bool {
	return kind == "letter" || kind == "ws" || kind == "alnum" || kind == "single"
}

// classBits: the class predicate on every rune the tokenizer loop decodes (it stops at the first RuneError)
func classBits(kind string, text []byte) string {
	f := classOf(kind)
	if f == nil {
		return ""
	}
	var b strings.Builder
	for off := 0; off < len(text); {
		r, sz := utf8.DecodeRune(text[off:])
		if r == utf8.RuneError {
			break
		}
		if f(r) {
			b.WriteByte('1')
		} else {
			b.WriteByte('0')
		}
		off += sz
	}
	if b.Len() == 0 {
		return "-"
	}
	return b.String()
}

// makeFilter builds a real filter from a spec; nil when the spec is unknown.
func makeFilter(spec string) analysis.TokenFilter {
	p := strings.Split(spec, ":")
	n := func(i int) int {
		if i >= len(p) {
			return 0
		}
		v, _ := strconv.Atoi(p[i])
		return v
	}
	s := func(i int) string {
		if i >= len(p) {
			return "-"
		}
		return p[i]
	}
	switch p[0] {
	case "ngram":
		return token.NewNgramFilter(n(1), n(2))
	case "edge":
		side := token.FRONT
		if s(1) == "b" {
			side = token.BACK
		}
		return token.NewEdgeNgramFilter(side, n(2), n(3))
	case "shingle":
		return token.NewShingleFilter(n(1), n(2), n(3) == 1, string(unhex(s(4))), string(unhex(s(5))))
	case "trunc":
		return token.NewTruncateTokenFilter(n(1))
	case "length":
		return token.NewLengthFilter(n(1), n(2))
	case "unique":
		return token.NewUniqueTermFilter()
	case "reverse":
		return token.NewReverseFilter()
	case "elision":
		return token.NewElisionFilter(tokenMapOf(unhexList(s(1))))
	case "apos":
		return token.NewApostropheFilter()
	case "camel":
		return token.NewCamelCaseFilter()
	case "dict":
		return token.NewDictionaryCompoundFilter(tokenMapOf(unhexList(s(5))), n(1), n(2), n(3), n(4) == 1)
	case "cjk":
		return cjk.NewBigramFilter(n(1) == 1)
	case "stop":
		return token.NewStopTokensFilter(tokenMapOf(unhexList(s(1))))
	case "kwmark":
		return token.NewKeyWordMarkerFilter(tokenMapOf(unhexList(s(1))))
	// not modelled (term-only filters, exercised and checked for Valid only)
	case "lower":
		return token.NewLowerCaseFilter()
	case "porter":
		return token.NewPorterStemmer()
	case "nfc":
		return token.NewUnicodeNormalizeFilter(norm.NFC)
	case "nfd":
		return token.NewUnicodeNormalizeFilter(norm.NFD)
	case "nfkc":
		return token.NewUnicodeNormalizeFilter(norm.NFKC)
	case "nfkd":
		return token.NewUnicodeNormalizeFilter(norm.NFKD)
	case "width":
		return cjk.NewWidthFilter()
	}
	return nil
}

func modelledFilter(spec string) bool {
	switch strings.SplitN(spec, ":", 2)[0] {
	case "ngram", "edge", "shingle", "trunc", "length", "unique", "reverse", "elision", "apos", "camel", "dict", "cjk", "stop", "kwmark":
		return true
	}
	return false
}

// aux data that lets the model evaluate Go's unicode tables: the harness prints the predicate values it
// observed on the runes of every term ("/"-joined per token, "-" for an empty term)
func auxOf(spec string, ts analysis.TokenStream) string {
	kind := strings.SplitN(spec, ":", 2)[0]
	if kind != "reverse" && kind != "camel" {
		return ""
	}
	if len(ts) == 0 {
		return "_"
	}
	parts := make([]string, len(ts))
	for i, t := range ts {
		var b strings.Builder
		for _, r := range bytes.Runes(t.Term) {
			switch kind {
			case "reverse":
				if unicode.Is(unicode.Mn, r) || unicode.Is(unicode.Me, r) || unicode.Is(unicode.Mc, r) {
					b.WriteByte('1')
				} else {
					b.WriteByte('0')
				}
			case "camel":
				switch {
				case unicode.IsLower(r):
					b.WriteByte('l')
				case unicode.IsUpper(r):
					b.WriteByte('u')
				case unicode.IsNumber(r):
					b.WriteByte('n')
				default:
					b.WriteByte('o')
				}
			}
		}
		if b.Len() == 0 {
			parts[i] = "-"
		} else {
			parts[i] = b.String()
		}
	}
	return strings.Join(parts, "/")
}

type anDef struct {
	name string
	mk   func() *analysis.Analyzer
	// modelled stages: tokenizer kind ("" = not modelled, then tokx kind) and per-filter spec ("" = not modelled)
	tok   string
	tokx  string
	specs map[int]string
}

func wrap(tk analysis.Tokenizer, fs ...analysis.TokenFilter) func() *analysis.Analyzer {
	return func() *analysis.Analyzer { return &analysis.Analyzer{Tokenizer: tk, TokenFilters: fs} }
}

func uni() analysis.Tokenizer   { return tokenizer.NewUnicodeTokenizer() }
func low() analysis.TokenFilter { return token.NewLowerCaseFilter() }

var analyzers []anDef

func init() {
	elFr := "elision:" + hexList(sortedKeys(fr.Articles()))
	elIt := "elision:" + hexList(sortedKeys(it.Articles()))
	elCa := "elision:" + hexList(sortedKeys(ca.Articles()))
	elGa := "elision:" + hexList(sortedKeys(ga.Articles()))
	analyzers = []anDef{
		// ---- the 24 bundled analyzers
		{name: "keyword", mk: analyzer.NewKeywordAnalyzer, tok: "single"},
		{name: "simple", mk: analyzer.NewSimpleAnalyzer, tok: "letter"},
		{name: "standard", mk: analyzer.NewStandardAnalyzer, tokx: "unicode"},
		{name: "web", mk: analyzer.NewWebAnalyzer, tokx: "web"},
		{name: "ar", mk: ar.Analyzer, tokx: "unicode"},
		{name: "cjk", mk: cjk.Analyzer, tokx: "unicode", specs: map[int]string{2: "cjk:0"}},
		{name: "ckb", mk: ckb.Analyzer, tokx: "unicode"},
		{name: "da", mk: da.Analyzer, tokx: "unicode"},
		{name: "de", mk: de.Analyzer, tokx: "unicode"},
		{name: "en", mk: en.NewAnalyzer, tokx: "unicode"},
		{name: "es", mk: es.Analyzer, tokx: "unicode"},
		{name: "fa", mk: fa.Analyzer, tokx: "unicode"},
		{name: "fi", mk: fi.Analyzer, tokx: "unicode"},
		{name: "fr", mk: fr.Analyzer, tokx: "unicode", specs: map[int]string{1: elFr}},
		{name: "hi", mk: hi.Analyzer, tokx: "unicode"},
		{name: "hu", mk: hu.Analyzer, tokx: "unicode"},
		{name: "it", mk: it.Analyzer, tokx: "unicode", specs: map[int]string{1: elIt}},
		{name: "nl", mk: nl.Analyzer, tokx: "unicode"},
		{name: "no", mk: no.Analyzer, tokx: "unicode"},
		{name: "pt", mk: pt.Analyzer, tokx: "unicode"},
		{name: "ro", mk: ro.Analyzer, tokx: "unicode"},
		{name: "ru", mk: ru.Analyzer, tokx: "unicode"},
		{name: "sv", mk: sv.Analyzer, tokx: "unicode"},
		{name: "tr", mk: tr.Analyzer, tokx: "unicode", specs: map[int]string{0: "apos"}},
		// ---- every other exported component, wrapped
		{name: "x-ws", mk: wrap(tokenizer.NewWhitespaceTokenizer()), tok: "ws"},
		{name: "x-reword", mk: wrap(tokenizer.NewRegexpTokenizer(wordRe)), tokx: "reword"},
		{name: "x-renonspace", mk: wrap(tokenizer.NewRegexpTokenizer(nonSpaceRe)), tokx: "renonspace"},
		{name: "x-excletter", mk: wrap(tokenizer.NewExceptionsTokenizer(digitsRe, tokenizer.NewLetterTokenizer())), tokx: "excletter"},
		{name: "x-excws", mk: wrap(tokenizer.NewExceptionsTokenizer(digitsRe, tokenizer.NewWhitespaceTokenizer())), tokx: "excws"},
		{name: "x-html", mk: func() *analysis.Analyzer {
			return &analysis.Analyzer{CharFilters: []analysis.CharFilter{char.NewHTMLCharFilter()}, Tokenizer: uni(), TokenFilters: []analysis.TokenFilter{low()}}
		}},
		{name: "x-asciifold", mk: func() *analysis.Analyzer {
			return &analysis.Analyzer{CharFilters: []analysis.CharFilter{char.NewASCIIFoldingFilter()}, Tokenizer: uni(), TokenFilters: []analysis.TokenFilter{low()}}
		}},
		{name: "x-recf", mk: func() *analysis.Analyzer {
			return &analysis.Analyzer{CharFilters: []analysis.CharFilter{char.NewRegexpCharFilter(regexp.MustCompile(`[aeiou]+`), []byte("<v>")), char.NewZeroWidthNonJoinerCharFilter()}, Tokenizer: uni()}
		}},
		{name: "x-de-snow", mk: wrap(uni(), low(), de.StemmerFilter())},
		{name: "x-en-porter", mk: wrap(uni(), low(), token.NewPorterStemmer())},
		{name: "x-en-porter-ws", mk: wrap(tokenizer.NewWhitespaceTokenizer(), token.NewPorterStemmer())},
		{name: "x-es-snow", mk: wrap(uni(), low(), es.StemmerFilter())},
		{name: "x-fr-snow", mk: wrap(uni(), low(), fr.StemmerFilter())},
		{name: "x-fr-min", mk: wrap(uni(), low(), fr.MinimalStemmerFilter())},
		{name: "x-it-snow", mk: wrap(uni(), low(), it.StemmerFilter())},
		{name: "x-ca", mk: wrap(uni(), low(), ca.ElisionFilter(), ca.StopWordsFilter()), specs: map[int]string{1: elCa}},
		{name: "x-ga", mk: wrap(uni(), low(), ga.ElisionFilter(), ga.StopWordsFilter()), specs: map[int]string{1: elGa}},
		{name: "x-stops", mk: wrap(uni(), low(), bg.StopWordsFilter(), cs.StopWordsFilter(), el.StopWordsFilter(), eu.StopWordsFilter(),
			gl.StopWordsFilter(), hy.StopWordsFilter(), id.StopWordsFilter())},
		{name: "x-indic", mk: wrap(uni(), in.NormalizeFilter(), hi.NormalizeFilter(), hi.StemmerFilter())},
		{name: "x-arstem-ws", mk: wrap(tokenizer.NewWhitespaceTokenizer(), ar.NormalizeFilter(), ar.StemmerFilter())},
		{name: "x-ckb-ws", mk: wrap(tokenizer.NewWhitespaceTokenizer(), ckb.NormalizeFilter(), ckb.StemmerFilter())},
		{name: "x-fa-ws", mk: wrap(tokenizer.NewWhitespaceTokenizer(), fa.NormalizeFilter())},
		{name: "x-de-ws", mk: wrap(tokenizer.NewWhitespaceTokenizer(), de.NormalizeFilter(), de.LightStemmerFilter())},
		{name: "x-latin-light-ws", mk: wrap(tokenizer.NewWhitespaceTokenizer(), es.LightStemmerFilter(), fr.LightStemmerFilter(), it.LightStemmerFilter(), pt.LightStemmerFilter(), fr.MinimalStemmerFilter())},
		{name: "x-poss-ws", mk: wrap(tokenizer.NewWhitespaceTokenizer(), en.NewPossessiveFilter())},
		{name: "x-width-single", mk: wrap(tokenizer.NewSingleTokenTokenizer(), cjk.NewWidthFilter(), low())},
		{name: "x-nfkd", mk: wrap(uni(), token.NewUnicodeNormalizeFilter(norm.NFKD), token.NewUnicodeNormalizeFilter(norm.NFC))},
		{name: "x-kw-snow", mk: wrap(uni(), low(), token.NewKeyWordMarkerFilter(tokenMapOf([]string{"running", "houses"})), en.StemmerFilter(), token.NewPorterStemmer())},
		{name: "x-snow-single", mk: wrap(tokenizer.NewSingleTokenTokenizer(), da.StemmerFilter(), fi.StemmerFilter(), hu.StemmerFilter(), nl.StemmerFilter(),
			no.StemmerFilter(), ro.StemmerFilter(), ru.StemmerFilter(), sv.StemmerFilter(), tr.StemmerFilter())},
	}
}

func findAnalyzer(name string) *anDef {
	for i := range analyzers {
		if analyzers[i].name == name {
			return &analyzers[i]
		}
	}
	return nil
}

// ---------------------------------------------------------------------------------------------
// checks done on the Go side (the driver repeats Valid on the printed stream)

func validStream(ts analysis.TokenStream, n int) bool {
	for _, t := range ts {
		if t == nil || t.Start < 0 || t.Start > t.End || t.End > n || t.PositionIncr < 0 {
			return false
		}
	}
	return true
}

// matchRoundTrip indexes the text in a one-document in-memory index and looks it up again.
func matchRoundTrip(a *analysis.Analyzer, text []byte, ntok int) (res string) {
	defer func() {
		if e := recover(); e != nil {
			res = "panic"
		}
	}()
	qtext := string(text) // taken before indexing: in-place filters overwrite the field value
	w, err := bluge.OpenWriter(bluge.InMemoryOnlyConfig())
	if err != nil {
		return "err:open"
	}
	defer w.Close()
	doc := bluge.NewDocument("d").AddField(bluge.NewTextFieldBytes("f", clone(text)).WithAnalyzer(a).SearchTermPositions())
	if err = w.Update(doc.ID(), doc); err != nil {
		return "err:update"
	}
	r, err := w.Reader()
	if err != nil {
		return "err:reader"
	}
	defer r.Close()
	q := bluge.NewMatchQuery(qtext).SetField("f").SetAnalyzer(a).SetOperator(bluge.MatchQueryOperatorAnd)
	it, err := r.Search(context.Background(), bluge.NewTopNSearch(2, q))
	if err != nil {
		return "err:search"
	}
	m, err := it.Next()
	if err != nil {
		return "err:next"
	}
	if m == nil {
		if ntok == 0 {
			return "none"
		}
		return "miss"
	}
	if ntok == 0 {
		return "found-without-token"
	}
	return "found"
}

type pair struct{ op, res string }

// runStages: char filters, tokenizer, each filter; records the modelled stage pairs.
func runStages(d *anDef, a *analysis.Analyzer, text []byte, ps *[]pair) (ts analysis.TokenStream, tlen int, allValid bool) {
	in := clone(text)
	for _, cf := range a.CharFilters {
		in = cf.Filter(in)
	}
	tlen = len(in)
	saw := clone(in)
	ts = a.Tokenizer.Tokenize(in)
	allValid = validStream(ts, tlen)
	if ps != nil {
		if d.tok != "" {
			op := "tok " + d.tok + " " + hlib.Hex(saw)
			if cb := classBits(d.tok, saw); cb != "" {
				op += " " + cb
			}
			*ps = append(*ps, pair{op, render(ts)})
		} else if d.tokx != "" {
			op := "tokx " + d.tokx + " " + hlib.Hex(saw)
			if aux := depAux(d.tokx, saw); aux != "" {
				op += " " + aux
			}
			*ps = append(*ps, pair{op, render(ts)})
		}
	}
	for i, f := range a.TokenFilters {
		spec := ""
		if d.specs != nil {
			spec = d.specs[i]
		}
		var before, aux string
		if spec != "" && ps != nil {
			before = render(ts)
			aux = auxOf(spec, ts)
		}
		ts = f.Filter(ts)
		if !validStream(ts, tlen) {
			allValid = false
		}
		if spec != "" && ps != nil {
			op := "flt " + spec + " " + strconv.Itoa(tlen) + " " + before
			if aux != "" {
				op += " " + aux
			}
			*ps = append(*ps, pair{op, render(ts)})
		}
	}
	return ts, tlen, allValid
}

func execAn(opline, name string, text []byte, wantMQ bool, out func(string, string), st *hlib.Stats) {
	d := findAnalyzer(name)
	if d == nil {
		out(opline, "bad-op")
		return
	}
	var ps []pair
	ntok := 0
	res := hlib.Catch(func() string {
		a := d.mk()
		r1 := render(a.Analyze(clone(text)))
		r2 := render(d.mk().Analyze(clone(text)))
		r3 := render(a.Analyze(clone(text))) // same analyzer value again: no state may leak between calls
		det := 1
		if r1 != r2 || r1 != r3 {
			det = 0
		}
		ts, tlen, allValid := runStages(d, d.mk(), text, &ps)
		ntok = len(ts)
		steps := 1
		if render(ts) != r1 || !allValid {
			steps = 0
		}
		mq := "skip"
		if wantMQ {
			mq = matchRoundTrip(d.mk(), text, ntok)
		}
		return fmt.Sprintf("tlen=%d toks=%s det=%d steps=%d mq=%s", tlen, r1, det, steps, mq)
	})
	if res == "panic" {
		ps = nil
	}
	for _, p := range ps {
		emitStage(p, out, st)
	}
	st.Count("op:an")
	st.Count("an:" + name)
	if indic, other := outsideMainBlock(text); (indic || other != "") && (res == "panic" || ntok > 0) {
		if indic && (name == "hi" || name == "x-indic") {
			st.Count("script-table-outside-main-block")
		}
		if other != "" {
			st.Count("script-table-extended:" + other)
		}
	}
	if res == "panic" {
		st.Count("res:panic")
	} else if ntok == 0 {
		st.Count("res:an-no-token")
	} else {
		st.Count("res:an-tokens")
	}
	if i := strings.Index(res, " mq="); i >= 0 {
		st.Count("mq:" + res[i+4:])
	}
	st.Case(opline, ntok > 0)
	out(opline, res)
}

func emitStage(p pair, out func(string, string), st *hlib.Stats) {
	w := strings.SplitN(p.op, " ", 3)
	st.Count("op:" + w[0])
	if len(w) > 1 {
		st.Count("stage:" + strings.SplitN(w[1], ":", 2)[0])
	}
	st.Case(p.op, p.res != "_")
	out(p.op, p.res)
}

func execTok(w []string, out func(string, string), st *hlib.Stats) {
	kind, text := w[1], unhex(w[2])
	tk := makeTokenizer(kind)
	if tk == nil {
		out(strings.Join(w, " "), "bad-op")
		return
	}
	op := w[0] + " " + kind + " " + hlib.Hex(text)
	if w[0] == "tok" {
		if cb := classBits(kind, text); cb != "" {
			op += " " + cb
		}
	} else if aux := depAux(kind, text); aux != "" {
		op += " " + aux
	}
	res := hlib.Catch(func() string {
		r1 := render(tk.Tokenize(clone(text)))
		r2 := render(makeTokenizer(kind).Tokenize(clone(text)))
		if r1 != r2 {
			return "nondeterministic"
		}
		return r1
	})
	emitStage(pair{op, res}, out, st)
}

func execFlt(w []string, out func(string, string), st *hlib.Stats) {
	spec := w[1]
	f := makeFilter(spec)
	if f == nil || len(w) < 4 {
		out(strings.Join(w, " "), "bad-op")
		return
	}
	mk := func() analysis.TokenStream { return parseStream(w[3]) }
	in := mk()
	op := "flt " + spec + " " + w[2] + " " + render(in)
	if aux := auxOf(spec, in); aux != "" {
		op += " " + aux
	}
	res := hlib.Catch(func() string {
		r1 := render(f.Filter(in))
		r2 := render(makeFilter(spec).Filter(mk()))
		if r1 != r2 {
			return "nondeterministic"
		}
		return r1
	})
	if res == "panic" {
		st.Count("res:panic")
	}
	emitStage(pair{op, res}, out, st)
}

func execPipe(w []string, out func(string, string), st *hlib.Stats) {
	kind, text := w[1], unhex(w[3])
	var specs []string
	if w[2] != "-" {
		specs = strings.Split(w[2], ",")
	}
	tk := makeTokenizer(kind)
	if tk == nil {
		out(strings.Join(w, " "), "bad-op")
		return
	}
	var ps []pair
	opline := strings.Join(w, " ")
	ntok := 0
	res := hlib.Catch(func() string {
		in := clone(text)
		ts := tk.Tokenize(in)
		if modelledTokenizer(kind) {
			op := "tok " + kind + " " + hlib.Hex(text)
			if cb := classBits(kind, text); cb != "" {
				op += " " + cb
			}
			ps = append(ps, pair{op, render(ts)})
		} else {
			op := "tokx " + kind + " " + hlib.Hex(text)
			if aux := depAux(kind, text); aux != "" {
				op += " " + aux
			}
			ps = append(ps, pair{op, render(ts)})
		}
		for _, spec := range specs {
			f := makeFilter(spec)
			if f == nil {
				return "bad-op"
			}
			before, aux := render(ts), auxOf(spec, ts)
			var after string
			stage := hlib.Catch(func() string { ts = f.Filter(ts); after = render(ts); return after })
			if modelledFilter(spec) {
				op := "flt " + spec + " " + strconv.Itoa(len(text)) + " " + before
				if aux != "" {
					op += " " + aux
				}
				ps = append(ps, pair{op, stage})
			}
			if stage == "panic" {
				return "panic"
			}
		}
		ntok = len(ts)
		// determinism of the whole pipe
		ts2 := makeTokenizer(kind).Tokenize(clone(text))
		for _, spec := range specs {
			ts2 = makeFilter(spec).Filter(ts2)
		}
		det := 1
		if render(ts2) != render(ts) {
			det = 0
		}
		return fmt.Sprintf("tlen=%d toks=%s det=%d steps=1 mq=skip", len(text), render(ts), det)
	})
	for _, p := range ps {
		emitStage(p, out, st)
	}
	st.Count("op:pipe")
	if res == "panic" {
		st.Count("res:panic")
	}
	st.Case(opline, ntok > 0)
	out(opline, res)
}

func execTF(w []string, out func(string, string), st *hlib.Stats) {
	tv := w[1] == "1"
	start, _ := strconv.Atoi(w[2])
	in := parseStream(w[3])
	res := hlib.Catch(func() string {
		tfs, pos := analysis.TokenFrequency(in, tv, start)
		keys := make([]string, 0, len(tfs))
		for k := range tfs {
			keys = append(keys, k)
		}
		sort.Slice(keys, func(i, j int) bool { return bytes.Compare([]byte(keys[i]), []byte(keys[j])) < 0 })
		var b strings.Builder
		fmt.Fprintf(&b, "pos=%d", pos)
		for _, k := range keys {
			tf := tfs[k]
			fmt.Fprintf(&b, " %s:%d:", hlib.Hex([]byte(k)), tf.Frequency())
			if len(tf.Locations) == 0 {
				b.WriteString("-")
			}
			for i, l := range tf.Locations {
				if i > 0 {
					b.WriteByte('/')
				}
				fmt.Fprintf(&b, "%d,%d,%d", l.Start(), l.End(), l.Pos())
			}
		}
		return b.String()
	})
	st.Count("op:tf")
	st.Case(strings.Join(w, " "), len(in) > 0)
	out("tf "+w[1]+" "+w[2]+" "+render(in), res)
}

type fixedAnalyzer struct{ ts analysis.TokenStream }

func (f fixedAnalyzer) Analyze([]byte) analysis.TokenStream { return f.ts }

// doc: repeated fields of one name with a fixed token stream each; prints, per field, the positions of its
// tokens in stream order, and the order is recovered from (start,end) being made unique by the generator.
func execDoc(w []string, out func(string, string), st *hlib.Stats) {
	gap, _ := strconv.Atoi(w[1])
	streams := strings.Split(w[2], "|")
	res := hlib.Catch(func() string {
		doc := bluge.NewDocument("d")
		var fields []*bluge.TermField
		for _, s := range streams {
			f := bluge.NewTextField("f", "x").WithAnalyzer(fixedAnalyzer{parseStream(s)}).SetPositionIncrementGap(gap).SearchTermPositions()
			fields = append(fields, f)
			doc.AddField(f)
		}
		doc.Analyze()
		var parts []string
		for _, f := range fields[:len(streams)] {
			var ps []int
			for _, tf := range f.AnalyzedTokenFrequencies() {
				for _, l := range tf.Locations {
					ps = append(ps, l.PositionVal)
				}
			}
			sort.Ints(ps)
			ss := make([]string, len(ps))
			for i, p := range ps {
				ss[i] = strconv.Itoa(p)
			}
			if len(ss) == 0 {
				parts = append(parts, "-")
			} else {
				parts = append(parts, strings.Join(ss, ","))
			}
		}
		return strings.Join(parts, "|")
	})
	st.Count("op:doc")
	st.Case(strings.Join(w, " "), true)
	out(strings.Join(w, " "), res)
}

func (h) Exec(line string, out func(string, string), st *hlib.Stats, work string) {
	w := strings.Split(line, " ")
	switch {
	case w[0] == "an" && len(w) >= 3:
		execAn(line, w[1], unhex(w[2]), len(w) < 4 || w[3] != "nomq", out, st)
	case (w[0] == "tok" || w[0] == "tokx") && len(w) >= 3:
		execTok(w, out, st)
	case w[0] == "flt" && len(w) >= 4:
		execFlt(w, out, st)
	case w[0] == "pipe" && len(w) >= 4:
		execPipe(w, out, st)
	case w[0] == "tf" && len(w) >= 4:
		execTF(w, out, st)
	case w[0] == "doc" && len(w) >= 3:
		execDoc(w, out, st)
	case w[0] == "stem" && len(w) >= 3:
		execStem(w, out, st)
	case w[0] == "util" && len(w) >= 3:
		execUtil(w, out, st)
	case (w[0] == "conc" && len(w) >= 3) || (w[0] == "concp" && len(w) >= 4):
		execConc(w, out, st)
	default:
		out(line, "bad-op")
	}
}

func main() { hlib.Main(h{}) }

// Correspondence harness for C14 (I/O failures are reported, contained and recovered from): stream
// `faults` — a fault-injecting Directory under the recording one (see persistlib/faults.go).
package main

import (
	"os"

	"verif/harness/hlib"
	"verif/harness/persistlib"
)

func main() {
	if len(os.Args) > 1 && os.Args[1] == "child" {
		persistlib.ChildMain2(os.Args[2:])
		return
	}
	hlib.Main(&persistlib.HR{Mode: persistlib.Mode{Name: "c14", Images: true, Recover: true, Faults: true}})
}

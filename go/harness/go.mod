module verif/harness

go 1.21

require github.com/blugelabs/bluge v0.0.0

replace github.com/blugelabs/bluge => /repo

module verif/harness

go 1.21

require (
	github.com/RoaringBitmap/roaring v0.9.4
	github.com/blevesearch/segment v0.9.0
	github.com/blugelabs/bluge v0.0.0
	github.com/blugelabs/bluge_segment_api v0.2.0
	github.com/blugelabs/ice v1.0.0
	github.com/blugelabs/ice/v2 v2.0.1
	golang.org/x/text v0.3.0
)

require (
	github.com/axiomhq/hyperloglog v0.0.0-20191112132149-a4c4c47bc57f // indirect
	github.com/bits-and-blooms/bitset v1.2.0 // indirect
	github.com/blevesearch/go-porterstemmer v1.0.3 // indirect
	github.com/blevesearch/mmap-go v1.0.4 // indirect
	github.com/blevesearch/snowballstem v0.9.0 // indirect
	github.com/blevesearch/vellum v1.0.7 // indirect
	github.com/caio/go-tdigest v3.1.0+incompatible // indirect
	github.com/dgryski/go-metro v0.0.0-20180109044635-280f6062b5bc // indirect
	github.com/golang/snappy v0.0.1 // indirect
	github.com/klauspost/compress v1.15.2 // indirect
	golang.org/x/sys v0.0.0-20220520151302-bc2c85ada10a // indirect
)

replace github.com/blugelabs/bluge => /repo

// Correspondence harness for C03 (crash recovery is atomic, prefix-consistent and repeatable): stream
// `recover` — crash images of every torn variant opened by the real OpenReader and OpenWriter in child
// processes, and crash -> recover -> continue -> crash sequences (see persistlib/recover.go).
package main

import (
	"os"

	"verif/harness/hlib"
	"verif/harness/persistlib"
)

func main() {
	if len(os.Args) > 1 && os.Args[1] == "child" {
		persistlib.ChildMain2(os.Args[2:])
		return
	}
	hlib.Main(&persistlib.HR{Mode: persistlib.Mode{Name: "c03", Images: true, Recover: true}})
}

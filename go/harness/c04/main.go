// Correspondence harness for C04: a Reader is an immutable point-in-time view until it is closed.
//
// Stream `isolation`. A real index.Writer (FileSystemDirectory under -work, or InMemoryDirectory) is
// driven through generated histories of batches whose ids collide (updates and deletes hit old
// segments) with small merge-plan options, so that persists, merges and file removals (deletion policy
// keep-1) happen all the time. Several readers of different ages are held open; between steps every
// held reader is re-queried IN FULL and must give its first answer again, which must also be the
// abstract index at its opening point (the Lean driver keeps the abstract index and the readers'
// views). At quiescent points the reference counts of the held snapshots and of their segment wrappers
// (build-tag accessors VerifRefs/VerifSegmentRefs) and the closers that have run (recording
// Directory) are printed and compared with the Lean reference-count model, which replays the recorded
// trace events (root swaps with creator, persister grab/release, reader open/close, writer close).
//
// Every case runs in a CHILD process: using a reader whose mmap was unmapped early is a SIGSEGV, which
// must be an observation (`fault:…` → verdict bad:reader-fault), not the death of the harness.
package main

import (
	"bufio"
	"context"
	"crypto/sha1"
	"fmt"
	"io"
	"math"
	"os"
	"os/exec"
	"path/filepath"
	"sort"
	"strconv"
	"strings"
	"sync"
	"sync/atomic"
	"time"

	"github.com/blugelabs/bluge"
	"github.com/blugelabs/bluge/index"
	"github.com/blugelabs/bluge/index/mergeplan"
	"github.com/blugelabs/bluge/search"
	segment "github.com/blugelabs/bluge_segment_api"

	"verif/harness/hlib"
)

const (
	nT   = 5 // body text carries t<body%5> and g<body%3>
	nG   = 3
	topN = 40 // more than the 12 ids a case uses
)

// ---------------------------------------------------------------------------------------------
// generator

type h struct {
	child   *exec.Cmd
	in      io.WriteCloser
	out     chan string
	dead    bool
	caseNo  int
	workDir string
}

func (*h) Rule() string {
	return "a case = one writer life (fs or in-memory directory, safe or unsafe batches, merge-plan options that merge at 2-3 segments, " +
		"optionally close + reopen on the same directory): 8-20 batches of 1-4 updates/deletes over 12 colliding ids, readers opened at random " +
		"points (at most 4 held, also OpenReader from disk) and closed at random points; 7% of the batches meet one injected transient failure of the next segment Persist; after every batch a full re-query of all held readers " +
		"(`check`, concurrent with persister/merger) and/or a quiescent `settle` (reference counts and closers compared) are drawn; always re-queried " +
		"after writer Close and after reopen; a stress family (6-8 goroutines opening, checking refs >= 1 / no closer run, and closing readers while 2x250 unsafe batches stream) precedes them. An evaluation is one full re-query of one held reader; it is non-trivial when the reader's snapshot is " +
		"no longer the writer's root (segments superseded, merged away or files removed since it was opened)"
}

func (*h) Gen(r *hlib.Rand, tier string, scale int, emit func(string)) {
	cases := 14 * scale
	if tier == "thorough" {
		cases = 300 * scale
	}
	// directed first case (corpus of known-bad shapes runs first): the smallest history found so far on which
	// the repeated boolean query of `baQuery` gives different answers on one reader (postings iterator reused
	// after it was recycled): bq-only documents before the aq documents, one aq+cq document, reader opened at a
	// quiescent point (`sopen`) so that its snapshot stays the root while it is queried. Deterministic.
	for _, l := range []string{"case d0 dir=mem unsafe=0 tier=1 task=3 growth=20 minmem=2", "wopen", "batch u4:184", "batch u1:32",
		"batch u5:506,u8:478", "batch u7:849", "sopen", "check", "batch u2:7", "check", "wclose", "check", "close 0", "end"} {
		emit(l)
	}
	// directed second case: every kind of step at least once whatever the seed (reader from the writer, reader from
	// disk, merge, close, reopen on the same directory = loadSnapshot, queries after each of them)
	for _, l := range []string{"case d1 dir=fs unsafe=0 tier=1 task=2 growth=20 minmem=2", "wopen", "batch u0:1,u1:2", "batch u2:3,d0",
		"open", "batchf u3:4", "settle", "openfs", "batch u1:9", "check", "settle", "wclose", "check", "reopen", "check", "batch u4:5,d2", "settle",
		"check", "wclose", "check", "close 0", "settle", "close 1", "end"} {
		emit(l)
	}
	// stress family: goroutines open/check/close readers as fast as they can while unsafe batches stream (a new
	// root every few hundred microseconds) on directories whose loaded segments are ref-counted; afterwards the
	// exact reference-count comparison and a full re-query of a reader held across the whole step
	nstress, nbatches := 2, 250
	if tier == "thorough" {
		nstress, nbatches = 12*scale, 500
	}
	for k := 0; k < nstress; k++ {
		dir := []string{"mem", "fs"}[k%2]
		emit(fmt.Sprintf("case s%d dir=%s unsafe=1 tier=%d task=2 growth=20 minmem=2", k, dir, 1+k%2))
		emit("wopen")
		emit("batch u0:1,u1:2,u2:3")
		emit("open")
		for round := 0; round < 2; round++ {
			bs := make([]string, nbatches)
			for i := range bs {
				if r.Chance(25) {
					bs[i] = fmt.Sprintf("d%d", r.Intn(12))
				} else {
					bs[i] = fmt.Sprintf("u%d:%d", r.Intn(12), r.Intn(1000))
				}
			}
			emit(fmt.Sprintf("stress %d %s", 6+2*(k%2), strings.Join(bs, ";")))
			emit("settle")
			emit("check")
		}
		emit("wclose")
		emit("check")
		emit("close 0")
		emit("end")
	}
	for c := 0; c < cases; c++ {
		dir := "fs"
		if c%4 == 3 {
			dir = "mem"
		}
		unsafe := 0
		if c%3 == 1 {
			unsafe = 1
		}
		emit(fmt.Sprintf("case %d dir=%s unsafe=%d tier=%d task=%d growth=%d minmem=%d", c, dir, unsafe,
			1+r.Intn(2), 2+r.Intn(2), 15+5*r.Intn(2), 2+r.Intn(2)))
		emit("wopen")
		open := []int{}
		next := 0
		lives := 1
		if dir == "fs" && r.Chance(45) {
			lives = 2
		}
		for life := 0; life < lives; life++ {
			if life > 0 {
				emit("reopen")
				emit("check")
			}
			nb := r.Range(8, 20)
			if tier == "thorough" {
				nb = r.Range(8, 40)
			}
			for b := 0; b < nb; b++ {
				// a batch: distinct ids inside one batch (two updates of one id in a batch is C01's known finding)
				n := r.Range(1, 4)
				used := map[int]bool{}
				ops := []string{}
				for len(ops) < n {
					id := r.Intn(12)
					if used[id] {
						continue
					}
					used[id] = true
					if r.Chance(28) {
						ops = append(ops, fmt.Sprintf("d%d", id))
					} else {
						ops = append(ops, fmt.Sprintf("u%d:%d", id, r.Intn(1000)))
					}
				}
				if r.Chance(7) {
					emit("batchf " + strings.Join(ops, ",")) // the next segment Persist fails once
				} else {
					emit("batch " + strings.Join(ops, ","))
				}
				if r.Chance(45) {
					emit("check")
				}
				if r.Chance(40) {
					emit("settle")
					if r.Chance(70) {
						emit("check")
					}
				}
				if len(open) < 4 && r.Chance(40) {
					if dir == "fs" && r.Chance(25) {
						emit("openfs")
					} else {
						if r.Chance(30) {
							emit("sopen") // open at a quiescent point: the snapshot stays the root while it is queried
						} else {
							emit("open")
						}
						if r.Chance(50) {
							emit("check") // re-query while the new reader's snapshot is still the root
						}
					}
					open = append(open, next)
					next++
				}
				if len(open) > 0 && r.Chance(15) {
					k := r.Intn(len(open))
					emit(fmt.Sprintf("close %d", open[k]))
					open = append(open[:k], open[k+1:]...)
					if r.Chance(50) {
						emit("settle")
					}
				}
			}
			if len(open) == 0 {
				emit("open")
				open = append(open, next)
				next++
			}
			if r.Chance(50) {
				emit("settle")
			}
			if unsafe == 1 && life < lives-1 {
				// unsafe batches are only durable once persisted: a life that is followed by a reopen
				// waits for the persister before Close, so that the reopened content is the abstract index
				emit("wclose sync")
			} else {
				emit("wclose")
			}
			emit("check")
			emit("settle")
		}
		for len(open) > 0 {
			k := r.Intn(len(open))
			emit(fmt.Sprintf("close %d", open[k]))
			open = append(open[:k], open[k+1:]...)
			if r.Chance(30) {
				emit("check")
			}
		}
		emit("end")
	}
}

// ---------------------------------------------------------------------------------------------
// parent side of exec: one child process per case

func (x *h) stopChild() {
	if x.child != nil {
		_ = x.in.Close()
		done := make(chan struct{})
		cmd := x.child
		go func() { _ = cmd.Wait(); close(done) }()
		select {
		case <-done:
		case <-time.After(20 * time.Second):
			_ = cmd.Process.Kill()
			<-done
		}
		x.child = nil
	}
}

func (x *h) startChild(work string) error {
	x.stopChild()
	x.caseNo++
	dir := filepath.Join(work, "c04run")
	_ = os.RemoveAll(dir)
	if err := os.MkdirAll(dir, 0o755); err != nil {
		return err
	}
	cmd := exec.Command(os.Args[0], "child", dir)
	in, err := cmd.StdinPipe()
	if err != nil {
		return err
	}
	outp, err := cmd.StdoutPipe()
	if err != nil {
		return err
	}
	if errf, err := os.OpenFile(filepath.Join(work, "child_stderr.txt"), os.O_CREATE|os.O_WRONLY|os.O_APPEND, 0o644); err == nil {
		cmd.Stderr = errf
		defer errf.Close()
	}
	if err := cmd.Start(); err != nil {
		return err
	}
	ch := make(chan string, 1024)
	go func() {
		sc := bufio.NewScanner(outp)
		sc.Buffer(make([]byte, 1<<20), 1<<26)
		for sc.Scan() {
			ch <- sc.Text()
		}
		close(ch)
	}()
	x.child, x.in, x.out, x.dead = cmd, in, ch, false
	return nil
}

func (x *h) Exec(line string, out func(string, string), st *hlib.Stats, work string) {
	if strings.HasPrefix(line, "case ") || (x.child == nil && !x.dead) {
		if err := x.startChild(work); err != nil {
			out(line, "fault:cannot-start-child")
			x.dead = true
			return
		}
	}
	if x.dead {
		out(line, "dead")
		return
	}
	if _, err := io.WriteString(x.in, line+"\n"); err != nil {
		x.dead = true
		out(line, "fault:child-gone")
		return
	}
	timeout := time.After(45 * time.Second)
	for {
		select {
		case l, ok := <-x.out:
			if !ok {
				// the child died in the middle of this step: that is an observation
				err := x.child.Wait()
				x.child = nil
				msg := "exit"
				if err != nil {
					msg = strings.ReplaceAll(err.Error(), " ", "-")
				}
				st.Count("res:child-fault")
				out(line, "fault:"+msg)
				x.dead = true
				return
			}
			switch {
			case l == ".":
				return
			case strings.HasPrefix(l, "P\t"):
				f := strings.SplitN(l[2:], "\t", 2)
				if len(f) == 2 {
					out(f[0], f[1])
				}
			case strings.HasPrefix(l, "S\t"):
				f := strings.Split(l[2:], "\t")
				if len(f) == 2 {
					n, _ := strconv.Atoi(f[1])
					st.CountN(f[0], n)
				}
			case strings.HasPrefix(l, "C\t"):
				f := strings.Split(l[2:], "\t")
				if len(f) == 2 {
					st.Case(f[0], f[1] == "1")
				}
			}
		case <-timeout:
			_ = x.child.Process.Kill()
			st.Count("res:child-timeout")
			out(line, "fault:timeout")
			x.stopChild()
			x.dead = true
			return
		}
	}
}

func main() {
	if len(os.Args) > 2 && os.Args[1] == "child" {
		childMain(os.Args[2])
		return
	}
	hlib.Main(&h{})
}

// ---------------------------------------------------------------------------------------------
// child: executes one case on the real code

type dirStats struct {
	mu            sync.Mutex
	wloads        map[uint64]int // writer-side Load calls per segment id
	closes        map[string]int // "w<id>#<ord>" -> closer runs
	loads, closed int            // all Load closers handed out / run (writers and disk readers)
	double        int
	removed       int
	blocked       int
	failPersist   int // armed transient failures of the next segment Persist calls (writer side)
	failed        int // injected failures delivered
}

type recDir struct {
	index.Directory
	st     *dirStats
	writer bool
}

type countCloser struct {
	inner io.Closer
	key   string
	st    *dirStats
	n     int
}

func (c *countCloser) Close() error {
	c.st.mu.Lock()
	c.n++
	c.st.closed++
	if c.n > 1 {
		c.st.double++
	}
	if c.key != "" {
		c.st.closes[c.key]++
	}
	c.st.mu.Unlock()
	if c.inner != nil {
		return c.inner.Close()
	}
	return nil
}

func (d *recDir) Load(kind string, id uint64) (*segment.Data, io.Closer, error) {
	data, closer, err := d.Directory.Load(kind, id)
	if err != nil || kind != index.ItemKindSegment {
		return data, closer, err
	}
	d.st.mu.Lock()
	key := ""
	if d.writer {
		d.st.wloads[id]++
		key = fmt.Sprintf("w%d#%d", id, d.st.wloads[id])
	}
	d.st.loads++
	d.st.mu.Unlock()
	return data, &countCloser{inner: closer, key: key, st: d.st}, nil
}

// Persist delivers an armed transient failure instead of writing a segment (persister: persistSnapshotDirect /
// in-memory merge; merger: file merge), so that the error paths of the loops (release of the grabbed
// snapshot, retry) are part of the histories.
func (d *recDir) Persist(kind string, id uint64, w index.WriterTo, closeCh chan struct{}) error {
	if d.writer && kind == index.ItemKindSegment {
		d.st.mu.Lock()
		inject := d.st.failPersist > 0
		if inject {
			d.st.failPersist--
			d.st.failed++
		}
		d.st.mu.Unlock()
		if inject {
			return fmt.Errorf("injected transient persist failure")
		}
	}
	return d.Directory.Persist(kind, id, w, closeCh)
}

func (d *recDir) Remove(kind string, id uint64) error {
	err := d.Directory.Remove(kind, id)
	d.st.mu.Lock()
	if err != nil {
		d.st.blocked++
	} else {
		d.st.removed++
	}
	d.st.mu.Unlock()
	return err
}

type segInfo struct {
	id        uint64
	key       interface{} // the *segmentWrapper inside a segment.Segment interface value: identity
	persisted bool
}

type tev struct {
	kind  string
	snap  *index.Snapshot
	x     uint64
	epoch uint64
	segs  []segInfo
	creat string
}

type reader struct {
	slot   int
	r      qr
	snap   *index.Snapshot // nil for a disk reader
	first  string
	opened int // number of root events seen when it was opened
}

type qr interface {
	Count() (uint64, error)
	Search(ctx context.Context, req bluge.SearchRequest) (search.DocumentMatchIterator, error)
	DictionaryIterator(field string, automaton segment.Automaton, start, end []byte) (segment.DictionaryIterator, error)
	Close() error
}

// snapReader is bluge.Reader's Search over an *index.Snapshot we can also ask for its ref counts
// (bluge.Reader hides its snapshot; the body is reader.go's Search without the memory callbacks).
type snapReader struct {
	s   *index.Snapshot
	cfg bluge.Config
}

func (r snapReader) Count() (uint64, error) { return r.s.Count() }
func (r snapReader) Search(ctx context.Context, req bluge.SearchRequest) (search.DocumentMatchIterator, error) {
	collector := req.Collector()
	searcher, err := req.Searcher(r.s, r.cfg)
	if err != nil {
		return nil, err
	}
	return collector.Collect(ctx, req.Aggregations(), searcher)
}
func (r snapReader) DictionaryIterator(field string, a segment.Automaton, start, end []byte) (segment.DictionaryIterator, error) {
	return r.s.DictionaryIterator(field, a, start, end)
}
func (r snapReader) Close() error { return r.s.Close() }

type child struct {
	w    *bufio.Writer
	work string

	mu     sync.Mutex
	events []tev
	nroot  int
	grabs  int
	pers   int

	dir          string
	unsafe       bool
	path         string
	cfg          bluge.Config
	ic           index.Config
	ds           *dirStats
	writer       *index.Writer
	wopen        bool
	rootPtr      *index.Snapshot
	settleFailed bool
	liveRoot     *index.Snapshot // the root as of the latest trace event (rootPtr: as of the latest EMITTED event)

	snapName map[*index.Snapshot]string
	wrapName map[interface{}]string
	wrapSeen map[uint64]int
	wrapList []string
	readers  []*reader
	nextSlot int
	step     int
	caseKey  string
}

func (c *child) pair(op, res string)  { fmt.Fprintf(c.w, "P\t%s\t%s\n", op, res) }
func (c *child) stat(k string, n int) { fmt.Fprintf(c.w, "S\t%s\t%d\n", k, n) }

func (c *child) trace(w *index.Writer, kind string, snap *index.Snapshot, x uint64) {
	e := tev{kind: kind, snap: snap, x: x}
	if snap != nil {
		e.epoch = snap.VerifEpoch()
		e.creat = snap.VerifCreator()
		if kind == "root" {
			for _, ss := range snap.Segments() {
				si := segInfo{id: ss.ID()}
				if sg, ok := ss.(interface{ Segment() segment.Segment }); ok {
					si.key = sg.Segment()
					if p, ok := si.key.(interface{ Persisted() bool }); ok {
						si.persisted = p.Persisted()
					}
				}
				e.segs = append(e.segs, si)
			}
		}
	}
	c.mu.Lock()
	c.events = append(c.events, e)
	switch kind {
	case "root":
		c.liveRoot = snap
		c.nroot++
	case "grab":
		c.grabs++
	case "persisted":
		c.pers++
	}
	c.mu.Unlock()
}

func (c *child) nameSnap(s *index.Snapshot) string {
	if n, ok := c.snapName[s]; ok {
		return n
	}
	n := fmt.Sprintf("s%d", len(c.snapName))
	c.snapName[s] = n
	return n
}

func (c *child) nameWrap(si segInfo) string {
	if n, ok := c.wrapName[si.key]; ok {
		return n
	}
	var n string
	if si.persisted {
		c.wrapSeen[si.id]++
		n = fmt.Sprintf("w%d#%d", si.id, c.wrapSeen[si.id])
		c.wrapList = append(c.wrapList, n)
	} else {
		n = fmt.Sprintf("m%d", si.id)
	}
	c.wrapName[si.key] = n
	return n
}

// emitEvents writes the recorded trace events as model op lines; with upTo != nil only the prefix up
// to and including the root event that installed that snapshot (a reader opened meanwhile holds it).
func (c *child) emitEvents(upTo *index.Snapshot) {
	c.mu.Lock()
	evs := c.events
	cut := len(evs)
	if upTo != nil {
		cut = 0
		for i, e := range evs {
			if e.kind == "root" && e.snap == upTo {
				cut = i + 1
			}
		}
	}
	c.events = append([]tev(nil), evs[cut:]...)
	evs = evs[:cut]
	c.mu.Unlock()
	for _, e := range evs {
		switch e.kind {
		case "root":
			if e.snap == nil {
				c.rootPtr = nil
				c.pair("ev rootnil", "-")
				c.stat("ev:rootnil", 1)
				continue
			}
			names := make([]string, len(e.segs))
			for i, si := range e.segs {
				names[i] = c.nameWrap(si)
			}
			sl := strings.Join(names, ",")
			if sl == "" {
				sl = "-"
			}
			c.rootPtr = e.snap
			c.pair(fmt.Sprintf("ev root %s %d %s %s", c.nameSnap(e.snap), e.epoch, e.creat, sl), "-")
			c.stat("ev:root:"+e.creat, 1)
		case "grab":
			c.pair("ev grab "+c.nameSnap(e.snap), "-")
			c.stat("ev:grab", 1)
		case "persisted":
			c.pair(fmt.Sprintf("ev persisted %s %d", c.nameSnap(e.snap), e.x), "-")
			c.stat("ev:persisted", 1)
		}
	}
}

func docFor(id, body int) *bluge.Document {
	d := bluge.NewDocument(fmt.Sprintf("d%03d", id))
	d.AddField(bluge.NewTextField("body", fmt.Sprintf("common t%d g%d", body%nT, body%nG)))
	d.AddField(bluge.NewStoredOnlyField("v", []byte(strconv.Itoa(body))))
	d.AddField(bluge.NewKeywordField("k", fmt.Sprintf("%06d", body)).Sortable())
	// field f feeds the boolean query that makes postingsIterator.Advance seek backwards (see baQuery)
	d.AddField(bluge.NewTextField("f", []string{"bq", "aq cq", "aq", "zq"}[body%4]))
	return d
}

type hit struct {
	id, body int
	score    float64
}

func collect(r qr, req bluge.SearchRequest) ([]hit, error) {
	it, err := r.Search(context.Background(), req)
	if err != nil {
		return nil, err
	}
	var hs []hit
	for {
		m, err := it.Next()
		if err != nil {
			return nil, err
		}
		if m == nil {
			return hs, nil
		}
		x := hit{id: -1, body: -1, score: m.Score}
		err = m.VisitStoredFields(func(field string, value []byte) bool {
			switch field {
			case "_id":
				x.id, _ = strconv.Atoi(strings.TrimPrefix(string(value), "d"))
			case "v":
				x.body, _ = strconv.Atoi(string(value))
			}
			return true
		})
		if err != nil {
			return nil, err
		}
		hs = append(hs, x)
	}
}

func idList(hs []hit, sorted bool) string {
	ids := make([]int, len(hs))
	for i, x := range hs {
		ids[i] = x.id
	}
	if sorted {
		sort.Ints(ids)
	}
	ss := make([]string, len(ids))
	for i, v := range ids {
		ss[i] = strconv.Itoa(v)
	}
	return strings.Join(ss, ",")
}

func term(t string) *bluge.TermQuery { return bluge.NewTermQuery(t).SetField("body") }

const baRuns = 5

// baQuery: must aq; should (must bq, should cq, minShould 0). When a bq-only document precedes the first
// aq document, the outer searcher advances the inner boolean searcher to the first aq document, and
// BooleanSearcher.advanceIfTrailing advances the inner SHOULD term searcher (cq, already positioned at or
// after the target) as well: postingsIterator.Advance takes its backward-seek restart path, which
// Close()s (= recycles into Snapshot.fieldTFRs when the snapshot is the root) the iterator it goes on
// using. Its meaning is simply "documents with aq". Own field, so that the other queries' pools stay clean.
func baQuery() bluge.SearchRequest {
	f := func(t string) *bluge.TermQuery { return bluge.NewTermQuery(t).SetField("f") }
	inner := bluge.NewBooleanQuery().AddMust(f("bq")).AddShould(f("cq")).SetMinShould(0)
	return bluge.NewTopNSearch(topN, bluge.NewBooleanQuery().AddMust(f("aq")).AddShould(inner))
}

// baAnswers runs the backward-advance query baRuns times in a row on the same reader
func baAnswers(r qr) (string, error) {
	runs := make([]string, baRuns)
	for i := range runs {
		hs, err := collect(r, baQuery())
		if err != nil {
			return "", err
		}
		runs[i] = idList(hs, true)
	}
	return strings.Join(runs, "|"), nil
}

// answers: the full canonical answer of a reader and a digest that also covers what the abstract
// index does not determine (scores, dictionary contents of the physical segments).
func answers(r qr) (canon, digest string, err error) {
	var b, extra strings.Builder
	n, err := r.Count()
	if err != nil {
		return "", "", err
	}
	fmt.Fprintf(&b, "n=%d", n)
	all, err := collect(r, bluge.NewTopNSearch(topN, bluge.NewMatchAllQuery()))
	if err != nil {
		return "", "", err
	}
	sort.Slice(all, func(i, j int) bool { return all[i].id < all[j].id })
	parts := make([]string, len(all))
	for i, x := range all {
		parts[i] = fmt.Sprintf("%d:%d", x.id, x.body)
	}
	fmt.Fprintf(&b, " all=%s", strings.Join(parts, ","))
	group := func(tag string, k int, mk func(i int) bluge.SearchRequest) error {
		gs := make([]string, k)
		for i := 0; i < k; i++ {
			hs, err := collect(r, mk(i))
			if err != nil {
				return err
			}
			gs[i] = idList(hs, true)
			for _, x := range hs {
				fmt.Fprintf(&extra, "%s%d:%d:%016x;", tag, i, x.id, math.Float64bits(x.score))
			}
		}
		fmt.Fprintf(&b, " %s=%s", tag, strings.Join(gs, ";"))
		return nil
	}
	// single terms: scored, and unscored
	if err = group("t", nT, func(i int) bluge.SearchRequest {
		return bluge.NewTopNSearch(topN, term(fmt.Sprintf("t%d", i)))
	}); err != nil {
		return
	}
	if err = group("tn", nT, func(i int) bluge.SearchRequest {
		return bluge.NewTopNSearch(topN, term(fmt.Sprintf("t%d", i))).SetScore("none")
	}); err != nil {
		return
	}
	// conjunctions: unscored (optimizeConjunctionUnadorned: roaring.And + bm.And) and scored
	if err = group("cj", nG, func(i int) bluge.SearchRequest {
		q := bluge.NewBooleanQuery().AddMust(term("common"), term(fmt.Sprintf("g%d", i)), term("common"))
		return bluge.NewTopNSearch(topN, q).SetScore("none")
	}); err != nil {
		return
	}
	if err = group("cs", nG, func(i int) bluge.SearchRequest {
		q := bluge.NewBooleanQuery().AddMust(term("common"), term(fmt.Sprintf("g%d", i)))
		return bluge.NewTopNSearch(topN, q)
	}); err != nil {
		return
	}
	// disjunctions: unscored (optimizeDisjunctionUnadorned: roaring.Or / HeapOr + AddMany)
	if err = group("dj", nT, func(i int) bluge.SearchRequest {
		q := bluge.NewBooleanQuery().AddShould(term(fmt.Sprintf("t%d", i)), term(fmt.Sprintf("t%d", (i+1)%nT)), term("nosuchterm"))
		return bluge.NewTopNSearch(topN, q).SetScore("none")
	}); err != nil {
		return
	}
	// dictionary-driven query over all t-terms
	px, err := collect(r, bluge.NewTopNSearch(topN, bluge.NewPrefixQuery("t").SetField("body")))
	if err != nil {
		return
	}
	fmt.Fprintf(&b, " px=%s", idList(px, true))
	// doc values: sort by the keyword k (zero padded body), ties by _id
	so, err := collect(r, bluge.NewTopNSearch(topN, bluge.NewMatchAllQuery()).SortBy([]string{"k", "_id"}))
	if err != nil {
		return
	}
	fmt.Fprintf(&b, " so=%s", idList(so, false))
	// dictionary scan of the physical segments (digest only)
	di, err := r.DictionaryIterator("body", nil, nil, nil)
	if err != nil {
		return
	}
	for {
		e, err2 := di.Next()
		if err2 != nil {
			return "", "", err2
		}
		if e == nil {
			break
		}
		fmt.Fprintf(&extra, "D%s=%d;", e.Term(), e.Count())
	}
	_ = di.Close()
	canon = b.String()
	digest = fmt.Sprintf("%x", sha1.Sum([]byte(canon+"|"+extra.String())))[:16]
	return canon, digest, nil
}

func catchErr(f func() (string, string, error)) (a, d string, fault string) {
	defer func() {
		if e := recover(); e != nil {
			fault = "fault:panic"
		}
	}()
	a, d, err := f()
	if err != nil {
		return "", "", "fault:err"
	}
	return a, d, ""
}

func (c *child) query(rd *reader) string {
	a, d, fault := catchErr(func() (string, string, error) { return answers(rd.r) })
	if fault != "" {
		return fault
	}
	ba, _, fault := catchErr(func() (string, string, error) { s, err := baAnswers(rd.r); return s, "", err })
	if fault != "" {
		return fault
	}
	if one := strings.Split(ba, "|"); len(one) > 0 && strings.Count(ba, one[0]) != baRuns {
		c.stat("res:repeated-boolean-query-unstable", 1)
	}
	same := " same"
	if rd.first == "" {
		rd.first = d
	} else if rd.first != d {
		same = " changed"
	}
	return a + same + " ba=" + ba
}

func (c *child) busy() bool {
	c.mu.Lock()
	g, p := c.grabs, c.pers
	c.mu.Unlock()
	if g != p {
		return true
	}
	if c.writer == nil || !c.wopen {
		return false
	}
	s := c.writer.Stats()
	return s.CurRootEpoch != s.LastPersistedEpoch ||
		s.TotFileMergeZapBeg != s.TotFileMergeZapEnd || s.TotMemMergeZapBeg != s.TotMemMergeZapEnd ||
		s.TotFileMergeIntroductions != s.TotFileMergeIntroductionsDone ||
		s.TotFileMergePlanTasks != s.TotFileMergePlanTasksDone+s.TotFileMergePlanTasksErr ||
		s.TotIntroduceSegmentBeg != s.TotIntroduceSegmentEnd || s.TotIntroducePersistBeg != s.TotIntroducePersistEnd ||
		s.TotIntroduceMergeBeg != s.TotIntroduceMergeEnd ||
		s.TotFileMergePlan != s.TotFileMergePlanNone+s.TotFileMergePlanOk+s.TotFileMergePlanErr
}

// expected holders the harness itself knows: its readers (+1 for the root pointer)
func (c *child) refsQuiet() bool {
	held := map[*index.Snapshot]int64{}
	for _, rd := range c.readers {
		if rd.snap != nil {
			held[rd.snap]++
		}
	}
	c.mu.Lock()
	lr := c.liveRoot
	c.mu.Unlock()
	if c.wopen && lr != nil {
		held[lr]++
	}
	for s, n := range held {
		if s.VerifRefs() != n {
			return false
		}
	}
	return true
}

// settle waits until the background is idle: nothing grabbed and not yet persisted, root persisted, no
// merge in flight, statistics and trace unchanged over several polls, and nobody but the harness holds
// the snapshots it looks at.
func (c *child) settle() {
	// a healthy writer goes quiet within milliseconds; once a case has failed to settle (reference counts
	// that never match: the protocol is broken) waiting again tells nothing new
	budget := 3 * time.Second
	if c.settleFailed {
		budget = 150 * time.Millisecond
	}
	deadline := time.Now().Add(budget)
	stable := 0
	var last index.Stats
	lastEv := -1
	for time.Now().Before(deadline) {
		var s index.Stats
		if c.writer != nil && c.wopen {
			s = c.writer.Stats()
		}
		c.mu.Lock()
		nev := c.nroot + c.grabs + c.pers
		c.mu.Unlock()
		if !c.busy() && s == last && nev == lastEv && c.refsQuiet() {
			stable++
			if stable >= 6 {
				return
			}
		} else {
			stable = 0
		}
		last, lastEv = s, nev
		time.Sleep(1500 * time.Microsecond)
	}
	c.stat("res:settle-timeout", 1)
	c.settleFailed = true
	if c.writer != nil && c.wopen {
		s := c.writer.Stats()
		c.mu.Lock()
		g, p := c.grabs, c.pers
		c.mu.Unlock()
		fmt.Fprintf(os.Stderr, "settle-timeout %s step=%d grabs=%d pers=%d root=%d persisted=%d merged=%d zap=%d/%d mem=%d/%d intro=%d/%d tasks=%d/%d+%d plan=%d/%d+%d+%d quiet=%v\n", c.caseKey, c.step, g, p,
			s.CurRootEpoch, s.LastPersistedEpoch, s.LastMergedEpoch, s.TotFileMergeZapBeg, s.TotFileMergeZapEnd, s.TotMemMergeZapBeg, s.TotMemMergeZapEnd,
			s.TotFileMergeIntroductions, s.TotFileMergeIntroductionsDone, s.TotFileMergePlanTasks, s.TotFileMergePlanTasksDone, s.TotFileMergePlanTasksErr,
			s.TotFileMergePlan, s.TotFileMergePlanNone, s.TotFileMergePlanOk, s.TotFileMergePlanErr, c.refsQuiet())
	} else {
		fmt.Fprintf(os.Stderr, "settle-timeout (writer closed) %s step=%d quiet=%v\n", c.caseKey, c.step, c.refsQuiet())
	}
}

func (c *child) refsLine() string {
	type ent struct {
		name string
		s    *index.Snapshot
	}
	seen := map[*index.Snapshot]bool{}
	var es []ent
	add := func(s *index.Snapshot) {
		if s != nil && !seen[s] {
			seen[s] = true
			es = append(es, ent{c.nameSnap(s), s})
		}
	}
	if c.wopen {
		add(c.rootPtr)
	}
	for _, rd := range c.readers {
		add(rd.snap)
	}
	sort.Slice(es, func(i, j int) bool {
		a, _ := strconv.Atoi(es[i].name[1:])
		b, _ := strconv.Atoi(es[j].name[1:])
		return a < b
	})
	var parts []string
	for _, e := range es {
		refs := e.s.VerifSegmentRefs()
		var sp []string
		for i, ss := range e.s.Segments() {
			si := segInfo{id: ss.ID()}
			if sg, ok := ss.(interface{ Segment() segment.Segment }); ok {
				si.key = sg.Segment()
				if p, ok := si.key.(interface{ Persisted() bool }); ok {
					si.persisted = p.Persisted()
				}
			}
			sp = append(sp, fmt.Sprintf("%s=%d", c.nameWrap(si), refs[i]))
		}
		parts = append(parts, fmt.Sprintf("%s:%d[%s]", e.name, e.s.VerifRefs(), strings.Join(sp, ",")))
	}
	return strings.Join(parts, " ") + " cl=" + c.closedList()
}

func (c *child) closedList() string {
	c.ds.mu.Lock()
	defer c.ds.mu.Unlock()
	var cl []string
	for _, n := range c.wrapList {
		switch k := c.ds.closes[n]; {
		case k == 1:
			cl = append(cl, n)
		case k > 1:
			cl = append(cl, fmt.Sprintf("%sx%d", n, k))
		}
	}
	return strings.Join(cl, ",")
}

func (c *child) openWriter() string {
	w, err := index.OpenWriter(c.ic)
	if err != nil {
		return "err"
	}
	c.writer, c.wopen = w, true
	return "ok"
}

func (c *child) setup(line string) {
	c.caseKey = line
	kv := map[string]string{}
	for _, f := range strings.Fields(line)[2:] {
		if i := strings.Index(f, "="); i > 0 {
			kv[f[:i]] = f[i+1:]
		}
	}
	atoi := func(k string, def int) int {
		if v, err := strconv.Atoi(kv[k]); err == nil {
			return v
		}
		return def
	}
	c.dir = kv["dir"]
	c.unsafe = kv["unsafe"] == "1"
	c.path = filepath.Join(c.work, "idx")
	_ = os.RemoveAll(c.path)
	c.ds = &dirStats{wloads: map[uint64]int{}, closes: map[string]int{}}
	var cfg bluge.Config
	if c.dir == "mem" {
		cfg = bluge.InMemoryOnlyConfig()
	} else {
		cfg = bluge.DefaultConfig(c.path)
	}
	ic := cfg.VerifIndexConfig()
	if c.dir == "mem" {
		ic.DirectoryFunc = func() index.Directory {
			return &recDir{Directory: index.NewInMemoryDirectory(), st: c.ds, writer: true}
		}
	} else {
		p := c.path
		ic.DirectoryFunc = func() index.Directory {
			return &recDir{Directory: index.NewFileSystemDirectory(p), st: c.ds, writer: true}
		}
	}
	ic.MergePlanOptions = mergeplan.Options{
		MaxSegmentsPerTier:   atoi("tier", 1),
		MaxSegmentSize:       1000000,
		TierGrowth:           float64(atoi("growth", 20)) / 10,
		SegmentsPerMergeTask: atoi("task", 2),
		FloorSegmentSize:     1,
		ReclaimDeletesWeight: 2.0,
	}
	ic.MinSegmentsForInMemoryMerge = atoi("minmem", 2)
	ic.UnsafeBatch = c.unsafe
	ic.AsyncError = func(err error) { fmt.Fprintln(os.Stderr, "async error:", err) }
	c.ic = ic
	c.cfg = cfg.VerifWithIndexConfig(ic)
}

func (c *child) do(line string) {
	c.step++
	w := strings.Fields(line)
	switch w[0] {
	case "case":
		c.setup(line)
		c.pair(line, "-")
	case "wopen", "reopen":
		if c.ic.DirectoryFunc == nil || c.wopen || (w[0] == "reopen" && c.dir != "fs") {
			c.pair(w[0]+" -", "na")
			return
		}
		res := c.openWriter()
		name := "-"
		c.mu.Lock()
		pending := len(c.events)
		c.mu.Unlock()
		if res == "ok" && pending == 0 {
			// a fresh directory: learn the identity of the initial root (NewChill) with a transient reference
			if s, err := c.writer.Reader(); err == nil && s != nil {
				c.rootPtr = s
				c.mu.Lock()
				c.liveRoot = s
				c.mu.Unlock()
				name = c.nameSnap(s)
				_ = s.Close()
			}
		}
		c.pair("wopen "+name, res)
		c.emitEvents(nil)
		c.stat("op:"+w[0], 1)
	case "batch", "batchf":
		if !c.wopen || len(w) < 2 {
			c.pair(line, "na")
			return
		}
		c.ds.mu.Lock()
		if w[0] == "batchf" {
			c.ds.failPersist = 1 // stays armed until a segment Persist meets it (a delete-only batch persists no segment)
		}
		failedBefore := c.ds.failed
		c.ds.mu.Unlock()
		b := bluge.NewBatch()
		for _, op := range strings.Split(w[1], ",") {
			if strings.HasPrefix(op, "d") {
				id, _ := strconv.Atoi(op[1:])
				b.Delete(bluge.Identifier(fmt.Sprintf("d%03d", id)))
			} else if strings.HasPrefix(op, "u") {
				f := strings.Split(op[1:], ":")
				id, _ := strconv.Atoi(f[0])
				body := 0
				if len(f) > 1 {
					body, _ = strconv.Atoi(f[1])
				}
				d := docFor(id, body)
				b.Update(d.ID(), d)
			}
		}
		res := "ok"
		if err := c.writer.Batch(b); err != nil {
			res = "err"
			c.ds.mu.Lock()
			if c.ds.failed > failedBefore {
				res = "err:persist" // applied (it is in the root), its first persist attempt failed, the persister retries
			}
			c.ds.mu.Unlock()
		}
		c.emitEvents(nil)
		c.pair(line, res)
		c.stat("op:"+w[0], 1)
	case "open", "sopen":
		if w[0] == "sopen" && c.wopen {
			c.settle()
		}
		if !c.wopen {
			c.pair("open - - 0", "na")
			return
		}
		s, err := c.writer.Reader()
		if err != nil || s == nil {
			c.pair("open - - 0", "err")
			return
		}
		// everything up to the root swap that installed s happened before this open
		c.emitEvents(s)
		c.mu.Lock()
		nr := c.nroot
		c.mu.Unlock()
		rd := &reader{slot: c.nextSlot, r: snapReader{s, c.cfg}, snap: s, opened: nr}
		c.nextSlot++
		c.readers = append(c.readers, rd)
		res := c.query(rd)
		c.pair(fmt.Sprintf("open %d %s %d", rd.slot, c.nameSnap(s), s.VerifEpoch()), res)
		c.stat("op:open", 1)
	case "openfs":
		if c.dir != "fs" || c.ic.DirectoryFunc == nil || c.writer == nil {
			c.pair("openfs -", "na")
			c.nextSlot++
			return
		}
		if c.wopen {
			c.settle() // everything acknowledged is on disk; the newest snapshot file is the current content
		}
		c.emitEvents(nil)
		ric := c.ic
		p := c.path
		ric.DirectoryFunc = func() index.Directory {
			return &recDir{Directory: index.NewFileSystemDirectory(p), st: c.ds, writer: false}
		}
		r, err := bluge.OpenReader(c.cfg.VerifWithIndexConfig(ric))
		if err != nil {
			c.pair(fmt.Sprintf("openfs %d", c.nextSlot), "err")
			c.nextSlot++
			return
		}
		rd := &reader{slot: c.nextSlot, r: r}
		c.nextSlot++
		c.readers = append(c.readers, rd)
		c.pair(fmt.Sprintf("openfs %d", rd.slot), c.query(rd))
		c.stat("op:openfs", 1)
	case "close":
		slot := -1
		if len(w) > 1 {
			slot, _ = strconv.Atoi(w[1])
		}
		c.closeReader(slot)
	case "stress":
		if !c.wopen || len(w) < 3 {
			c.pair(line, "na")
			return
		}
		g, _ := strconv.Atoi(w[1])
		res := c.stress(g, strings.Split(w[2], ";"))
		c.emitEvents(nil)
		c.pair(line, res)
		c.stat("op:stress", 1)
	case "check":
		c.emitEvents(nil)
		c.mu.Lock()
		nr := c.nroot
		c.mu.Unlock()
		for _, rd := range c.readers {
			res := c.query(rd)
			stale := !c.wopen || rd.snap == nil || rd.opened != nr
			c.pair(fmt.Sprintf("q %d", rd.slot), res)
			fmt.Fprintf(c.w, "C\t%s|%d|%d\t%d\n", c.caseKey, rd.slot, c.step, b2i(stale))
			if stale {
				c.stat("q:stale-reader", 1)
			} else {
				c.stat("q:root-reader", 1)
			}
			if !c.wopen {
				c.stat("q:after-writer-close", 1)
			}
			if rd.snap == nil {
				c.stat("q:disk-reader", 1)
			}
		}
		c.stat("op:check", 1)
	case "settle":
		c.settle()
		c.emitEvents(nil)
		c.pair("refs", c.refsLine())
		c.stat("op:settle", 1)
	case "wclose":
		if !c.wopen {
			c.pair("wclose", "na")
			return
		}
		if len(w) > 1 && w[1] == "sync" {
			c.settle()
		}
		res := "ok"
		if err := c.writer.Close(); err != nil {
			res = "err"
		}
		c.wopen = false
		c.emitEvents(nil)
		c.pair("wclose", res)
		c.stat("op:wclose", 1)
	case "end":
		for len(c.readers) > 0 {
			c.closeReader(c.readers[0].slot)
		}
		if c.wopen {
			_ = c.writer.Close()
			c.wopen = false
			c.emitEvents(nil)
			c.pair("wclose", "ok")
		}
		c.emitEvents(nil)
		c.ds.mu.Lock()
		l, cl, d, rm, bl := c.ds.loads, c.ds.closed, c.ds.double, c.ds.removed, c.ds.blocked
		c.ds.mu.Unlock()
		c.pair("end", fmt.Sprintf("loads=%d closes=%d dbl=%d cl=%s", l, cl, d, c.closedList()))
		c.stat("dir:loads", l)
		c.stat("dir:removed", rm)
		c.stat("dir:remove-blocked-or-failed", bl)
		_ = os.RemoveAll(c.path)
	default:
		c.pair(line, "bad-op")
	}
}

func buildBatch(ops string) *index.Batch {
	b := bluge.NewBatch()
	for _, op := range strings.Split(ops, ",") {
		if strings.HasPrefix(op, "d") {
			id, _ := strconv.Atoi(op[1:])
			b.Delete(bluge.Identifier(fmt.Sprintf("d%03d", id)))
		} else if strings.HasPrefix(op, "u") {
			f := strings.Split(op[1:], ":")
			id, _ := strconv.Atoi(f[0])
			body := 0
			if len(f) > 1 {
				body, _ = strconv.Atoi(f[1])
			}
			d := docFor(id, body)
			b.Update(d.ID(), d)
		}
	}
	return b
}

// checkAlive: what must hold for ANY reader the writer hands out, at any moment while it is held: its snapshot
// and every counted segment of it have at least one reference and no closer of theirs has run.
func (c *child) checkAlive(s *index.Snapshot) string {
	if n := s.VerifRefs(); n < 1 {
		return fmt.Sprintf("released:snapshot-epoch-%d-refs-%d", s.VerifEpoch(), n)
	}
	refs := s.VerifSegmentRefs()
	for i, ss := range s.Segments() {
		if refs[i] == -1 {
			continue
		}
		if refs[i] < 1 {
			return fmt.Sprintf("released:segment-%d-refs-%d-in-held-snapshot-epoch-%d", ss.ID(), refs[i], s.VerifEpoch())
		}
		c.ds.mu.Lock()
		k := c.ds.closes[fmt.Sprintf("w%d#%d", ss.ID(), c.ds.wloads[ss.ID()])]
		c.ds.mu.Unlock()
		if k > 0 {
			return fmt.Sprintf("released:closer-of-segment-%d-ran-while-held-epoch-%d", ss.ID(), s.VerifEpoch())
		}
	}
	return ""
}

// stress: g goroutines open, check and close readers as fast as they can while the batches stream. Every reader
// opened and closed inside the step nets to nothing in the reference-count model, so the exact comparison at the
// next `settle` still applies; a snapshot handed out after its last reference was dropped shows up either here
// (released:…), as a fault of the child, or as a reference-count / closer mismatch at that settle.
func (c *child) stress(g int, batches []string) string {
	var stop int32
	var wg sync.WaitGroup
	var mu sync.Mutex
	bad := ""
	opens := 0
	for i := 0; i < g; i++ {
		wg.Add(1)
		go func(i int) {
			defer wg.Done()
			defer func() {
				if e := recover(); e != nil {
					mu.Lock()
					if bad == "" {
						bad = "released:panic-using-a-reader"
					}
					mu.Unlock()
				}
			}()
			n := 0
			for atomic.LoadInt32(&stop) == 0 {
				s, err := c.writer.Reader()
				if err != nil || s == nil {
					continue
				}
				r := c.checkAlive(s)
				n++
				if r == "" && n%16 == i%16 {
					if _, e := collect(snapReader{s, c.cfg}, bluge.NewTopNSearch(topN, term("common"))); e != nil {
						r = "released:search-error-on-a-held-reader"
					}
					if r == "" {
						r = c.checkAlive(s)
					}
				}
				_ = s.Close()
				if r != "" {
					mu.Lock()
					if bad == "" {
						bad = r
					}
					mu.Unlock()
				}
			}
			mu.Lock()
			opens += n
			mu.Unlock()
		}(i)
	}
	nerr := 0
	for _, ops := range batches {
		if err := c.writer.Batch(buildBatch(ops)); err != nil {
			nerr++
		}
	}
	atomic.StoreInt32(&stop, 1)
	wg.Wait()
	c.stat("stress:reader-opens", opens)
	c.stat("stress:batches", len(batches))
	if nerr > 0 {
		c.stat("stress:batch-errors", nerr)
	}
	if bad != "" {
		return bad
	}
	if nerr > 0 {
		return "err"
	}
	return "ok"
}

func b2i(b bool) int {
	if b {
		return 1
	}
	return 0
}

func (c *child) closeReader(slot int) {
	for i, rd := range c.readers {
		if rd.slot == slot {
			if rd.snap != nil {
				c.emitEvents(nil)
			}
			res := "ok"
			if err := rd.r.Close(); err != nil {
				res = "err"
			}
			c.readers = append(c.readers[:i], c.readers[i+1:]...)
			c.pair(fmt.Sprintf("close %d", slot), res)
			c.stat("op:close", 1)
			return
		}
	}
	c.pair(fmt.Sprintf("close %d", slot), "na")
}

var prof map[string]time.Duration

func childMain(work string) {
	if os.Getenv("C04_PROF") != "" {
		prof = map[string]time.Duration{}
	}
	c := &child{w: bufio.NewWriterSize(os.Stdout, 1<<20), work: work,
		snapName: map[*index.Snapshot]string{}, wrapName: map[interface{}]string{}, wrapSeen: map[uint64]int{}}
	index.SetVerifTrace(c.trace)
	sc := bufio.NewScanner(os.Stdin)
	sc.Buffer(make([]byte, 1<<20), 1<<26)
	for sc.Scan() {
		line := sc.Text()
		if line == "" {
			continue
		}
		t0 := time.Now()
		c.do(line)
		if prof != nil {
			prof[strings.Fields(line)[0]] += time.Since(t0)
		}
		fmt.Fprintln(c.w, ".")
		c.w.Flush()
	}
	if prof != nil {
		fmt.Fprintf(os.Stderr, "PROF %v\n", prof)
	}
	// stdin closed: release what is left so that nothing lingers, then leave
	for _, rd := range c.readers {
		_ = rd.r.Close()
	}
	if c.wopen {
		_ = c.writer.Close()
	}
	_ = os.RemoveAll(filepath.Join(work, "idx"))
}

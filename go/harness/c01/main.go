// Correspondence harness for C01: batches apply atomically and exactly as the abstract index says.
//
// Script lines
//
//	case <mem|fs>-<v1|v2>-<safe|unsafe> k=<K> [probe=dup]   new writer, id space 1..K
//	batch <op> <op> …     one Writer.Batch; op = ins:<id>:<body> | upd:<id>:<body> | del:<id>; "batch -" = empty batch
//	par <ops> | <ops>     two Writer.Batch calls issued concurrently (both add documents), to occupy the window
//	                      between prepareSegment's optimistic obsoletes and the introduction
//	mwhold                (cases tagged mw=1) let the real merger plan a file merge of the persisted segments built so
//	                      far and park it at EventKindMergeTaskIntroductionStart (merged segment written, not yet introduced)
//	mwrelease             release the parked merger and wait for EventKindMergeTaskIntroduction
//	end                   close the writer
//
// Pair lines written by exec (model op ## implementation result). Every root the introducer installs is
// recorded through index.SetVerifTrace and becomes one line, in the order the introductions really happened:
//
//	intro <epoch> <newSid|0> seen=<epoch> <ops>   ## <physical root>      (creator introduceSegment)
//	persist <epoch> <sid>[docs] …                 ## <physical root>      (creator introducePersist)
//	merge <epoch> <physical root>                 ## <physical root>      (creator introduceMerge)
//	read k=<K>                                    ## n=<Count> all=<id.body,…> look=<id>=<body;…>,…
//	mwhold held|na / mwrelease done|na            ## -      (the outcome of the bounded wait is part of the op line:
//	                                                          `na` = the merger did not get there in time, the step is skipped)
//
// physical root = e<epoch> then per segment <sid><m|p>[<id>.<body>,…]{<deleted doc numbers>}.
package main

import (
	"bufio"
	"bytes"
	"context"
	"fmt"
	"io"
	"os"
	"os/exec"
	"path/filepath"
	"regexp"
	"sort"
	"strconv"
	"strings"
	"sync"
	"sync/atomic"
	"time"

	"github.com/RoaringBitmap/roaring"
	"github.com/blugelabs/bluge"
	"github.com/blugelabs/bluge/index"
	"github.com/blugelabs/bluge/index/mergeplan"
	segment "github.com/blugelabs/bluge_segment_api"
	iceV1 "github.com/blugelabs/ice"
	iceV2 "github.com/blugelabs/ice/v2"

	"verif/harness/hlib"
)

type h struct{}

// sink is what the executing side reports to; *hlib.Stats in process, a line printer in the child process
type sink interface {
	Count(key string)
	CountN(key string, n int)
	Case(key string, nontrivial bool)
}

func (h) Rule() string {
	return "histories of 1–25 batches over an id space of 1–12 ids (20%: 16–48 ids), batch sizes 0–40 capped by the id space, " +
		"op weights insert 30 / update 40 / delete 20, 5% empty and 5% delete-only batches, no id named twice in a batch " +
		"(except in the dedicated probe case), 12% of the steps are two concurrent batches; configurations cycle through " +
		"{mem,fs}×{ice v1,v2}×{safe,unsafe} with merge-plan options shrunk so that merges happen; after every 6th case a " +
		"merge-window case (fs/mem × v1/v2, safe): 2–4 persisted segments of uneven sizes, the real merger parked at " +
		"EventKindMergeTaskIntroductionStart, 1–3 batches of deletes/updates on the merging segments, release; a step is non-trivial " +
		"when its batch is not empty and distinct when its (configuration, history prefix) is new"
}

// ---------------------------------------------------------------- documents

type doc struct {
	id   int
	body int
}

func words(n int) string {
	w := []string{"alpha", "beta", "gamma", "delta", "epsilon", "zeta", "eta"}
	var sb strings.Builder
	for i := 0; i < 1+n%5; i++ {
		if i > 0 {
			sb.WriteByte(' ')
		}
		sb.WriteString(w[(n+i*3)%len(w)])
	}
	return sb.String()
}

// expected stored fields (besides _id) of the document with digest `body`; four shapes
func storedOf(body int) map[string]string {
	m := map[string]string{"body": strconv.Itoa(body)}
	switch body % 4 {
	case 1:
		m["t"] = words(body)
	case 2:
		m["tag"] = fmt.Sprintf("tag%d", body%7)
	case 3:
		m["blob"] = strings.Repeat(fmt.Sprintf("%d;", body), 1+body%9)
	}
	return m
}

func mkDoc(d doc) *bluge.Document {
	bd := bluge.NewDocument(strconv.Itoa(d.id))
	bd.AddField(bluge.NewKeywordField("body", strconv.Itoa(d.body)).StoreValue())
	switch d.body % 4 {
	case 1:
		bd.AddField(bluge.NewTextField("t", words(d.body)).StoreValue())
		bd.AddField(bluge.NewNumericField("num", float64(d.body)))
	case 2:
		bd.AddField(bluge.NewKeywordField("tag", fmt.Sprintf("tag%d", d.body%7)).StoreValue().Aggregatable())
		bd.AddField(bluge.NewTextField("u", words(d.body+1))) // indexed, not stored
	case 3:
		bd.AddField(bluge.NewStoredOnlyField("blob", []byte(strings.Repeat(fmt.Sprintf("%d;", d.body), 1+d.body%9))))
	}
	return bd
}

// digest of the stored fields seen for one document: "<id>.<body>", or a corrupt marker
type storedAcc struct{ m map[string]string }

func (a *storedAcc) visit(field string, value []byte) bool {
	if a.m == nil {
		a.m = map[string]string{}
	}
	if _, dup := a.m[field]; dup {
		a.m[field] += "\x00dup"
	} else {
		a.m[field] = string(value)
	}
	return true
}

// a document whose stored fields do not belong together is printed with body corruptBase+<body field>
const corruptBase = 1000000000

func (a *storedAcc) digest() (doc, bool) {
	id, err1 := strconv.Atoi(a.m["_id"])
	body, err2 := strconv.Atoi(a.m["body"])
	if err1 != nil || err2 != nil {
		return doc{0, corruptBase}, false
	}
	want := storedOf(body)
	if len(a.m) != len(want)+1 {
		return doc{id, corruptBase + body}, false
	}
	for k, v := range want {
		if a.m[k] != v {
			return doc{id, corruptBase + body}, false
		}
	}
	return doc{id, body}, true
}

func docsString(ds []doc, sep string) string {
	if len(ds) == 0 {
		return ""
	}
	parts := make([]string, len(ds))
	for i, d := range ds {
		parts[i] = fmt.Sprintf("%d.%d", d.id, d.body)
	}
	return strings.Join(parts, sep)
}

// ---------------------------------------------------------------- trace of installed roots

type segRec struct {
	sid       uint64
	persisted bool
	seg       segment.Segment // the segment object; its documents are read later, on the main goroutine
	docs      []doc
	deleted   []uint32
}

type rootRec struct {
	epoch   uint64
	creator string
	segs    []segRec
}

func (r *rootRec) String() string {
	var sb strings.Builder
	fmt.Fprintf(&sb, "e%d", r.epoch)
	if len(r.segs) == 0 {
		sb.WriteString(" -")
	}
	for _, s := range r.segs {
		p := "m"
		if s.persisted {
			p = "p"
		}
		del := make([]string, len(s.deleted))
		for i, d := range s.deleted {
			del[i] = strconv.Itoa(int(d))
		}
		fmt.Fprintf(&sb, " %d%s[%s]{%s}", s.sid, p, docsString(s.docs, ","), strings.Join(del, ","))
	}
	return sb.String()
}

type tracer struct {
	mu        sync.Mutex
	active    bool // a case is open (otherwise events are ignored)
	recording bool // roots are recorded as events (false while the writer is closing)
	lateSnaps []*index.Snapshot
	events    []*rootRec
	lastEpoch uint64
	cache     map[segment.Segment][]doc // a segment object is immutable: read it once
	held      map[segment.Segment]bool  // segment objects the tracer holds a reference on until they are read
	grabs     int
	acks      int
	corrupt   int
	retried   int
}

var tr = &tracer{}

func (t *tracer) reset(active bool) {
	t.mu.Lock()
	t.active = active
	t.recording = active
	t.lateSnaps = nil
	t.events = nil
	t.lastEpoch = 0
	t.cache = map[segment.Segment][]doc{}
	t.held = map[segment.Segment]bool{}
	t.mu.Unlock()
}

// readSeg reads the documents of a segment object (once). Main goroutine only: the trace callback never reads
// stored fields itself, so the harness adds no concurrent reader to a segment.
func (t *tracer) readSeg(seg segment.Segment) []doc {
	t.mu.Lock()
	ds, ok := t.cache[seg]
	t.mu.Unlock()
	if ok {
		return ds
	}
	n := seg.Count()
	bad := 0
	retried := 0
	for try := 0; try < 4; try++ {
		// instrumentation read of an immutable segment: a faulty read (see the ice v2 finding) is retried and counted
		ds = make([]doc, 0, n)
		bad = 0
		func() {
			defer func() {
				if e := recover(); e != nil {
					bad++
				}
			}()
			for i := uint64(0); i < n; i++ {
				var acc storedAcc
				if err := seg.VisitStoredFields(i, acc.visit); err != nil {
					bad++
				}
				d, ok := acc.digest()
				if !ok {
					bad++
				}
				ds = append(ds, d)
			}
		}()
		if bad == 0 {
			break
		}
		retried++
		time.Sleep(20 * time.Millisecond)
	}
	if bad > 0 && workDir != "" {
		// keep what was actually stored, for diagnosis
		var sb strings.Builder
		for i := uint64(0); i < n; i++ {
			var acc storedAcc
			err := seg.VisitStoredFields(i, acc.visit)
			if _, ok := acc.digest(); !ok || err != nil {
				fmt.Fprintf(&sb, "doc %d err=%v fields=%q\n", i, err, acc.m)
			}
		}
		corruptDumps++
		_ = os.WriteFile(filepath.Join(workDir, fmt.Sprintf("c01_corrupt_%d_%d.txt", os.Getpid(), corruptDumps)), []byte(sb.String()), 0o644)
	}
	t.mu.Lock()
	t.cache[seg] = ds
	t.corrupt += bad
	t.retried += retried
	wasHeld := t.held[seg]
	delete(t.held, seg)
	t.mu.Unlock()
	if wasHeld {
		if rc, ok := seg.(interface{ DecRef() error }); ok {
			_ = rc.DecRef()
		}
	}
	return ds
}

// called by the writer under rootLock (kind root) / from the persister (grab, persisted)
func (t *tracer) trace(w *index.Writer, kind string, snap *index.Snapshot, x uint64) {
	t.mu.Lock()
	defer t.mu.Unlock()
	if !t.active || snap == nil {
		return
	}
	switch kind {
	case "grab":
		t.grabs++
		return
	case "persisted":
		t.acks++
		return
	case "root":
	default:
		return
	}
	if !t.recording {
		t.lateSnaps = append(t.lateSnaps, snap)
		return
	}
	rec := &rootRec{epoch: snap.VerifEpoch(), creator: snap.VerifCreator()}
	for _, ss := range snap.Segments() {
		sr := segRec{sid: ss.ID()}
		if d := ss.Deleted(); d != nil {
			sr.deleted = d.ToArray()
		}
		if sg, ok := ss.(interface{ Segment() segment.Segment }); ok {
			seg := sg.Segment()
			if p, ok := seg.(interface{ Persisted() bool }); ok {
				sr.persisted = p.Persisted()
			}
			sr.seg = seg
			if _, done := t.cache[seg]; !done && !t.held[seg] {
				// keep the segment object open until the main goroutine has read it
				if rc, ok := seg.(interface{ AddRef() }); ok {
					rc.AddRef()
					t.held[seg] = true
				}
			}
		}
		rec.segs = append(rec.segs, sr)
	}
	t.events = append(t.events, rec)
	t.lastEpoch = rec.epoch
}

// closing: from now on roots are only remembered (for the debug probe), not recorded, and nothing is held
func (t *tracer) closing() {
	t.mu.Lock()
	t.recording = false
	t.mu.Unlock()
}

// debug probe (C01_DEBUG=1): after Writer.Close every segment of every root installed during the close must have
// reference count 0; a negative count is a reference released twice
func (t *tracer) debugRefsAfterClose() {
	t.mu.Lock()
	snaps := t.lateSnaps
	t.lateSnaps = nil
	t.mu.Unlock()
	if len(snaps) > 0 {
		if f, err := os.OpenFile(os.Getenv("C01_DEBUG"), os.O_APPEND|os.O_CREATE|os.O_WRONLY, 0o644); err == nil {
			fmt.Fprintf(f, "late roots: %d\n", len(snaps))
			_ = f.Close()
		}
	}
	for _, sn := range snaps {
		for i, r := range sn.VerifSegmentRefs() {
			if r < -1 || (r != -1 && r != 0) {
				if f, err := os.OpenFile(os.Getenv("C01_DEBUG"), os.O_APPEND|os.O_CREATE|os.O_WRONLY, 0o644); err == nil {
					fmt.Fprintf(f, "after Close: root e%d (%s) segment #%d refs=%d\n", sn.VerifEpoch(), sn.VerifCreator(), i, r)
					_ = f.Close()
				}
			}
		}
	}
}

func (t *tracer) take() []*rootRec {
	t.mu.Lock()
	ev := t.events
	t.events = nil
	t.mu.Unlock()
	for _, e := range ev {
		for i := range e.segs {
			if e.segs[i].seg != nil {
				e.segs[i].docs = t.readSeg(e.segs[i].seg)
			}
		}
	}
	return ev
}

func (t *tracer) epoch() uint64 {
	t.mu.Lock()
	defer t.mu.Unlock()
	return t.lastEpoch
}

// ---------------------------------------------------------------- per-case state

type caseState struct {
	w        *bluge.Writer
	dir      string
	k        int
	cfg      string
	prev     map[uint64]bool // sid -> persisted, of the last emitted root
	history  string          // for distinctness
	inflight []inflight
	mw       bool // merge-window case
}

type inflight struct {
	ops  string
	seen uint64
	docs map[int]bool // bodies of the documents the batch adds
	used bool
}

// ---------------------------------------------------------------- merge window gate
//
// In a merge-window case the merge planner's budget is under the harness's control (MergePlanOptions.CalcBudget):
// a large budget while the segments are built (no merge), 1 when a merge is wanted. The first merge task that
// reaches EventKindMergeTaskIntroductionStart while the gate is armed is parked there until released.

var mwBudget int64 = 1000

type mwGate struct {
	mu           sync.Mutex
	armed        bool
	parked       bool
	done         bool
	heldCh       chan struct{}
	release      chan struct{}
	doneCh       chan struct{}
	mergeStarted int32 // the segment plugin's Merge was called since the gate was armed
}

var gate = &mwGate{}

func (g *mwGate) arm() {
	g.mu.Lock()
	g.armed, g.parked, g.done = true, false, false
	g.heldCh, g.release, g.doneCh = make(chan struct{}), make(chan struct{}), make(chan struct{})
	atomic.StoreInt32(&g.mergeStarted, 0)
	g.mu.Unlock()
}

// disarm: nothing will be parked any more; reports whether a task is parked right now
func (g *mwGate) disarm() bool {
	g.mu.Lock()
	defer g.mu.Unlock()
	g.armed = false
	return g.parked
}

// open releases a parked task (idempotent)
func (g *mwGate) open() {
	g.mu.Lock()
	g.armed = false
	if g.parked && g.release != nil {
		select {
		case <-g.release:
		default:
			close(g.release)
		}
	}
	g.mu.Unlock()
}

func (g *mwGate) event(e index.Event) {
	switch e.Kind {
	case index.EventKindMergeTaskIntroductionStart:
		g.mu.Lock()
		if g.armed && !g.parked {
			g.parked = true
			g.armed = false
			rel := g.release
			close(g.heldCh)
			g.mu.Unlock()
			<-rel
			return
		}
		g.mu.Unlock()
	case index.EventKindMergeTaskIntroduction:
		g.mu.Lock()
		if g.parked && !g.done {
			g.done = true
			close(g.doneCh)
		}
		g.mu.Unlock()
	}
}

var cur *caseState
var workDir string
var corruptDumps int
var caseNo int

func closeCase(out func(string, string)) {
	if cur == nil {
		return
	}
	// everything traced so far is read and emitted BEFORE Close; what the introducer installs while the writer
	// is closing (an in-flight persist) comes after the last reader view and is not part of the stream.
	// (Reading a segment after Close is not safe even with a reference held: see the report — a persist that is
	// in flight when closeCh fires gets its freshly loaded segments closed by prepareIntroducePersist's defer
	// although the introducer has put them into the root.)
	gate.open() // a parked merger would never see closeCh
	emitEvents(out)
	tr.closing()
	_ = hlib.Catch(func() string { _ = cur.w.Close(); return "" })
	if os.Getenv("C01_DEBUG") != "" {
		tr.debugRefsAfterClose()
	}
	tr.reset(false)
	if cur.dir != "" {
		_ = os.RemoveAll(cur.dir)
	}
	cur = nil
}

func openCase(line string, work string) error {
	f := strings.Fields(line)
	if len(f) < 3 {
		return fmt.Errorf("bad case line")
	}
	parts := strings.Split(f[1], "-")
	if len(parts) != 3 {
		return fmt.Errorf("bad config")
	}
	k, _ := strconv.Atoi(strings.TrimPrefix(f[2], "k="))
	caseNo++
	cs := &caseState{k: k, cfg: f[1], prev: map[uint64]bool{}}
	for _, w := range f[3:] {
		if w == "mw=1" {
			cs.mw = true
		}
	}
	var cfg bluge.Config
	if parts[0] == "fs" {
		cs.dir = filepath.Join(work, "c01idx", fmt.Sprintf("case%d", caseNo))
		_ = os.RemoveAll(cs.dir)
		if err := os.MkdirAll(cs.dir, 0o755); err != nil {
			return err
		}
		cfg = bluge.DefaultConfig(cs.dir)
	} else {
		cfg = bluge.InMemoryOnlyConfig()
	}
	ic := cfg.VerifIndexConfig()
	ic.UnsafeBatch = parts[2] == "unsafe"
	ic.SegmentType = "ice"
	if parts[1] == "v2" {
		ic.SegmentVersion = 2
	} else {
		ic.SegmentVersion = 1
	}
	// shrunk merge plan so that file merges happen inside short histories
	ic.MergePlanOptions.FloorSegmentSize = 1
	ic.MergePlanOptions.MaxSegmentsPerTier = 2
	ic.MergePlanOptions.SegmentsPerMergeTask = 2
	ic.MergePlanOptions.TierGrowth = 2.0
	ic.AsyncError = func(err error) {}
	if cs.mw {
		// the planner merges exactly when the harness says so, and then up to 4 segments in one task
		atomic.StoreInt64(&mwBudget, 1000)
		ic.MergePlanOptions = mergeplan.DefaultMergePlanOptions
		ic.MergePlanOptions.SegmentsPerMergeTask = 4
		ic.MergePlanOptions.FloorSegmentSize = 100
		ic.MergePlanOptions.CalcBudget = func(totalSize, firstTierSize int64, o *mergeplan.Options) int {
			return int(atomic.LoadInt64(&mwBudget))
		}
		ic.EventCallback = gate.event
		// know when a merge is being computed (no nudging from then on)
		realMerge := iceV1.Merge
		plug := &index.SegmentPlugin{Type: iceV1.Type, Version: iceV1.Version, New: iceV1.New, Load: iceV1.Load}
		if parts[1] == "v2" {
			realMerge = iceV2.Merge
			plug = &index.SegmentPlugin{Type: iceV2.Type, Version: iceV2.Version, New: iceV2.New, Load: iceV2.Load}
		}
		plug.Merge = func(segs []segment.Segment, drops []*roaring.Bitmap, buf int) segment.Merger {
			atomic.StoreInt32(&gate.mergeStarted, 1)
			return realMerge(segs, drops, buf)
		}
		ic = ic.WithSegmentPlugin(plug)
	}
	cfg = cfg.VerifWithIndexConfig(ic)
	tr.reset(true) // one writer at a time
	w, err := bluge.OpenWriter(cfg)
	if err != nil {
		tr.reset(false)
		return err
	}
	cs.w = w
	cur = cs
	return nil
}

// ---------------------------------------------------------------- batches

func parseOps(s string) (b *index.Batch, adds map[int]bool, n int, err error) {
	b = bluge.NewBatch()
	adds = map[int]bool{}
	for _, op := range strings.Fields(s) {
		if op == "-" {
			continue
		}
		p := strings.Split(op, ":")
		id, e := strconv.Atoi(p[1])
		if e != nil {
			return nil, nil, 0, e
		}
		n++
		switch p[0] {
		case "ins", "upd":
			body, e := strconv.Atoi(p[2])
			if e != nil {
				return nil, nil, 0, e
			}
			d := mkDoc(doc{id, body})
			adds[body] = true
			if p[0] == "ins" {
				b.Insert(d)
			} else {
				b.Update(bluge.Identifier(strconv.Itoa(id)), d)
			}
		case "del":
			b.Delete(bluge.Identifier(strconv.Itoa(id)))
		default:
			return nil, nil, 0, fmt.Errorf("bad op %q", op)
		}
	}
	return b, adds, n, nil
}

// turn the recorded roots into pair lines, in the order they were installed
func emitEvents(out func(string, string)) {
	for _, ev := range tr.take() {
		phys := ev.String()
		switch ev.creator {
		case "introduceSegment":
			// which in-flight batch is this? the one whose documents the new segment holds; a batch without
			// documents is never in flight together with another one
			newSid := uint64(0)
			var newDocs []doc
			for _, s := range ev.segs {
				if _, known := cur.prev[s.sid]; !known {
					newSid = s.sid
					newDocs = s.docs
				}
			}
			idx := -1
			for i := range cur.inflight {
				fl := &cur.inflight[i]
				if fl.used {
					continue
				}
				if len(newDocs) > 0 {
					if fl.docs[newDocs[0].body] {
						idx = i
						break
					}
				} else if len(fl.docs) == 0 {
					idx = i
					break
				}
			}
			if idx < 0 {
				out(fmt.Sprintf("intro %d %d seen=0 ? cfg=%s", ev.epoch, newSid, cur.cfg), phys)
			} else {
				cur.inflight[idx].used = true
				out(fmt.Sprintf("intro %d %d seen=%d %s cfg=%s", ev.epoch, newSid, cur.inflight[idx].seen, cur.inflight[idx].ops, cur.cfg), phys)
			}
		case "introducePersist":
			var sb strings.Builder
			fmt.Fprintf(&sb, "persist %d", ev.epoch)
			for _, s := range ev.segs {
				if was, known := cur.prev[s.sid]; known && !was && s.persisted {
					fmt.Fprintf(&sb, " %d[%s]", s.sid, docsString(s.docs, ","))
				}
			}
			fmt.Fprintf(&sb, " cfg=%s", cur.cfg)
			out(sb.String(), phys)
		case "introduceMerge":
			out(fmt.Sprintf("merge %d %s cfg=%s", ev.epoch, phys, cur.cfg), phys)
		default:
			out(fmt.Sprintf("other %d %s %s", ev.epoch, ev.creator, phys), phys)
		}
		cur.prev = map[uint64]bool{}
		for _, s := range ev.segs {
			cur.prev[s.sid] = s.persisted
		}
	}
}

func runBatches(opss []string, out func(string, string), st sink) {
	seen := tr.epoch()
	errs := make([]error, len(opss))
	var wg sync.WaitGroup
	for i, ops := range opss {
		b, adds, n, err := parseOps(ops)
		if err != nil {
			out("batcherr "+ops, "bad-script")
			return
		}
		if strings.TrimSpace(ops) == "" {
			ops = "-"
		}
		cur.inflight = append(cur.inflight, inflight{ops: strings.Join(strings.Fields(ops), " "), seen: seen, docs: adds})
		st.Count(fmt.Sprintf("batchsize:%s", sizeBucket(n)))
		wg.Add(1)
		go func(i int, b *index.Batch) {
			defer wg.Done()
			defer func() {
				if e := recover(); e != nil {
					errs[i] = fmt.Errorf("panic")
				}
			}()
			errs[i] = cur.w.Batch(b)
		}(i, b)
	}
	wg.Wait()
	emitEvents(out)
	for i, e := range errs {
		if e != nil {
			out("batcherr "+opss[i], "err")
		}
	}
	// every in-flight batch must have been introduced by now
	for _, fl := range cur.inflight {
		if !fl.used {
			out("lost "+fl.ops, "batch returned without an introduction")
		}
	}
	cur.inflight = nil
}

func sizeBucket(n int) string {
	switch {
	case n == 0:
		return "0"
	case n == 1:
		return "1"
	case n <= 4:
		return "2-4"
	case n <= 12:
		return "5-12"
	}
	return "13-40"
}

// ---------------------------------------------------------------- the reader's view

func readState(k int) string {
	r, err := cur.w.Reader()
	if err != nil {
		return "err:reader"
	}
	defer r.Close()
	n, err := r.Count()
	if err != nil {
		return "err:count"
	}
	collect := func(q bluge.Query) ([]doc, string) {
		it, err := r.Search(context.Background(), bluge.NewAllMatches(q))
		if err != nil {
			return nil, "err:search"
		}
		var ds []doc
		for {
			m, err := it.Next()
			if err != nil {
				return nil, "err:next"
			}
			if m == nil {
				break
			}
			var acc storedAcc
			if err := m.VisitStoredFields(acc.visit); err != nil {
				return nil, "err:stored"
			}
			d, _ := acc.digest()
			ds = append(ds, d)
		}
		sort.Slice(ds, func(i, j int) bool {
			if ds[i].id != ds[j].id {
				return ds[i].id < ds[j].id
			}
			return ds[i].body < ds[j].body
		})
		return ds, ""
	}
	all, e := collect(bluge.NewMatchAllQuery())
	if e != "" {
		return e
	}
	var sb strings.Builder
	fmt.Fprintf(&sb, "n=%d all=%s look=", n, docsString(all, ","))
	for id := 1; id <= k; id++ {
		ds, e := collect(bluge.NewTermQuery(strconv.Itoa(id)).SetField("_id"))
		if e != "" {
			return e
		}
		if id > 1 {
			sb.WriteByte(',')
		}
		bs := make([]string, len(ds))
		for i, d := range ds {
			if d.id != id {
				bs[i] = fmt.Sprintf("wrong-id-%d", d.id)
			} else {
				bs[i] = strconv.Itoa(d.body)
			}
		}
		fmt.Fprintf(&sb, "%d=%s", id, strings.Join(bs, ";"))
	}
	return sb.String()
}

// ---------------------------------------------------------------- Exec

// execReal runs one script line against the real code (in the child process)
func execReal(line string, out func(string, string), st sink, work string) {
	w := strings.Fields(line)
	if len(w) == 0 {
		return
	}
	switch w[0] {
	case "case":
		closeCase(out) // a script cut short by shrinking may lack its `end`
		if err := openCase(line, work); err != nil {
			out(line, "err:open")
			return
		}
		st.Count("config:" + cur.cfg)
		out(line, "case")
	case "batch", "par":
		if cur == nil {
			out(line, "no-case")
			return
		}
		rest := strings.TrimSpace(line[len(w[0]):])
		opss := []string{rest}
		if w[0] == "par" {
			opss = strings.Split(rest, "|")
			for i := range opss {
				opss[i] = strings.TrimSpace(opss[i])
			}
		}
		st.Count("op:" + w[0])
		for _, ops := range opss {
			for _, op := range strings.Fields(ops) {
				st.Count("op:" + strings.SplitN(op, ":", 2)[0])
			}
		}
		runBatches(opss, out, st)
		emitRead(out, st)
		cur.history += "\n" + line
		st.Case(cur.cfg+cur.history, rest != "-" && rest != "")
	case "mwhold":
		if cur == nil || !cur.mw {
			out("mwhold na", "-")
			return
		}
		st.Count("op:mwhold")
		emitEvents(out)
		if len(cur.prev) < 2 {
			// nothing to merge (the last root has fewer than two segments)
			st.Count("mw:fewer-than-two-segments")
			out("mwhold na", "-")
			return
		}
		gate.arm()
		atomic.StoreInt64(&mwBudget, 1)
		held := false
		deadline := time.Now().Add(8 * time.Second)
		for !held && time.Now().Before(deadline) {
			select {
			case <-gate.heldCh:
				held = true
			case <-time.After(120 * time.Millisecond):
				// the merger plans lazily (it hears of a persisted epoch only when the persister goes round
				// again): an empty batch wakes it — but only while no merge is being computed
				if atomic.LoadInt32(&gate.mergeStarted) == 0 {
					st.Count("mw:nudge")
					runBatches([]string{"-"}, out, st)
				}
			}
		}
		if !held {
			held = gate.disarm()
		}
		emitEvents(out)
		if held {
			st.Count("mw:held")
			out("mwhold held", "-")
		} else {
			st.Count("mw:hold-timeout")
			out("mwhold na", "-")
		}
		cur.history += "\n" + line
	case "mwrelease":
		if cur == nil || !cur.mw {
			out("mwrelease na", "-")
			return
		}
		gate.mu.Lock()
		parked, doneCh := gate.parked, gate.doneCh
		gate.mu.Unlock()
		res := "na"
		if parked {
			gate.open()
			select {
			case <-doneCh:
				res = "done"
				st.Count("mw:introduced")
			case <-time.After(10 * time.Second):
				st.Count("mw:release-timeout")
			}
		}
		atomic.StoreInt64(&mwBudget, 1000)
		out("mwrelease "+res, "-")
		emitEvents(out)
		emitRead(out, st)
		cur.history += "\n" + line
		st.Case(cur.cfg+cur.history, res == "done")
	case "end":
		if cur == nil {
			out(line, "no-case")
			return
		}
		tr.mu.Lock()
		g, a, c, rt := tr.grabs, tr.acks, tr.corrupt, tr.retried
		tr.grabs, tr.acks, tr.corrupt, tr.retried = 0, 0, 0, 0
		tr.mu.Unlock()
		st.CountN("trace-segment-read-retried", rt)
		st.CountN("trace:grab", g)
		st.CountN("trace:persisted", a)
		st.CountN("stored-fields-corrupt", c)
		closeCase(out)
		out(line, "closed")
	case "selftest-crash":
		// harness self-test: a panic on a background goroutine must come out as a crash observation
		go func() { panic("selftest") }()
		time.Sleep(2 * time.Second)
		out(line, "survived")
	default:
		out(line, "bad-op")
	}
}

// emitRead prints the reader's view (with a second look when the first one is faulty)
func emitRead(out func(string, string), st sink) {
	res := hlib.Catch(func() string { return readState(cur.k) })
	tag := ""
	if faultyView(res) {
		// is the fault transient? (a second look at the same, immutable reader state)
		st.Count("reader-view-faulty")
		for try := 0; try < 3 && tag == ""; try++ {
			time.Sleep(30 * time.Millisecond)
			if again := hlib.Catch(func() string { return readState(cur.k) }); !faultyView(again) {
				tag = " transient"
			}
		}
	}
	out(fmt.Sprintf("read k=%d cfg=%s%s", cur.k, cur.cfg, tag), res)
}

var corruptRe = regexp.MustCompile(`[.=;]1[0-9]{9}\b`)

// faultyView: the reader could not deliver stored fields (error, panic, or a document whose stored fields do not
// belong together)
func faultyView(v string) bool {
	return strings.HasPrefix(v, "err") || strings.HasPrefix(v, "panic") || corruptRe.MatchString(v) ||
		strings.Contains(v, "wrong-id")
}

// ---------------------------------------------------------------- process isolation
//
// The real writer runs background goroutines (persister, merger); a panic there kills the process. Every script
// line is therefore executed in a child process (`h_c01 child <work>`); a crash becomes the observation
// "crash <line> ## crash:<class>", the rest of that case is skipped and a fresh child serves the next case.

type childProc struct {
	cmd    *exec.Cmd
	in     io.WriteCloser
	out    *bufio.Reader
	stderr *bytes.Buffer
}

var child *childProc
var skipping bool

func startChild(work string) (*childProc, error) {
	cmd := exec.Command(os.Args[0], "child", work)
	in, err := cmd.StdinPipe()
	if err != nil {
		return nil, err
	}
	op, err := cmd.StdoutPipe()
	if err != nil {
		return nil, err
	}
	eb := &bytes.Buffer{}
	cmd.Stderr = eb
	if err := cmd.Start(); err != nil {
		return nil, err
	}
	return &childProc{cmd: cmd, in: in, out: bufio.NewReaderSize(op, 1<<20), stderr: eb}, nil
}

func classifyCrash(stderr string) string {
	switch {
	case strings.Contains(stderr, "ice/v2") && (strings.Contains(stderr, "getDocStoredOffsets") || strings.Contains(stderr, "getDocStoredMetaAndUnCompressed")):
		return "ice-v2-stored-chunk-buffer"
	case strings.Contains(stderr, "panic:"):
		i := strings.Index(stderr, "panic:")
		l := stderr[i:]
		if j := strings.IndexByte(l, '\n'); j >= 0 {
			l = l[:j]
		}
		if len(l) > 120 {
			l = l[:120]
		}
		return strings.ReplaceAll(l, " ", "_")
	case strings.Contains(stderr, "fatal error:"):
		return "fatal-error"
	}
	return "exit"
}

func (h) Exec(line string, out func(string, string), st *hlib.Stats, work string) {
	isCase := strings.HasPrefix(line, "case ")
	if w := strings.Fields(line); isCase && len(w) > 1 {
		lastCfg = w[1]
	}
	if skipping && !isCase {
		st.Count("lines-skipped-after-crash")
		return
	}
	skipping = false
	if child == nil {
		c, err := startChild(work)
		if err != nil {
			out(line, "err:child")
			return
		}
		child = c
	}
	_, err := io.WriteString(child.in, line+"\n")
	for err == nil {
		var l string
		l, err = child.out.ReadString('\n')
		if err != nil {
			break
		}
		l = strings.TrimSuffix(l, "\n")
		f := strings.SplitN(l, "\t", 3)
		switch f[0] {
		case "D":
			return
		case "P":
			if len(f) == 3 {
				out(f[1], f[2])
			}
		case "C":
			if len(f) == 3 {
				n, _ := strconv.Atoi(f[1])
				st.CountN(f[2], n)
			}
		case "K":
			if len(f) == 3 {
				st.Case(f[2], f[1] == "1")
			}
		}
	}
	// the child died while executing this line
	_ = child.in.Close()
	_ = child.cmd.Wait()
	cls := classifyCrash(child.stderr.String())
	crashes++
	_ = os.WriteFile(filepath.Join(work, fmt.Sprintf("c01_crash_%d.txt", crashes)), child.stderr.Bytes(), 0o644)
	child = nil
	skipping = true
	st.Count("crash:" + cls)
	cfg := ""
	if w := strings.Fields(line); isCase && len(w) > 1 {
		cfg = w[1]
	} else {
		cfg = lastCfg
	}
	out("crash cfg="+cfg+" "+line, "crash:"+cls)
}

var lastCfg string
var crashes int

type printSink struct{ w *bufio.Writer }

func (p printSink) Count(key string)         { fmt.Fprintf(p.w, "C\t1\t%s\n", key) }
func (p printSink) CountN(key string, n int) { fmt.Fprintf(p.w, "C\t%d\t%s\n", n, key) }
func (p printSink) Case(key string, nt bool) {
	b := "0"
	if nt {
		b = "1"
	}
	fmt.Fprintf(p.w, "K\t%s\t%s\n", b, strings.ReplaceAll(key, "\n", " / "))
}

func childMain(work string) {
	workDir = work
	index.SetVerifTrace(tr.trace)
	in := bufio.NewScanner(os.Stdin)
	in.Buffer(make([]byte, 1<<20), 1<<28)
	w := bufio.NewWriterSize(os.Stdout, 1<<20)
	ps := printSink{w}
	for in.Scan() {
		line := in.Text()
		execReal(line, func(op, res string) {
			fmt.Fprintf(w, "P\t%s\t%s\n", strings.ReplaceAll(op, "\t", " "), strings.ReplaceAll(res, "\t", " "))
		}, ps, work)
		fmt.Fprintf(w, "D\n")
		w.Flush()
	}
}

// ---------------------------------------------------------------- Gen

func (h) Gen(r *hlib.Rand, tier string, scale int, emit func(string)) {
	ncases := 240 * scale
	maxBatches := 25
	if tier == "thorough" {
		ncases = 3000 * scale
	}
	dirs := []string{"mem", "fs"}
	vers := []string{"v1", "v2"}
	modes := []string{"safe", "unsafe"}
	body := 0
	nextBody := func() int { body++; return body }

	// the dedicated known-finding probe: the only generator of batches that name an id twice
	emit("case mem-v2-unsafe k=3 probe=dup")
	emit(fmt.Sprintf("batch upd:1:%d upd:1:%d", nextBody(), nextBody()))
	emit("end")
	emit("case fs-v1-safe k=3 probe=dup")
	emit(fmt.Sprintf("batch upd:2:%d", nextBody()))
	emit(fmt.Sprintf("batch upd:2:%d upd:3:%d upd:2:%d", nextBody(), nextBody(), nextBody()))
	emit("end")

	genBatch := func(k int, wantDocs bool) string {
		// one batch over ids 1..k, no id named twice
		kind := r.Weighted(90, 5, 5) // normal / empty / delete-only
		if wantDocs {
			kind = 0
		}
		if kind == 1 {
			return "-"
		}
		size := r.Weighted(30, 35, 25, 10)
		n := 0
		switch size {
		case 0:
			n = 1
		case 1:
			n = r.Range(2, 4)
		case 2:
			n = r.Range(5, 12)
		default:
			n = r.Range(13, 40)
		}
		if n > k {
			n = k
		}
		// choose n distinct ids
		ids := make([]int, k)
		for i := range ids {
			ids[i] = i + 1
		}
		for i := 0; i < n; i++ {
			j := i + r.Intn(k-i)
			ids[i], ids[j] = ids[j], ids[i]
		}
		ops := make([]string, 0, n)
		hasDoc := false
		for i := 0; i < n; i++ {
			var o int
			if kind == 2 {
				o = 2
			} else {
				o = r.Weighted(30, 40, 20)
			}
			if wantDocs && i == n-1 && !hasDoc {
				o = r.Intn(2)
			}
			switch o {
			case 0:
				ops = append(ops, fmt.Sprintf("ins:%d:%d", ids[i], nextBody()))
				hasDoc = true
			case 1:
				ops = append(ops, fmt.Sprintf("upd:%d:%d", ids[i], nextBody()))
				hasDoc = true
			default:
				ops = append(ops, fmt.Sprintf("del:%d", ids[i]))
			}
		}
		return strings.Join(ops, " ")
	}

	for c := 0; c < ncases; c++ {
		cfgName := dirs[c%2] + "-" + vers[(c/2)%2] + "-" + modes[(c/4)%2]
		k := r.Range(1, 12)
		if r.Chance(20) {
			k = r.Range(16, 48)
		}
		nb := r.Range(1, maxBatches)
		if dirs[c%2] == "fs" && modes[(c/4)%2] == "safe" && nb > 12 && tier != "thorough" {
			nb = 12 // every safe batch on the file system waits for fsyncs
		}
		body = 0
		emit(fmt.Sprintf("case %s k=%d", cfgName, k))
		for i := 0; i < nb; i++ {
			if r.Chance(12) {
				emit("par " + genBatch(k, true) + " | " + genBatch(k, true))
			} else {
				emit("batch " + genBatch(k, false))
			}
		}
		emit("end")
		if c%6 == 5 {
			genMergeWindow(r, c/6, emit)
		}
	}
}

// genMergeWindow: 2–4 segments of uneven sizes (mostly the older ones smaller, some with documents superseded by
// later build batches), a parked file merge, 1–3 batches of deletes/updates hitting documents of the merging segments
// (and some that do not), release, one or two more batches
func genMergeWindow(r *hlib.Rand, c int, emit func(string)) {
	dirs := []string{"fs", "mem"}
	vers := []string{"v1", "v2"}
	body := 0
	nextBody := func() int { body++; return body }
	emit(fmt.Sprintf("case %s-%s-safe k=24 mw=1", dirs[c%2], vers[(c/2)%2]))
	nextID := 1
	var built []int        // ids living in the built segments
	segOf := map[int]int{} // id -> index of the build batch holding its live document
	liveIn := map[int]int{}
	segNo := 0
	windows := 1
	if r.Chance(25) {
		windows = 2
	}
	for w := 0; w < windows; w++ {
		nseg := r.Range(2, 4)
		if w > 0 {
			nseg = r.Range(1, 2) // the merged segment of the first window is one of the inputs
		}
		size := r.Range(1, 2)
		for sgi := 0; sgi < nseg && nextID+size <= 22; sgi++ {
			ops := []string{}
			segNo++
			for j := 0; j < size; j++ {
				ops = append(ops, fmt.Sprintf("upd:%d:%d", nextID, nextBody()))
				built = append(built, nextID)
				segOf[nextID] = segNo
				liveIn[segNo]++
				nextID++
			}
			if sgi > 0 && len(built) > size && r.Chance(40) {
				// supersede a document of an older segment: that segment goes into the merge with a deletion
				// (but keeps a live document, or it would leave the root and there might be nothing to merge)
				old := built[r.Intn(len(built)-size)]
				if liveIn[segOf[old]] >= 2 {
					ops = append(ops, fmt.Sprintf("upd:%d:%d", old, nextBody()))
					liveIn[segOf[old]]--
					segOf[old] = segNo
					liveIn[segNo]++
				}
			}
			emit("batch " + strings.Join(ops, " "))
			if r.Chance(75) {
				size += r.Range(1, 3) // the younger segment is the bigger one
			} else if size > 1 {
				size -= 1
			}
		}
		emit("mwhold")
		for nb := r.Range(1, 3); nb > 0; nb-- {
			ops := []string{}
			used := map[int]bool{}
			for n := r.Range(1, 3); n > 0; n-- {
				id := 23 + r.Intn(2) // an id outside the merging segments
				if r.Chance(75) && len(built) > 0 {
					id = built[r.Intn(len(built))]
				}
				if used[id] {
					continue
				}
				used[id] = true
				if r.Chance(55) {
					ops = append(ops, fmt.Sprintf("del:%d", id))
				} else {
					ops = append(ops, fmt.Sprintf("upd:%d:%d", id, nextBody()))
				}
			}
			emit("batch " + strings.Join(ops, " "))
		}
		emit("mwrelease")
		if r.Chance(50) {
			id := built[r.Intn(len(built))]
			emit(fmt.Sprintf("batch upd:%d:%d del:%d", id, nextBody(), 23))
		}
	}
	emit("end")
}

func main() {
	if len(os.Args) >= 3 && os.Args[1] == "child" {
		childMain(os.Args[2])
		return
	}
	hlib.Main(h{})
}

// Correspondence harness for C01: batches apply atomically and exactly as the abstract index says.
//
// Script lines
//
//	case <mem|fs>-<v1|v2>-<safe|unsafe> k=<K> [probe=dup]   new writer, id space 1..K
//	batch <op> <op> …     one Writer.Batch; op = ins:<id>:<body> | upd:<id>:<body> | del:<id>; "batch -" = empty batch
//	par <ops> | <ops>     two Writer.Batch calls issued concurrently (both add documents), to occupy the window
//	                      between prepareSegment's optimistic obsoletes and the introduction
//	end                   close the writer
//
// Pair lines written by exec (model op ## implementation result). Every root the introducer installs is
// recorded through index.SetVerifTrace and becomes one line, in the order the introductions really happened:
//
//	intro <epoch> <newSid|0> seen=<epoch> <ops>   ## <physical root>      (creator introduceSegment)
//	persist <epoch> <sid>[docs] …                 ## <physical root>      (creator introducePersist)
//	merge <epoch> <physical root>                 ## <physical root>      (creator introduceMerge)
//	read k=<K>                                    ## n=<Count> all=<id.body,…> look=<id>=<body;…>,…
//
// physical root = e<epoch> then per segment <sid><m|p>[<id>.<body>,…]{<deleted doc numbers>}.
package main

import (
	"context"
	"fmt"
	"os"
	"path/filepath"
	"sort"
	"strconv"
	"strings"
	"sync"

	"github.com/blugelabs/bluge"
	"github.com/blugelabs/bluge/index"
	segment "github.com/blugelabs/bluge_segment_api"

	"verif/harness/hlib"
)

type h struct{}

func (h) Rule() string {
	return "histories of 1–25 batches over an id space of 1–12 ids (20%: 16–48 ids), batch sizes 0–40 capped by the id space, " +
		"op weights insert 30 / update 40 / delete 20, 5% empty and 5% delete-only batches, no id named twice in a batch " +
		"(except in the dedicated probe case), 12% of the steps are two concurrent batches; configurations cycle through " +
		"{mem,fs}×{ice v1,v2}×{safe,unsafe} with merge-plan options shrunk so that merges happen; a step is non-trivial " +
		"when its batch is not empty and distinct when its (configuration, history prefix) is new"
}

// ---------------------------------------------------------------- documents

type doc struct {
	id   int
	body int
}

func words(n int) string {
	w := []string{"alpha", "beta", "gamma", "delta", "epsilon", "zeta", "eta"}
	var sb strings.Builder
	for i := 0; i < 1+n%5; i++ {
		if i > 0 {
			sb.WriteByte(' ')
		}
		sb.WriteString(w[(n+i*3)%len(w)])
	}
	return sb.String()
}

// expected stored fields (besides _id) of the document with digest `body`; four shapes
func storedOf(body int) map[string]string {
	m := map[string]string{"body": strconv.Itoa(body)}
	switch body % 4 {
	case 1:
		m["t"] = words(body)
	case 2:
		m["tag"] = fmt.Sprintf("tag%d", body%7)
	case 3:
		m["blob"] = strings.Repeat(fmt.Sprintf("%d;", body), 1+body%9)
	}
	return m
}

func mkDoc(d doc) *bluge.Document {
	bd := bluge.NewDocument(strconv.Itoa(d.id))
	bd.AddField(bluge.NewKeywordField("body", strconv.Itoa(d.body)).StoreValue())
	switch d.body % 4 {
	case 1:
		bd.AddField(bluge.NewTextField("t", words(d.body)).StoreValue())
		bd.AddField(bluge.NewNumericField("num", float64(d.body)))
	case 2:
		bd.AddField(bluge.NewKeywordField("tag", fmt.Sprintf("tag%d", d.body%7)).StoreValue().Aggregatable())
		bd.AddField(bluge.NewTextField("u", words(d.body+1))) // indexed, not stored
	case 3:
		bd.AddField(bluge.NewStoredOnlyField("blob", []byte(strings.Repeat(fmt.Sprintf("%d;", d.body), 1+d.body%9))))
	}
	return bd
}

// digest of the stored fields seen for one document: "<id>.<body>", or a corrupt marker
type storedAcc struct{ m map[string]string }

func (a *storedAcc) visit(field string, value []byte) bool {
	if a.m == nil {
		a.m = map[string]string{}
	}
	if _, dup := a.m[field]; dup {
		a.m[field] += "\x00dup"
	} else {
		a.m[field] = string(value)
	}
	return true
}

func (a *storedAcc) digest() (doc, bool) {
	id, err1 := strconv.Atoi(a.m["_id"])
	body, err2 := strconv.Atoi(a.m["body"])
	if err1 != nil || err2 != nil {
		return doc{-1, -1}, false
	}
	want := storedOf(body)
	if len(a.m) != len(want)+1 {
		return doc{id, -body - 1000000}, false
	}
	for k, v := range want {
		if a.m[k] != v {
			return doc{id, -body - 1000000}, false
		}
	}
	return doc{id, body}, true
}

func docsString(ds []doc, sep string) string {
	if len(ds) == 0 {
		return ""
	}
	parts := make([]string, len(ds))
	for i, d := range ds {
		parts[i] = fmt.Sprintf("%d.%d", d.id, d.body)
	}
	return strings.Join(parts, sep)
}

// ---------------------------------------------------------------- trace of installed roots

type segRec struct {
	sid       uint64
	persisted bool
	docs      []doc
	deleted   []uint32
}

type rootRec struct {
	epoch   uint64
	creator string
	segs    []segRec
}

func (r *rootRec) String() string {
	var sb strings.Builder
	fmt.Fprintf(&sb, "e%d", r.epoch)
	if len(r.segs) == 0 {
		sb.WriteString(" -")
	}
	for _, s := range r.segs {
		p := "m"
		if s.persisted {
			p = "p"
		}
		del := make([]string, len(s.deleted))
		for i, d := range s.deleted {
			del[i] = strconv.Itoa(int(d))
		}
		fmt.Fprintf(&sb, " %d%s[%s]{%s}", s.sid, p, docsString(s.docs, ","), strings.Join(del, ","))
	}
	return sb.String()
}

type tracer struct {
	mu        sync.Mutex
	active    bool // a case is open (otherwise events are ignored)
	events    []*rootRec
	lastEpoch uint64
	cache     map[segment.Segment][]doc // a segment object is immutable: read it once
	grabs     int
	acks      int
	corrupt   int
}

var tr = &tracer{}

func (t *tracer) reset(active bool) {
	t.mu.Lock()
	t.active = active
	t.events = nil
	t.lastEpoch = 0
	t.cache = map[segment.Segment][]doc{}
	t.mu.Unlock()
}

func (t *tracer) readSeg(seg segment.Segment) []doc {
	if ds, ok := t.cache[seg]; ok {
		return ds
	}
	n := seg.Count()
	ds := make([]doc, 0, n)
	for i := uint64(0); i < n; i++ {
		var acc storedAcc
		_ = seg.VisitStoredFields(i, acc.visit)
		d, ok := acc.digest()
		if !ok {
			t.corrupt++
		}
		ds = append(ds, d)
	}
	t.cache[seg] = ds
	return ds
}

// called by the writer under rootLock (kind root) / from the persister (grab, persisted)
func (t *tracer) trace(w *index.Writer, kind string, snap *index.Snapshot, x uint64) {
	t.mu.Lock()
	defer t.mu.Unlock()
	if !t.active || snap == nil {
		return
	}
	switch kind {
	case "grab":
		t.grabs++
		return
	case "persisted":
		t.acks++
		return
	case "root":
	default:
		return
	}
	rec := &rootRec{epoch: snap.VerifEpoch(), creator: snap.VerifCreator()}
	for _, ss := range snap.Segments() {
		sr := segRec{sid: ss.ID()}
		if d := ss.Deleted(); d != nil {
			sr.deleted = d.ToArray()
		}
		if sg, ok := ss.(interface{ Segment() segment.Segment }); ok {
			seg := sg.Segment()
			if p, ok := seg.(interface{ Persisted() bool }); ok {
				sr.persisted = p.Persisted()
			}
			sr.docs = t.readSeg(seg)
		}
		rec.segs = append(rec.segs, sr)
	}
	t.events = append(t.events, rec)
	t.lastEpoch = rec.epoch
}

func (t *tracer) take() []*rootRec {
	t.mu.Lock()
	defer t.mu.Unlock()
	ev := t.events
	t.events = nil
	return ev
}

func (t *tracer) epoch() uint64 {
	t.mu.Lock()
	defer t.mu.Unlock()
	return t.lastEpoch
}

// ---------------------------------------------------------------- per-case state

type caseState struct {
	w        *bluge.Writer
	dir      string
	k        int
	cfg      string
	prev     map[uint64]bool // sid -> persisted, of the last emitted root
	history  string          // for distinctness
	inflight []inflight
}

type inflight struct {
	ops  string
	seen uint64
	docs map[int]bool // bodies of the documents the batch adds
	used bool
}

var cur *caseState
var caseNo int

func closeCase(out func(string, string)) {
	if cur == nil {
		return
	}
	_ = hlib.Catch(func() string { _ = cur.w.Close(); return "" })
	emitEvents(out)
	tr.reset(false)
	if cur.dir != "" {
		_ = os.RemoveAll(cur.dir)
	}
	cur = nil
}

func openCase(line string, work string) error {
	f := strings.Fields(line)
	if len(f) < 3 {
		return fmt.Errorf("bad case line")
	}
	parts := strings.Split(f[1], "-")
	if len(parts) != 3 {
		return fmt.Errorf("bad config")
	}
	k, _ := strconv.Atoi(strings.TrimPrefix(f[2], "k="))
	caseNo++
	cs := &caseState{k: k, cfg: f[1], prev: map[uint64]bool{}}
	var cfg bluge.Config
	if parts[0] == "fs" {
		cs.dir = filepath.Join(work, "c01idx", fmt.Sprintf("case%d", caseNo))
		_ = os.RemoveAll(cs.dir)
		if err := os.MkdirAll(cs.dir, 0o755); err != nil {
			return err
		}
		cfg = bluge.DefaultConfig(cs.dir)
	} else {
		cfg = bluge.InMemoryOnlyConfig()
	}
	ic := cfg.VerifIndexConfig()
	ic.UnsafeBatch = parts[2] == "unsafe"
	ic.SegmentType = "ice"
	if parts[1] == "v2" {
		ic.SegmentVersion = 2
	} else {
		ic.SegmentVersion = 1
	}
	// shrunk merge plan so that file merges happen inside short histories
	ic.MergePlanOptions.FloorSegmentSize = 1
	ic.MergePlanOptions.MaxSegmentsPerTier = 2
	ic.MergePlanOptions.SegmentsPerMergeTask = 2
	ic.MergePlanOptions.TierGrowth = 2.0
	ic.AsyncError = func(err error) {}
	cfg = cfg.VerifWithIndexConfig(ic)
	tr.reset(true) // one writer at a time
	w, err := bluge.OpenWriter(cfg)
	if err != nil {
		tr.reset(false)
		return err
	}
	cs.w = w
	cur = cs
	return nil
}

// ---------------------------------------------------------------- batches

func parseOps(s string) (b *index.Batch, adds map[int]bool, n int, err error) {
	b = bluge.NewBatch()
	adds = map[int]bool{}
	for _, op := range strings.Fields(s) {
		if op == "-" {
			continue
		}
		p := strings.Split(op, ":")
		id, e := strconv.Atoi(p[1])
		if e != nil {
			return nil, nil, 0, e
		}
		n++
		switch p[0] {
		case "ins", "upd":
			body, e := strconv.Atoi(p[2])
			if e != nil {
				return nil, nil, 0, e
			}
			d := mkDoc(doc{id, body})
			adds[body] = true
			if p[0] == "ins" {
				b.Insert(d)
			} else {
				b.Update(bluge.Identifier(strconv.Itoa(id)), d)
			}
		case "del":
			b.Delete(bluge.Identifier(strconv.Itoa(id)))
		default:
			return nil, nil, 0, fmt.Errorf("bad op %q", op)
		}
	}
	return b, adds, n, nil
}

// turn the recorded roots into pair lines, in the order they were installed
func emitEvents(out func(string, string)) {
	for _, ev := range tr.take() {
		phys := ev.String()
		switch ev.creator {
		case "introduceSegment":
			// which in-flight batch is this? the one whose documents the new segment holds; a batch without
			// documents is never in flight together with another one
			newSid := uint64(0)
			var newDocs []doc
			for _, s := range ev.segs {
				if _, known := cur.prev[s.sid]; !known {
					newSid = s.sid
					newDocs = s.docs
				}
			}
			idx := -1
			for i := range cur.inflight {
				fl := &cur.inflight[i]
				if fl.used {
					continue
				}
				if len(newDocs) > 0 {
					if fl.docs[newDocs[0].body] {
						idx = i
						break
					}
				} else if len(fl.docs) == 0 {
					idx = i
					break
				}
			}
			if idx < 0 {
				out(fmt.Sprintf("intro %d %d seen=0 ?", ev.epoch, newSid), phys)
			} else {
				cur.inflight[idx].used = true
				out(fmt.Sprintf("intro %d %d seen=%d %s", ev.epoch, newSid, cur.inflight[idx].seen, cur.inflight[idx].ops), phys)
			}
		case "introducePersist":
			var sb strings.Builder
			fmt.Fprintf(&sb, "persist %d", ev.epoch)
			for _, s := range ev.segs {
				if was, known := cur.prev[s.sid]; known && !was && s.persisted {
					fmt.Fprintf(&sb, " %d[%s]", s.sid, docsString(s.docs, ","))
				}
			}
			out(sb.String(), phys)
		case "introduceMerge":
			out(fmt.Sprintf("merge %d %s", ev.epoch, phys), phys)
		default:
			out(fmt.Sprintf("other %d %s %s", ev.epoch, ev.creator, phys), phys)
		}
		cur.prev = map[uint64]bool{}
		for _, s := range ev.segs {
			cur.prev[s.sid] = s.persisted
		}
	}
}

func runBatches(opss []string, out func(string, string), st *hlib.Stats) {
	seen := tr.epoch()
	errs := make([]error, len(opss))
	var wg sync.WaitGroup
	for i, ops := range opss {
		b, adds, n, err := parseOps(ops)
		if err != nil {
			out("batcherr "+ops, "bad-script")
			return
		}
		if strings.TrimSpace(ops) == "" {
			ops = "-"
		}
		cur.inflight = append(cur.inflight, inflight{ops: strings.Join(strings.Fields(ops), " "), seen: seen, docs: adds})
		st.Count(fmt.Sprintf("batchsize:%s", sizeBucket(n)))
		wg.Add(1)
		go func(i int, b *index.Batch) {
			defer wg.Done()
			defer func() {
				if e := recover(); e != nil {
					errs[i] = fmt.Errorf("panic")
				}
			}()
			errs[i] = cur.w.Batch(b)
		}(i, b)
	}
	wg.Wait()
	emitEvents(out)
	for i, e := range errs {
		if e != nil {
			out("batcherr "+opss[i], "err")
		}
	}
	// every in-flight batch must have been introduced by now
	for _, fl := range cur.inflight {
		if !fl.used {
			out("lost "+fl.ops, "batch returned without an introduction")
		}
	}
	cur.inflight = nil
}

func sizeBucket(n int) string {
	switch {
	case n == 0:
		return "0"
	case n == 1:
		return "1"
	case n <= 4:
		return "2-4"
	case n <= 12:
		return "5-12"
	}
	return "13-40"
}

// ---------------------------------------------------------------- the reader's view

func readState(k int) string {
	r, err := cur.w.Reader()
	if err != nil {
		return "err:reader"
	}
	defer r.Close()
	n, err := r.Count()
	if err != nil {
		return "err:count"
	}
	collect := func(q bluge.Query) ([]doc, string) {
		it, err := r.Search(context.Background(), bluge.NewAllMatches(q))
		if err != nil {
			return nil, "err:search"
		}
		var ds []doc
		for {
			m, err := it.Next()
			if err != nil {
				return nil, "err:next"
			}
			if m == nil {
				break
			}
			var acc storedAcc
			if err := m.VisitStoredFields(acc.visit); err != nil {
				return nil, "err:stored"
			}
			d, _ := acc.digest()
			ds = append(ds, d)
		}
		sort.Slice(ds, func(i, j int) bool {
			if ds[i].id != ds[j].id {
				return ds[i].id < ds[j].id
			}
			return ds[i].body < ds[j].body
		})
		return ds, ""
	}
	all, e := collect(bluge.NewMatchAllQuery())
	if e != "" {
		return e
	}
	var sb strings.Builder
	fmt.Fprintf(&sb, "n=%d all=%s look=", n, docsString(all, ","))
	for id := 1; id <= k; id++ {
		ds, e := collect(bluge.NewTermQuery(strconv.Itoa(id)).SetField("_id"))
		if e != "" {
			return e
		}
		if id > 1 {
			sb.WriteByte(',')
		}
		bs := make([]string, len(ds))
		for i, d := range ds {
			if d.id != id {
				bs[i] = fmt.Sprintf("wrong-id-%d", d.id)
			} else {
				bs[i] = strconv.Itoa(d.body)
			}
		}
		fmt.Fprintf(&sb, "%d=%s", id, strings.Join(bs, ";"))
	}
	return sb.String()
}

// ---------------------------------------------------------------- Exec

func (h) Exec(line string, out func(string, string), st *hlib.Stats, work string) {
	w := strings.Fields(line)
	if len(w) == 0 {
		return
	}
	switch w[0] {
	case "case":
		closeCase(out) // a script cut short by shrinking may lack its `end`
		if err := openCase(line, work); err != nil {
			out(line, "err:open")
			return
		}
		st.Count("config:" + cur.cfg)
		out(line, "case")
	case "batch", "par":
		if cur == nil {
			out(line, "no-case")
			return
		}
		rest := strings.TrimSpace(line[len(w[0]):])
		opss := []string{rest}
		if w[0] == "par" {
			opss = strings.Split(rest, "|")
			for i := range opss {
				opss[i] = strings.TrimSpace(opss[i])
			}
		}
		st.Count("op:" + w[0])
		for _, ops := range opss {
			for _, op := range strings.Fields(ops) {
				st.Count("op:" + strings.SplitN(op, ":", 2)[0])
			}
		}
		runBatches(opss, out, st)
		res := hlib.Catch(func() string { return readState(cur.k) })
		out(fmt.Sprintf("read k=%d", cur.k), res)
		cur.history += "\n" + line
		st.Case(cur.cfg+cur.history, rest != "-" && rest != "")
	case "end":
		if cur == nil {
			out(line, "no-case")
			return
		}
		tr.mu.Lock()
		g, a, c := tr.grabs, tr.acks, tr.corrupt
		tr.grabs, tr.acks, tr.corrupt = 0, 0, 0
		tr.mu.Unlock()
		st.CountN("trace:grab", g)
		st.CountN("trace:persisted", a)
		st.CountN("stored-fields-corrupt", c)
		closeCase(out)
		out(line, "closed")
	default:
		out(line, "bad-op")
	}
}

// ---------------------------------------------------------------- Gen

func (h) Gen(r *hlib.Rand, tier string, scale int, emit func(string)) {
	ncases := 240 * scale
	maxBatches := 25
	if tier == "thorough" {
		ncases = 6000 * scale
	}
	dirs := []string{"mem", "fs"}
	vers := []string{"v1", "v2"}
	modes := []string{"safe", "unsafe"}
	body := 0
	nextBody := func() int { body++; return body }

	// the dedicated known-finding probe: the only generator of batches that name an id twice
	emit("case mem-v2-unsafe k=3 probe=dup")
	emit(fmt.Sprintf("batch upd:1:%d upd:1:%d", nextBody(), nextBody()))
	emit("end")
	emit("case fs-v1-safe k=3 probe=dup")
	emit(fmt.Sprintf("batch upd:2:%d", nextBody()))
	emit(fmt.Sprintf("batch upd:2:%d upd:3:%d upd:2:%d", nextBody(), nextBody(), nextBody()))
	emit("end")

	genBatch := func(k int, wantDocs bool) string {
		// one batch over ids 1..k, no id named twice
		kind := r.Weighted(90, 5, 5) // normal / empty / delete-only
		if wantDocs {
			kind = 0
		}
		if kind == 1 {
			return "-"
		}
		size := r.Weighted(30, 35, 25, 10)
		n := 0
		switch size {
		case 0:
			n = 1
		case 1:
			n = r.Range(2, 4)
		case 2:
			n = r.Range(5, 12)
		default:
			n = r.Range(13, 40)
		}
		if n > k {
			n = k
		}
		// choose n distinct ids
		ids := make([]int, k)
		for i := range ids {
			ids[i] = i + 1
		}
		for i := 0; i < n; i++ {
			j := i + r.Intn(k-i)
			ids[i], ids[j] = ids[j], ids[i]
		}
		ops := make([]string, 0, n)
		hasDoc := false
		for i := 0; i < n; i++ {
			var o int
			if kind == 2 {
				o = 2
			} else {
				o = r.Weighted(30, 40, 20)
			}
			if wantDocs && i == n-1 && !hasDoc {
				o = r.Intn(2)
			}
			switch o {
			case 0:
				ops = append(ops, fmt.Sprintf("ins:%d:%d", ids[i], nextBody()))
				hasDoc = true
			case 1:
				ops = append(ops, fmt.Sprintf("upd:%d:%d", ids[i], nextBody()))
				hasDoc = true
			default:
				ops = append(ops, fmt.Sprintf("del:%d", ids[i]))
			}
		}
		return strings.Join(ops, " ")
	}

	for c := 0; c < ncases; c++ {
		cfgName := dirs[c%2] + "-" + vers[(c/2)%2] + "-" + modes[(c/4)%2]
		k := r.Range(1, 12)
		if r.Chance(20) {
			k = r.Range(16, 48)
		}
		nb := r.Range(1, maxBatches)
		if dirs[c%2] == "fs" && modes[(c/4)%2] == "safe" && nb > 12 && tier != "thorough" {
			nb = 12 // every safe batch on the file system waits for fsyncs
		}
		body = 0
		emit(fmt.Sprintf("case %s k=%d", cfgName, k))
		for i := 0; i < nb; i++ {
			if r.Chance(12) {
				emit("par " + genBatch(k, true) + " | " + genBatch(k, true))
			} else {
				emit("batch " + genBatch(k, false))
			}
		}
		emit("end")
	}
}

func main() {
	index.SetVerifTrace(tr.trace)
	hlib.Main(h{})
}

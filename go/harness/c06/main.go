// Correspondence harness for C06: background merges and persists never change logical content.
//
// Stream `merge`: histories that concentrate deletes/updates on the segments under merge / persist, with GATES on the
// phases of an in-memory merge (mm:*), a file merge (fm:*) and a direct persist (ps:*) of the REAL writer. A gate is a
// point inside a wrapping index.Directory (Persist/Load), a wrapping segment plugin (New/Load/Merge) or the
// EventCallback where the background goroutine can be parked. When an ARMED gate is hit the whole background is
// frozen (every later gate parks too), so that the script can land batches exactly at that phase and look at the
// reader while nothing moves.
//
// Script lines
//
//	case <mem|fs>-<v1|v2>-<safe|unsafe> k=<K> mm=<MinSegmentsForInMemoryMerge> mp=<FloorSegmentSize> per=<SegmentsPerMergeTask>
//	batch <op>…            one Writer.Batch; op = ins:<id>:<body> | upd:<id>:<body> | del:<id> | "-" (empty) or SYMBOLIC,
//	                       resolved at run time against the segments under the parked merge/persist (the targets):
//	                       @one:<r> delete one live doc of a target segment      @onedel:<r> … of a target that already carries deletions
//	                       @upd:<r>:<body> update one live doc of a target       @seg:<r> delete ALL live docs of one target segment
//	                       @all delete all live docs of all targets              @segupd:<r>:<body> update all docs of one target segment
//	                       @stay:<r> delete one live doc of a NON-target segment  @stayupd:<r>:<body> update one
//	prep <op>…             like batch, but the call is HELD inside prepareSegment (at its first DocsMatchingTerms, i.e. after it
//	                       captured the root and while it computes the optimistic obsoletes) until `unprep`
//	unprep                 let the held batch go on to the introducer, wait for its introduction
//	fill n=<N> s=<seed>    up to N generated batches (updates/inserts/deletes over ids 1..K), stops when an armed gate is hit
//	arm <gate>[#n] …       (replaces the armed set) the n-th next hit of the gate parks its goroutine and freezes the background
//	await                  wait (bounded) until an armed gate was hit and the background is settled
//	release                un-freeze, release every parked goroutine (gates armed but not yet hit stay armed)
//	                       — every background step goes through a gate, so while frozen-and-settled nothing but the script's
//	                       own batches can change the root
//	quiesce                wait until the root is persisted, the merger has planned at it and nothing moves
//	read                   the reader's view (only ever taken while frozen-and-settled or quiescent)
//	hold / reread          keep a reader open / read it again later (it must still show its own epoch)
//	end
//
// Pair lines (model op ## implementation result), one per root the introducer installed (trace hook, in order), per
// snapshot file written, per reader view:
//
//	intro <epoch> <newSid|0> seen=<epoch> <ops>                                  ## <physical root>
//	persist <epoch> grab=<epoch> <sid>[docs]…                                    ## <physical root>
//	merge <epoch> id=<newSid> <mem|file> in=<sid>{drops}/… tab=<n,n,x>/… new=[docs]  ## <physical root>
//	snap <epoch> <creator> newid=<sid|0>                                         ## <physical snapshot written>
//	read e=<epoch> k=<K> [held]                                                  ## n=<Count> all=<id.body,…> look=<id>=<body;…>,…
//	pastroot <epoch>                                                             ## <physical root of a held reader, as it looks NOW> (at `reread`)
//
// physical root = e<epoch> then per segment <sid><m|p>[<id>.<body>,…]{<deleted doc numbers>}.
package main

import (
	"bufio"
	"bytes"
	"context"
	"fmt"
	"io"
	"os"
	"os/exec"
	"path/filepath"
	"reflect"
	"sort"
	"strconv"
	"strings"
	"sync"
	"time"

	"github.com/RoaringBitmap/roaring"
	"github.com/blugelabs/bluge"
	"github.com/blugelabs/bluge/index"
	segment "github.com/blugelabs/bluge_segment_api"
	iceV1 "github.com/blugelabs/ice"
	iceV2 "github.com/blugelabs/ice/v2"

	"verif/harness/hlib"
)

type h struct{}

// sink is what the executing side reports to; *hlib.Stats in process, a line printer in the child process
type sink interface {
	Count(key string)
	CountN(key string, n int)
	Case(key string, nontrivial bool)
}

func (h) Rule() string {
	return "merge-window histories over an id space of 4–12 ids: a free-running prefix of 0–4 batches, optionally a stall of the " +
		"persister so that in-memory segments pile up, then one or two GATED phases of an in-memory merge (mm:planned/written/" +
		"loaded/introduced/snapwritten), a file merge (fm:planned/written/loaded/introstart/introduced) or a direct persist " +
		"(ps:write/segwritten/loaded/swapped/snapwritten) at each of which 1–2 batches land that delete/update documents of exactly " +
		"the segments under merge/persist (one doc, one doc of a segment that already carries deletions, all docs of one segment, " +
		"all docs of all segments, a doc of a staying segment), reader views at every phase and at quiescence, readers held open at " +
		"the gates and before the release and read again at the end together with the physical root they hold; every fourth case " +
		"holds a batch that names documents of the merging segments INSIDE prepareSegment (after it captured the root) while the " +
		"parked file / in-memory merge is introduced, then lets it be introduced; configurations " +
		"cycle through {mem,fs}x{ice v1,v2}x{safe,unsafe}x MinSegmentsForInMemoryMerge {1,2,3,100} x merge-plan floor {1,4,100} x " +
		"segments per merge task {2,3} (tier 2; floor 100 merges whenever two persisted segments exist); thorough enumerates every " +
		"(gate, batch kind) and every ordered pair of gates of one scenario, quick takes a seeded sample; an evaluation is one " +
		"reader view, non-trivial when at least one batch of its case landed while a goroutine was parked at a gate"
}

// ---------------------------------------------------------------- documents (as in go/harness/c01)

type doc struct {
	id   int
	body int
}

func words(n int) string {
	w := []string{"alpha", "beta", "gamma", "delta", "epsilon", "zeta", "eta"}
	var sb strings.Builder
	for i := 0; i < 1+n%5; i++ {
		if i > 0 {
			sb.WriteByte(' ')
		}
		sb.WriteString(w[(n+i*3)%len(w)])
	}
	return sb.String()
}

// expected stored fields (besides _id) of the document with digest `body`; four shapes
func storedOf(body int) map[string]string {
	m := map[string]string{"body": strconv.Itoa(body)}
	switch body % 4 {
	case 1:
		m["t"] = words(body)
	case 2:
		m["tag"] = fmt.Sprintf("tag%d", body%7)
	case 3:
		m["blob"] = strings.Repeat(fmt.Sprintf("%d;", body), 1+body%9)
	}
	return m
}

func mkDoc(d doc) *bluge.Document {
	bd := bluge.NewDocument(strconv.Itoa(d.id))
	bd.AddField(bluge.NewKeywordField("body", strconv.Itoa(d.body)).StoreValue())
	switch d.body % 4 {
	case 1:
		bd.AddField(bluge.NewTextField("t", words(d.body)).StoreValue())
		bd.AddField(bluge.NewNumericField("num", float64(d.body)))
	case 2:
		bd.AddField(bluge.NewKeywordField("tag", fmt.Sprintf("tag%d", d.body%7)).StoreValue().Aggregatable())
		bd.AddField(bluge.NewTextField("u", words(d.body+1))) // indexed, not stored
	case 3:
		bd.AddField(bluge.NewStoredOnlyField("blob", []byte(strings.Repeat(fmt.Sprintf("%d;", d.body), 1+d.body%9))))
	}
	return bd
}

type storedAcc struct{ m map[string]string }

func (a *storedAcc) visit(field string, value []byte) bool {
	if a.m == nil {
		a.m = map[string]string{}
	}
	if _, dup := a.m[field]; dup {
		a.m[field] += "\x00dup"
	} else {
		a.m[field] = string(value)
	}
	return true
}

// a document whose stored fields do not belong together is printed with body corruptBase+<body field>
const corruptBase = 1000000000

func (a *storedAcc) digest() (doc, bool) {
	id, err1 := strconv.Atoi(a.m["_id"])
	body, err2 := strconv.Atoi(a.m["body"])
	if err1 != nil || err2 != nil {
		return doc{0, corruptBase}, false
	}
	want := storedOf(body)
	if len(a.m) != len(want)+1 {
		return doc{id, corruptBase + body}, false
	}
	for k, v := range want {
		if a.m[k] != v {
			return doc{id, corruptBase + body}, false
		}
	}
	return doc{id, body}, true
}

func docsString(ds []doc, sep string) string {
	if len(ds) == 0 {
		return ""
	}
	parts := make([]string, len(ds))
	for i, d := range ds {
		parts[i] = fmt.Sprintf("%d.%d", d.id, d.body)
	}
	return strings.Join(parts, sep)
}

// readAllDocs reads the stored fields of every document of a segment object nobody else has yet (called from the
// plugin wrappers right after New/Load, on the goroutine that created the object)
func readAllDocs(seg segment.Segment) (ds []doc) {
	defer func() {
		if e := recover(); e != nil {
			ds = append(ds, doc{0, corruptBase + 1})
		}
	}()
	n := seg.Count()
	ds = make([]doc, 0, n)
	for i := uint64(0); i < n; i++ {
		var acc storedAcc
		if err := seg.VisitStoredFields(i, acc.visit); err != nil {
			ds = append(ds, doc{0, corruptBase + 2})
			continue
		}
		d, _ := acc.digest()
		ds = append(ds, d)
	}
	return ds
}

// ---------------------------------------------------------------- the world: gates, trace, registry (one per case)

type parkedG struct {
	gate    string
	ch      chan struct{}
	armed   bool
	targets []uint64
}

type segInfo struct {
	sid       uint64
	persisted bool
}

type mergeRec struct {
	seq     int
	mem     bool
	inputs  []segment.Segment
	sids    []uint64
	drops   [][]uint32
	newID   uint64
	tables  [][]uint64
	newDocs []doc
	loaded  bool
	written bool
	matched bool
}

func (m *mergeRec) pre() string {
	if m.mem {
		return "mm"
	}
	return "fm"
}

type segRec struct {
	sid       uint64
	persisted bool
	inner     segment.Segment
	deleted   []uint32
}

type event struct {
	kind    string // root | snap
	epoch   uint64
	creator string
	segs    []segRec
	grab    uint64 // root events: epoch of the last snapshot the persister grabbed
}

type world struct {
	active    bool
	passAll   bool
	recording bool
	armed     map[string]int
	frozen    bool
	armedHit  bool
	armedGate string
	parked    []*parkedG
	busy      int
	activity  uint64
	gateCount map[string]int

	events     []*event
	lastEpoch  uint64
	lastRoot   *event
	lastGrab   uint64
	introCount int
	reg        map[segment.Segment]segInfo
	segDocs    map[segment.Segment][]doc
	dataID     map[*segment.Data]uint64
	merges     []*mergeRec
	mergeSeq   int
	prepArmed  bool          // the next DocsMatchingTerms call (prepareSegment of the next batch) parks
	prepCh     chan struct{} // the batch parked in prepareSegment
	prepSeen   uint64        // epoch of the root that batch captured
	round      []uint64      // segment ids persisted directly since the last snapshot file
	idx        *index.Writer
}

var mu sync.Mutex
var W = &world{}

func newWorld() *world {
	return &world{active: true, recording: true, armed: map[string]int{}, gateCount: map[string]int{},
		reg: map[segment.Segment]segInfo{}, segDocs: map[segment.Segment][]doc{}, dataID: map[*segment.Data]uint64{}}
}

// gate: a background goroutine reached the named point
func gate(name string, targets []uint64) {
	mu.Lock()
	w := W
	w.activity++
	if !w.active || w.passAll {
		mu.Unlock()
		return
	}
	w.gateCount[name]++
	blk, isArmed := false, false
	if n, ok := w.armed[name]; ok {
		if n <= 1 {
			delete(w.armed, name)
			blk, isArmed = true, true
			w.frozen, w.armedHit, w.armedGate = true, true, name
		} else {
			w.armed[name] = n - 1
		}
	}
	if w.frozen {
		blk = true
	}
	if !blk {
		mu.Unlock()
		return
	}
	p := &parkedG{gate: name, ch: make(chan struct{}), armed: isArmed, targets: targets}
	w.parked = append(w.parked, p)
	mu.Unlock()
	<-p.ch
	mu.Lock()
	w.activity++
	mu.Unlock()
}

func enter() { mu.Lock(); W.busy++; W.activity++; mu.Unlock() }
func exit()  { mu.Lock(); W.busy--; W.activity++; mu.Unlock() }

func releaseAll() {
	mu.Lock()
	w := W
	w.frozen, w.armedHit, w.armedGate = false, false, ""
	ps := w.parked
	w.parked = nil
	w.activity++
	mu.Unlock()
	for _, p := range ps {
		close(p.ch)
	}
}

// the inner segment.Segment of index's segmentWrapper (exported embedded field of an unexported struct)
func innerOf(seg segment.Segment) segment.Segment {
	v := reflect.ValueOf(seg)
	if v.Kind() == reflect.Ptr && !v.IsNil() && v.Elem().Kind() == reflect.Struct {
		f := v.Elem().FieldByName("Segment")
		if f.IsValid() && f.CanInterface() {
			if s, ok := f.Interface().(segment.Segment); ok && s != nil {
				return s
			}
		}
	}
	return seg
}

// trace hook: called by the writer under rootLock (kind root) / from the persister (grab, persisted). Never blocks.
func trace(iw *index.Writer, kind string, snap *index.Snapshot, x uint64) {
	mu.Lock()
	defer mu.Unlock()
	w := W
	if !w.active || snap == nil {
		return
	}
	w.activity++
	w.idx = iw
	switch kind {
	case "grab":
		w.lastGrab = snap.VerifEpoch()
		return
	case "root":
	default:
		return
	}
	if !w.recording {
		return
	}
	ev := snapEvent(w, "root", snap)
	ev.grab = w.lastGrab
	w.events = append(w.events, ev)
	w.lastEpoch = ev.epoch
	w.lastRoot = ev
	if ev.creator == "introduceSegment" {
		w.introCount++
	}
}

// caller holds mu
func snapEvent(w *world, kind string, snap *index.Snapshot) *event {
	ev := &event{kind: kind, epoch: snap.VerifEpoch(), creator: snap.VerifCreator()}
	for _, ss := range snap.Segments() {
		sr := segRec{sid: ss.ID()}
		if d := ss.Deleted(); d != nil {
			sr.deleted = d.ToArray()
		}
		if sg, ok := ss.(interface{ Segment() segment.Segment }); ok {
			wr := sg.Segment()
			if p, ok := wr.(interface{ Persisted() bool }); ok {
				sr.persisted = p.Persisted()
			}
			sr.inner = innerOf(wr)
			if kind == "root" {
				w.reg[sr.inner] = segInfo{sid: sr.sid, persisted: sr.persisted}
			}
		}
		ev.segs = append(ev.segs, sr)
	}
	return ev
}

// ---------------------------------------------------------------- wrapping segment plugin

type gmerger struct {
	segment.Merger
	rec *mergeRec
}

func (g *gmerger) DocumentNumbers() [][]uint64 {
	t := g.Merger.DocumentNumbers()
	cp := make([][]uint64, len(t))
	for i := range t {
		cp[i] = append([]uint64(nil), t[i]...)
	}
	mu.Lock()
	g.rec.tables = cp
	mu.Unlock()
	return t
}

// gseg wraps every segment object the plugin hands to the writer: DocsMatchingTerms is the only point of a batch
// between prepareSegment's snapshot of the root and the hand-off to the introducer, so that is where a batch is HELD
// ("prepared before the merge is introduced, introduced after").
type gseg struct{ segment.Segment }

func (g *gseg) DocsMatchingTerms(terms []segment.Term) (*roaring.Bitmap, error) {
	prepGate()
	return g.Segment.DocsMatchingTerms(terms)
}

func unwrapSegs(segs []segment.Segment) []segment.Segment {
	out := make([]segment.Segment, len(segs))
	for i, s := range segs {
		if g, ok := s.(*gseg); ok {
			out[i] = g.Segment
		} else {
			out[i] = s
		}
	}
	return out
}

// prepGate: when the script armed a hold, the first DocsMatchingTerms call after that (the script issues batches one
// at a time and every earlier batch has been introduced, so it is prepareSegment's call for the held batch) parks.
func prepGate() {
	mu.Lock()
	w := W
	if !w.active || w.passAll || !w.prepArmed {
		mu.Unlock()
		return
	}
	w.prepArmed = false
	w.prepSeen = w.lastEpoch // the root prepareSegment has just captured
	ch := make(chan struct{})
	w.prepCh = ch
	w.activity++
	mu.Unlock()
	<-ch
	mu.Lock()
	w.activity++
	mu.Unlock()
}

func releasePrep() bool {
	mu.Lock()
	w := W
	w.prepArmed = false
	ch := w.prepCh
	w.prepCh = nil
	mu.Unlock()
	if ch != nil {
		close(ch)
		return true
	}
	return false
}

func wrapPlugin(ver int) *index.SegmentPlugin {
	newF, loadF, mergeF := iceV1.New, iceV1.Load, iceV1.Merge
	typ, version := iceV1.Type, uint32(iceV1.Version)
	if ver == 2 {
		newF, loadF, mergeF = iceV2.New, iceV2.Load, iceV2.Merge
		typ, version = iceV2.Type, uint32(iceV2.Version)
	}
	return &index.SegmentPlugin{
		Type:    typ,
		Version: version,
		New: func(results []segment.Document, normCalc func(string, int) float32) (segment.Segment, uint64, error) {
			raw, n, err := newF(results, normCalc)
			if err != nil || raw == nil {
				return raw, n, err
			}
			ds := readAllDocs(raw)
			seg := &gseg{Segment: raw}
			mu.Lock()
			W.segDocs[seg] = ds
			mu.Unlock()
			return seg, n, nil
		},
		Load: func(data *segment.Data) (segment.Segment, error) {
			raw, err := loadF(data)
			if err != nil || raw == nil {
				return raw, err
			}
			ds := readAllDocs(raw)
			seg := &gseg{Segment: raw}
			mu.Lock()
			w := W
			w.segDocs[seg] = ds
			id, known := w.dataID[data]
			delete(w.dataID, data)
			var rec *mergeRec
			if known {
				for _, m := range w.merges {
					if m.newID == id && !m.loaded {
						rec = m
					}
				}
				if rec != nil {
					rec.loaded = true
					rec.newDocs = ds
				}
			}
			mu.Unlock()
			if rec != nil {
				gate(rec.pre()+":loaded", rec.sids)
			} else if known {
				gate("ps:loaded", []uint64{id})
			}
			return seg, nil
		},
		Merge: func(segs []segment.Segment, drops []*roaring.Bitmap, bufSize int) segment.Merger {
			rec := &mergeRec{inputs: append([]segment.Segment(nil), segs...), mem: true}
			mu.Lock()
			w := W
			w.mergeSeq++
			rec.seq = w.mergeSeq
			for i, s := range segs {
				inf := w.reg[s]
				rec.sids = append(rec.sids, inf.sid)
				if inf.persisted {
					rec.mem = false
				}
				var d []uint32
				if i < len(drops) && drops[i] != nil {
					d = drops[i].ToArray()
				}
				rec.drops = append(rec.drops, d)
			}
			w.merges = append(w.merges, rec)
			mu.Unlock()
			gate(rec.pre()+":planned", rec.sids)
			return &gmerger{Merger: mergeF(unwrapSegs(segs), drops, bufSize), rec: rec}
		},
	}
}

// ---------------------------------------------------------------- wrapping directory

type gdir struct{ inner index.Directory }

func (d *gdir) Setup(readOnly bool) error           { return d.inner.Setup(readOnly) }
func (d *gdir) List(kind string) ([]uint64, error)  { return d.inner.List(kind) }
func (d *gdir) Remove(kind string, id uint64) error { return d.inner.Remove(kind, id) }
func (d *gdir) Stats() (uint64, uint64)             { return d.inner.Stats() }
func (d *gdir) Sync() error                         { return d.inner.Sync() }
func (d *gdir) Lock() error                         { return d.inner.Lock() }
func (d *gdir) Unlock() error                       { return d.inner.Unlock() }

func (d *gdir) Load(kind string, id uint64) (*segment.Data, io.Closer, error) {
	enter()
	data, closer, err := d.inner.Load(kind, id)
	exit()
	if err == nil && data != nil && kind == index.ItemKindSegment {
		mu.Lock()
		W.dataID[data] = id
		mu.Unlock()
	}
	return data, closer, err
}

func (d *gdir) Persist(kind string, id uint64, wt index.WriterTo, closeCh chan struct{}) error {
	if kind == index.ItemKindSegment {
		if gm, ok := wt.(*gmerger); ok {
			rec := gm.rec
			mu.Lock()
			rec.newID = id
			mu.Unlock()
			enter()
			err := d.inner.Persist(kind, id, wt, closeCh)
			exit()
			mu.Lock()
			rec.written = err == nil
			mu.Unlock()
			gate(rec.pre()+":written", rec.sids)
			return err
		}
		gate("ps:write", []uint64{id})
		enter()
		err := d.inner.Persist(kind, id, wt, closeCh)
		exit()
		mu.Lock()
		W.round = append(W.round, id)
		mu.Unlock()
		gate("ps:segwritten", []uint64{id})
		return err
	}
	// a snapshot file
	pre := "snp"
	var targets []uint64
	var ev *event
	if snap, ok := wt.(*index.Snapshot); ok && snap != nil {
		mu.Lock()
		w := W
		ev = snapEvent(w, "snap", snap)
		if ev.creator == "persistSnapshotMaybeMerge" {
			pre = "mm"
			// the merged segment is the last one of the equiv snapshot
			if n := len(ev.segs); n > 0 {
				targets = []uint64{ev.segs[n-1].sid}
			}
		} else if len(w.round) > 0 {
			pre = "ps"
			targets = append([]uint64(nil), w.round...)
		}
		w.round = nil
		mu.Unlock()
	}
	switch pre {
	case "mm":
		gate("mm:introduced", targets)
	case "ps":
		gate("ps:swapped", targets)
	default:
		gate("snp:write", nil)
	}
	enter()
	err := d.inner.Persist(kind, id, wt, closeCh)
	exit()
	if ev != nil && err == nil {
		mu.Lock()
		if W.recording {
			W.events = append(W.events, ev)
		}
		mu.Unlock()
	}
	switch pre {
	case "mm":
		gate("mm:snapwritten", targets)
	case "ps":
		gate("ps:snapwritten", targets)
	default:
		gate("snp:written", nil)
	}
	return err
}

func onEvent(e index.Event) {
	switch e.Kind {
	case index.EventKindMergeTaskIntroductionStart:
		gate("fm:introstart", lastFileMergeTargets(false))
	case index.EventKindMergeTaskIntroduction:
		gate("fm:introduced", lastFileMergeTargets(true))
	case index.EventKindPersisterProgress:
		gate("p:progress", nil)
	case index.EventKindMergerProgress:
		gate("m:progress", nil)
	}
}

// the inputs of the latest file merge (before its introduction) / its merged segment (after)
func lastFileMergeTargets(after bool) []uint64 {
	mu.Lock()
	defer mu.Unlock()
	for i := len(W.merges) - 1; i >= 0; i-- {
		m := W.merges[i]
		if !m.mem {
			if after {
				return []uint64{m.newID}
			}
			return m.sids
		}
	}
	return nil
}

// ---------------------------------------------------------------- per-case state

type pendingBatch struct {
	ops  string
	seen uint64
	done chan struct{}
	err  error
}

type heldReader struct {
	r     *bluge.Reader
	epoch uint64
	snap  *index.Snapshot // the same root at index level (a reference is held), for `pastroot`
}

type caseState struct {
	w          *bluge.Writer
	dir        string
	k          int
	cfg        string
	prev       map[uint64]bool // sid -> persisted, of the last emitted root
	prevEv     *event
	history    string
	queue      []*pendingBatch // batches issued, in order, whose introduction has not been emitted yet
	all        []*pendingBatch
	held       []heldReader
	window     bool          // a batch has landed while a goroutine was parked
	prepPB     *pendingBatch // the batch held in prepareSegment
	prepBefore int
	body       int
}

var cur *caseState
var workDir string
var caseNo int

func epoch() uint64 {
	mu.Lock()
	defer mu.Unlock()
	return W.lastEpoch
}

func openCase(line string, work string) error {
	f := strings.Fields(line)
	if len(f) < 3 {
		return fmt.Errorf("bad case line")
	}
	parts := strings.Split(f[1], "-")
	if len(parts) != 3 {
		return fmt.Errorf("bad config")
	}
	k, mm, floor, per := 6, 2, 1, 2
	for _, w := range f[2:] {
		if strings.HasPrefix(w, "mp=") {
			floor, _ = strconv.Atoi(w[3:])
		}
		if strings.HasPrefix(w, "per=") {
			per, _ = strconv.Atoi(w[4:])
		}
		if strings.HasPrefix(w, "k=") {
			k, _ = strconv.Atoi(w[2:])
		}
		if strings.HasPrefix(w, "mm=") {
			mm, _ = strconv.Atoi(w[3:])
		}
	}
	caseNo++
	cs := &caseState{k: k, cfg: f[1], prev: map[uint64]bool{}, body: 100000}
	var inner index.Directory
	if parts[0] == "fs" {
		cs.dir = filepath.Join(work, "c06idx", fmt.Sprintf("case%d_%d", os.Getpid(), caseNo))
		_ = os.RemoveAll(cs.dir)
		if err := os.MkdirAll(cs.dir, 0o755); err != nil {
			return err
		}
		inner = index.NewFileSystemDirectory(cs.dir)
	} else {
		inner = index.NewInMemoryDirectory()
	}
	cfg := bluge.InMemoryOnlyConfig()
	ic := cfg.VerifIndexConfig()
	ic.DirectoryFunc = func() index.Directory { return &gdir{inner: inner} }
	ic.UnsafeBatch = parts[2] == "unsafe"
	ver := 1
	if parts[1] == "v2" {
		ver = 2
	}
	pl := wrapPlugin(ver)
	ic = ic.WithSegmentPlugin(pl)
	ic.SegmentType = pl.Type
	ic.SegmentVersion = pl.Version
	ic.MinSegmentsForInMemoryMerge = mm
	ic.MergePlanOptions.FloorSegmentSize = int64(floor)
	ic.MergePlanOptions.MaxSegmentsPerTier = 2
	ic.MergePlanOptions.SegmentsPerMergeTask = per
	ic.MergePlanOptions.TierGrowth = 2.0
	ic.AsyncError = func(err error) {}
	ic.EventCallback = onEvent
	cfg = cfg.VerifWithIndexConfig(ic)
	mu.Lock()
	W = newWorld()
	mu.Unlock()
	w, err := bluge.OpenWriter(cfg)
	if err != nil {
		mu.Lock()
		W.active = false
		mu.Unlock()
		return err
	}
	cs.w = w
	cur = cs
	return nil
}

func closeCase(out func(string, string), st sink) {
	if cur == nil {
		return
	}
	finishPrep(out, st)
	releaseAll()
	mu.Lock()
	W.armed = map[string]int{}
	mu.Unlock()
	waitBatches(3 * time.Second)
	emitEvents(out)
	for _, hr := range cur.held {
		_ = hr.r.Close()
		if hr.snap != nil {
			_ = hr.snap.Close()
		}
	}
	mu.Lock()
	W.recording = false
	W.passAll = true
	for g, n := range W.gateCount {
		st.CountN("gate-hit:"+g, n)
	}
	mu.Unlock()
	releaseAll()
	_ = hlib.Catch(func() string { _ = cur.w.Close(); return "" })
	mu.Lock()
	W.active = false
	mu.Unlock()
	if cur.dir != "" {
		_ = os.RemoveAll(cur.dir)
	}
	cur = nil
}

func waitBatches(max time.Duration) bool {
	deadline := time.Now().Add(max)
	for _, p := range cur.all {
		select {
		case <-p.done:
		case <-time.After(time.Until(deadline)):
			return false
		}
	}
	cur.all = nil
	return true
}

// ---------------------------------------------------------------- waiting

// settle: the background is parked or idle and nothing has moved for `quiet`
func settle(quiet, max time.Duration) bool {
	deadline := time.Now().Add(max)
	mu.Lock()
	last := W.activity
	mu.Unlock()
	since := time.Now()
	for {
		time.Sleep(time.Millisecond)
		mu.Lock()
		act, busy := W.activity, W.busy
		mu.Unlock()
		now := time.Now()
		if act != last {
			last, since = act, now
		}
		if busy == 0 && now.Sub(since) >= quiet {
			return true
		}
		if now.After(deadline) {
			return false
		}
	}
}

func await(max time.Duration) (string, bool) {
	deadline := time.Now().Add(max)
	for {
		mu.Lock()
		hit, g := W.armedHit, W.armedGate
		mu.Unlock()
		if hit {
			settle(8*time.Millisecond, 2*time.Second)
			return g, true
		}
		if time.Now().After(deadline) {
			return "", false
		}
		time.Sleep(time.Millisecond)
	}
}

// quiesce: root persisted, merger has planned at it (or nothing has moved for a long while), nothing parked
func quiesce(max time.Duration, needMerged bool) bool {
	deadline := time.Now().Add(max)
	mu.Lock()
	last := W.activity
	mu.Unlock()
	since := time.Now()
	for {
		time.Sleep(time.Millisecond)
		mu.Lock()
		act, busy, np, idx, le := W.activity, W.busy, len(W.parked), W.idx, W.lastEpoch
		mu.Unlock()
		now := time.Now()
		if act != last {
			last, since = act, now
		}
		if np > 0 {
			return false // something got parked meanwhile: the world is frozen, not quiescent
		}
		ok := busy == 0
		merged := true
		if idx != nil {
			s := idx.Stats()
			ok = ok && s.CurRootEpoch == s.LastPersistedEpoch && s.CurRootEpoch == le
			merged = s.LastMergedEpoch == s.CurRootEpoch
		}
		if ok {
			for _, p := range cur.all {
				select {
				case <-p.done:
				default:
					ok = false
				}
			}
		}
		quiet := now.Sub(since)
		if ok && ((merged || !needMerged) && quiet >= 6*time.Millisecond || quiet >= lagQuiet()) {
			return true
		}
		if now.After(deadline) {
			return false
		}
	}
}

// the merger plans lazily (its watcher may reach the persister after the persist it waits for): when the root is
// persisted and nothing at all has moved for this long, the merger is idle
func lagQuiet() time.Duration {
	if cur != nil && strings.Contains(cur.cfg, "-v2-") {
		return 60 * time.Millisecond
	}
	return 20 * time.Millisecond
}

func frozenNow() bool {
	mu.Lock()
	defer mu.Unlock()
	return W.frozen || len(W.parked) > 0
}

// a safe point for looking at stored fields: frozen and settled, or quiescent
func safePoint(st sink) {
	if frozenNow() {
		if !settle(8*time.Millisecond, 2*time.Second) {
			st.Count("settle-timeout")
		}
		return
	}
	if !quiesce(6*time.Second, true) {
		st.Count("quiesce-timeout")
	}
}

// ---------------------------------------------------------------- batches

func parseOps(s string) (b *index.Batch, n int, err error) {
	b = bluge.NewBatch()
	for _, op := range strings.Fields(s) {
		if op == "-" {
			continue
		}
		p := strings.Split(op, ":")
		if len(p) < 2 {
			return nil, 0, fmt.Errorf("bad op %q", op)
		}
		id, e := strconv.Atoi(p[1])
		if e != nil {
			return nil, 0, e
		}
		n++
		switch p[0] {
		case "ins", "upd":
			if len(p) < 3 {
				return nil, 0, fmt.Errorf("bad op %q", op)
			}
			body, e := strconv.Atoi(p[2])
			if e != nil {
				return nil, 0, e
			}
			d := mkDoc(doc{id, body})
			if p[0] == "ins" {
				b.Insert(d)
			} else {
				b.Update(bluge.Identifier(strconv.Itoa(id)), d)
			}
		case "del":
			b.Delete(bluge.Identifier(strconv.Itoa(id)))
		default:
			return nil, 0, fmt.Errorf("bad op %q", op)
		}
	}
	return b, n, nil
}

type liveSeg struct {
	sid     uint64
	live    []doc
	hasDels bool
}

// live documents per segment of the current root
func currentLive() []liveSeg {
	mu.Lock()
	defer mu.Unlock()
	var rv []liveSeg
	if W.lastRoot == nil {
		return nil
	}
	for _, s := range W.lastRoot.segs {
		ls := liveSeg{sid: s.sid, hasDels: len(s.deleted) > 0}
		del := map[uint32]bool{}
		for _, x := range s.deleted {
			del[x] = true
		}
		for i, d := range W.segDocs[s.inner] {
			if !del[uint32(i)] {
				ls.live = append(ls.live, d)
			}
		}
		rv = append(rv, ls)
	}
	return rv
}

func currentTargets() []uint64 {
	mu.Lock()
	defer mu.Unlock()
	var t []uint64
	for _, p := range W.parked {
		if p.armed {
			t = append(t, p.targets...)
		}
	}
	if len(t) == 0 {
		for _, p := range W.parked {
			t = append(t, p.targets...)
		}
	}
	return t
}

// resolve symbolic ops against the segments under the parked merge/persist
func resolveOps(ops string, st sink) string {
	if !strings.Contains(ops, "@") {
		return ops
	}
	segs := currentLive()
	tset := map[uint64]bool{}
	for _, t := range currentTargets() {
		tset[t] = true
	}
	if len(tset) == 0 && len(segs) > 1 {
		// nothing parked: the oldest segments play the part
		for _, s := range segs[:len(segs)-1] {
			tset[s.sid] = true
		}
		st.Count("sym-without-parked-target")
	}
	var tg, stay []liveSeg
	for _, s := range segs {
		if len(s.live) == 0 {
			continue
		}
		if tset[s.sid] {
			tg = append(tg, s)
		} else {
			stay = append(stay, s)
		}
	}
	used := map[int]bool{}
	var outOps []string
	add := func(op string, id int) {
		if used[id] {
			return
		}
		used[id] = true
		outOps = append(outOps, op)
	}
	pick := func(ss []liveSeg, r int) (doc, bool) {
		var all []doc
		for _, s := range ss {
			all = append(all, s.live...)
		}
		if len(all) == 0 {
			return doc{}, false
		}
		return all[r%len(all)], true
	}
	for _, op := range strings.Fields(ops) {
		if !strings.HasPrefix(op, "@") {
			p := strings.Split(op, ":")
			if len(p) >= 2 {
				if id, e := strconv.Atoi(p[1]); e == nil {
					add(op, id)
					continue
				}
			}
			outOps = append(outOps, op)
			continue
		}
		p := strings.Split(op, ":")
		r, body := 0, 0
		if len(p) > 1 {
			r, _ = strconv.Atoi(p[1])
		}
		if len(p) > 2 {
			body, _ = strconv.Atoi(p[2])
		}
		st.Count("sym:" + p[0])
		resolved := false
		switch p[0] {
		case "@one":
			if d, ok := pick(tg, r); ok {
				add(fmt.Sprintf("del:%d", d.id), d.id)
				resolved = true
			}
		case "@onedel":
			var wd []liveSeg
			for _, s := range tg {
				if s.hasDels {
					wd = append(wd, s)
				}
			}
			if len(wd) == 0 {
				wd = tg
			} else {
				st.Count("sym:@onedel-on-segment-with-deletions")
			}
			if d, ok := pick(wd, r); ok {
				add(fmt.Sprintf("del:%d", d.id), d.id)
				resolved = true
			}
		case "@upd":
			if d, ok := pick(tg, r); ok {
				add(fmt.Sprintf("upd:%d:%d", d.id, body), d.id)
				resolved = true
			}
		case "@seg", "@segupd":
			if len(tg) > 0 {
				s := tg[r%len(tg)]
				for i, d := range s.live {
					if p[0] == "@seg" {
						add(fmt.Sprintf("del:%d", d.id), d.id)
					} else {
						add(fmt.Sprintf("upd:%d:%d", d.id, body+i), d.id)
					}
				}
				resolved = true
			}
		case "@all":
			for _, s := range tg {
				for _, d := range s.live {
					add(fmt.Sprintf("del:%d", d.id), d.id)
					resolved = true
				}
			}
		case "@stay":
			if d, ok := pick(stay, r); ok {
				add(fmt.Sprintf("del:%d", d.id), d.id)
				resolved = true
			}
		case "@stayupd":
			if d, ok := pick(stay, r); ok {
				add(fmt.Sprintf("upd:%d:%d", d.id, body), d.id)
				resolved = true
			}
		}
		if !resolved {
			st.Count("sym-unresolved:" + p[0])
		}
	}
	if len(outOps) == 0 {
		return "-"
	}
	return strings.Join(outOps, " ")
}

// issue one batch and wait until the introducer has installed its root
func issueBatch(ops string, out func(string, string), st sink) bool {
	pb, before, ok := startBatch(ops, false, out, st)
	if !ok {
		return false
	}
	return waitIntro(pb, before, out)
}

// startBatch resolves and starts one Writer.Batch call on its own goroutine. With hold, the call parks in
// prepareSegment (first DocsMatchingTerms, i.e. after it captured the root) until `unprep`.
func startBatch(ops string, hold bool, out func(string, string), st sink) (*pendingBatch, int, bool) {
	ops = resolveOps(ops, st)
	b, _, err := parseOps(ops)
	if err != nil {
		out("batcherr "+ops, "bad-script")
		return nil, 0, false
	}
	if strings.TrimSpace(ops) == "" {
		ops = "-"
	}
	mu.Lock()
	before := W.introCount
	np := len(W.parked)
	seen := W.lastEpoch
	g := W.armedGate
	if hold {
		W.prepArmed = true
	}
	mu.Unlock()
	if np > 0 {
		cur.window = true
		st.Count("window-batch-at:" + g)
	}
	pb := &pendingBatch{ops: strings.Join(strings.Fields(ops), " "), seen: seen, done: make(chan struct{})}
	cur.queue = append(cur.queue, pb)
	cur.all = append(cur.all, pb)
	w := cur.w
	go func() {
		defer close(pb.done)
		defer func() {
			if e := recover(); e != nil {
				pb.err = fmt.Errorf("panic")
			}
		}()
		pb.err = w.Batch(b)
	}()
	return pb, before, true
}

func waitIntro(pb *pendingBatch, before int, out func(string, string)) bool {
	deadline := time.Now().Add(8 * time.Second)
	for {
		mu.Lock()
		c := W.introCount
		mu.Unlock()
		if c > before {
			return true
		}
		select {
		case <-pb.done:
			mu.Lock()
			c = W.introCount
			mu.Unlock()
			if c > before {
				return true
			}
			out("batcherr "+pb.ops, "err")
			return false
		default:
		}
		if time.Now().After(deadline) {
			out("batcherr "+pb.ops, "not-introduced")
			return false
		}
		time.Sleep(200 * time.Microsecond)
	}
}

// prep: start a batch and hold it between prepareSegment's snapshot of the root and the hand-off to the introducer
func prepBatch(ops string, out func(string, string), st sink) {
	finishPrep(out, st) // at most one held batch
	pb, before, ok := startBatch(ops, true, out, st)
	if !ok {
		mu.Lock()
		W.prepArmed = false
		mu.Unlock()
		return
	}
	deadline := time.Now().Add(time.Second)
	for {
		mu.Lock()
		held := W.prepCh != nil
		c := W.introCount
		if held {
			pb.seen = W.prepSeen
		}
		mu.Unlock()
		if held {
			cur.prepPB, cur.prepBefore = pb, before
			st.Count("prep:held")
			return
		}
		if c > before || time.Now().After(deadline) {
			// the root had no segment to look ids up in (or the call is stuck elsewhere): not held, never a mismatch
			mu.Lock()
			W.prepArmed = false
			mu.Unlock()
			st.Count("prep:not-held")
			waitIntro(pb, before, out)
			return
		}
		time.Sleep(200 * time.Microsecond)
	}
}

// unprep: let the held batch go on to the introducer and wait for its root
func finishPrep(out func(string, string), st sink) {
	if cur == nil || cur.prepPB == nil {
		releasePrep()
		return
	}
	pb, before := cur.prepPB, cur.prepBefore
	cur.prepPB = nil
	releasePrep()
	if waitIntro(pb, before, out) {
		st.Count("prep:released-and-introduced")
	}
}

// ---------------------------------------------------------------- emitting the recorded events

func (e *event) phys(w *world) string {
	var sb strings.Builder
	fmt.Fprintf(&sb, "e%d", e.epoch)
	if len(e.segs) == 0 {
		sb.WriteString(" -")
	}
	for _, s := range e.segs {
		p := "m"
		if s.persisted {
			p = "p"
		}
		del := make([]string, len(s.deleted))
		for i, d := range s.deleted {
			del[i] = strconv.Itoa(int(d))
		}
		ds, ok := w.segDocs[s.inner]
		body := docsString(ds, ",")
		if !ok {
			body = "?"
		}
		fmt.Fprintf(&sb, " %d%s[%s]{%s}", s.sid, p, body, strings.Join(del, ","))
	}
	return sb.String()
}

func u32s(a []uint32) string {
	s := make([]string, len(a))
	for i, x := range a {
		s[i] = strconv.Itoa(int(x))
	}
	return strings.Join(s, ",")
}

func emitEvents(out func(string, string)) {
	mu.Lock()
	w := W
	evs := w.events
	w.events = nil
	mu.Unlock()
	for _, ev := range evs {
		mu.Lock()
		phys := ev.phys(w)
		mu.Unlock()
		if ev.kind == "snap" {
			newid := uint64(0)
			if ev.creator == "persistSnapshotMaybeMerge" && len(ev.segs) > 0 {
				newid = ev.segs[len(ev.segs)-1].sid
			}
			out(fmt.Sprintf("snap %d %s newid=%d cfg=%s", ev.epoch, ev.creator, newid, cur.cfg), phys)
			continue
		}
		switch ev.creator {
		case "introduceSegment":
			newSid := uint64(0)
			for _, s := range ev.segs {
				if _, known := cur.prev[s.sid]; !known {
					newSid = s.sid
				}
			}
			if len(cur.queue) == 0 {
				out(fmt.Sprintf("intro %d %d seen=0 ? cfg=%s", ev.epoch, newSid, cur.cfg), phys)
			} else {
				pb := cur.queue[0]
				cur.queue = cur.queue[1:]
				out(fmt.Sprintf("intro %d %d seen=%d %s cfg=%s", ev.epoch, newSid, pb.seen, pb.ops, cur.cfg), phys)
			}
		case "introducePersist":
			var sb strings.Builder
			fmt.Fprintf(&sb, "persist %d grab=%d", ev.epoch, ev.grab)
			mu.Lock()
			for _, s := range ev.segs {
				if was, known := cur.prev[s.sid]; known && !was && s.persisted {
					fmt.Fprintf(&sb, " %d[%s]", s.sid, docsString(w.segDocs[s.inner], ","))
				}
			}
			mu.Unlock()
			fmt.Fprintf(&sb, " cfg=%s", cur.cfg)
			out(sb.String(), phys)
		case "introduceMerge":
			out(mergeLine(w, ev), phys)
		default:
			out(fmt.Sprintf("other %d %s cfg=%s", ev.epoch, ev.creator, cur.cfg), phys)
		}
		cur.prev = map[uint64]bool{}
		for _, s := range ev.segs {
			cur.prev[s.sid] = s.persisted
		}
		cur.prevEv = ev
	}
}

// which recorded Merge call does this introduceMerge root belong to?
func mergeLine(w *world, ev *event) string {
	mu.Lock()
	defer mu.Unlock()
	now := map[uint64]bool{}
	for _, s := range ev.segs {
		now[s.sid] = true
	}
	var rec *mergeRec
	for _, m := range w.merges { // the merged segment stands in the new root
		if !m.matched && m.written && now[m.newID] {
			if _, old := cur.prev[m.newID]; !old {
				rec = m
				break
			}
		}
	}
	if rec == nil { // skipped introduction: every input is gone from the new root
		for pass := 0; pass < 2 && rec == nil; pass++ {
			for _, m := range w.merges {
				if m.matched || !m.loaded {
					continue
				}
				gone, wasThere := true, false
				for _, sid := range m.sids {
					if now[sid] {
						gone = false
					}
					if _, ok := cur.prev[sid]; ok {
						wasThere = true
					}
				}
				if gone && (wasThere || pass == 1) {
					rec = m
					break
				}
			}
		}
	}
	if rec == nil {
		return fmt.Sprintf("merge %d unattributed cfg=%s", ev.epoch, cur.cfg)
	}
	rec.matched = true
	kind := "file"
	if rec.mem {
		kind = "mem"
	}
	ins := make([]string, len(rec.sids))
	for i, sid := range rec.sids {
		ins[i] = fmt.Sprintf("%d{%s}", sid, u32s(rec.drops[i]))
	}
	tabs := make([]string, len(rec.tables))
	for i, t := range rec.tables {
		xs := make([]string, len(t))
		for j, x := range t {
			if x >= 1<<63-1 { // ice's docDropped sentinel (math.MaxInt64)
				xs[j] = "x"
			} else {
				xs[j] = strconv.FormatUint(x, 10)
			}
		}
		tabs[i] = "<" + strings.Join(xs, ",") + ">"
	}
	return fmt.Sprintf("merge %d id=%d %s in=%s tab=%s new=[%s] cfg=%s", ev.epoch, rec.newID, kind,
		strings.Join(ins, "/"), strings.Join(tabs, "/"), docsString(rec.newDocs, ","), cur.cfg)
}

// ---------------------------------------------------------------- the reader's view

func viewOf(r *bluge.Reader, k int) string {
	n, err := r.Count()
	if err != nil {
		return "err:count"
	}
	collect := func(q bluge.Query) ([]doc, string) {
		it, err := r.Search(context.Background(), bluge.NewAllMatches(q))
		if err != nil {
			return nil, "err:search"
		}
		var ds []doc
		for {
			m, err := it.Next()
			if err != nil {
				return nil, "err:next"
			}
			if m == nil {
				break
			}
			var acc storedAcc
			if err := m.VisitStoredFields(acc.visit); err != nil {
				return nil, "err:stored"
			}
			d, _ := acc.digest()
			ds = append(ds, d)
		}
		sort.Slice(ds, func(i, j int) bool {
			if ds[i].id != ds[j].id {
				return ds[i].id < ds[j].id
			}
			return ds[i].body < ds[j].body
		})
		return ds, ""
	}
	all, e := collect(bluge.NewMatchAllQuery())
	if e != "" {
		return e
	}
	var sb strings.Builder
	fmt.Fprintf(&sb, "n=%d all=%s look=", n, docsString(all, ","))
	for id := 1; id <= k; id++ {
		ds, e := collect(bluge.NewTermQuery(strconv.Itoa(id)).SetField("_id"))
		if e != "" {
			return e
		}
		if id > 1 {
			sb.WriteByte(',')
		}
		bs := make([]string, len(ds))
		for i, d := range ds {
			if d.id != id {
				bs[i] = fmt.Sprintf("wrong-id-%d", d.id)
			} else {
				bs[i] = strconv.Itoa(d.body)
			}
		}
		fmt.Fprintf(&sb, "%d=%s", id, strings.Join(bs, ";"))
	}
	return sb.String()
}

// open a reader together with the epoch of the root it shows
func openReader() (*bluge.Reader, uint64, bool) {
	for try := 0; try < 20; try++ {
		e1 := epoch()
		r, err := cur.w.Reader()
		if err != nil {
			return nil, 0, false
		}
		if e2 := epoch(); e1 == e2 {
			return r, e1, true
		}
		_ = r.Close()
		time.Sleep(2 * time.Millisecond)
	}
	return nil, 0, false
}

func doRead(out func(string, string), st sink, tag string) {
	safePoint(st)
	emitEvents(out)
	r, e, ok := openReader()
	if !ok {
		out(fmt.Sprintf("read e=0 k=%d cfg=%s", cur.k, cur.cfg), "err:reader")
		return
	}
	res := hlib.Catch(func() string { return viewOf(r, cur.k) })
	_ = r.Close()
	out(fmt.Sprintf("read e=%d k=%d%s cfg=%s", e, cur.k, tag, cur.cfg), res)
	st.Count("read-at:" + tag)
	st.Case(cur.cfg+cur.history, cur.window)
}

// ---------------------------------------------------------------- fill: generated batches until an armed gate is hit

func fill(n int, seed uint64, out func(string, string), st sink) {
	r := hlib.NewRand(seed)
	mu.Lock()
	hitAtStart := W.armedHit
	mu.Unlock()
	for i := 0; i < n; i++ {
		mu.Lock()
		hit := W.armedHit && !hitAtStart
		mu.Unlock()
		if hit {
			st.Count("fill-stopped-at-gate")
			return
		}
		size := 1 + r.Intn(4)
		if size > cur.k {
			size = cur.k
		}
		ids := make([]int, cur.k)
		for j := range ids {
			ids[j] = j + 1
		}
		var ops []string
		for j := 0; j < size; j++ {
			x := j + r.Intn(cur.k-j)
			ids[j], ids[x] = ids[x], ids[j]
			cur.body++
			switch r.Weighted(70, 12, 18) {
			case 0:
				ops = append(ops, fmt.Sprintf("upd:%d:%d", ids[j], cur.body))
			case 1:
				ops = append(ops, fmt.Sprintf("ins:%d:%d", ids[j], cur.body))
			default:
				ops = append(ops, fmt.Sprintf("del:%d", ids[j]))
			}
		}
		t1 := time.Now()
		issueBatch(strings.Join(ops, " "), out, st)
		st.CountN("ms:fill-issue", int(time.Since(t1).Milliseconds()))
		st.Count("op:fill-batch")
		// let the background react: until it is parked, or the root is persisted
		t1 = time.Now()
		if frozenNow() {
			settle(4*time.Millisecond, time.Second)
			st.CountN("ms:fill-settle", int(time.Since(t1).Milliseconds()))
		} else {
			ok := quiesce(2*time.Second, false)
			st.CountN(fmt.Sprintf("ms:fill-quiesce-%v", ok), int(time.Since(t1).Milliseconds()))
		}
	}
}

// ---------------------------------------------------------------- Exec

func execReal(line string, out func(string, string), st sink, work string) {
	w := strings.Fields(line)
	if len(w) == 0 {
		return
	}
	if w[0] != "case" && cur == nil {
		out(line, "no-case")
		return
	}
	if w[0] != "case" && w[0] != "end" {
		cur.history += "\n" + line
	}
	t0 := time.Now()
	defer func() { st.CountN("ms:"+w[0], int(time.Since(t0).Milliseconds())) }()
	switch w[0] {
	case "case":
		closeCase(out, st)
		if err := openCase(line, work); err != nil {
			out(line, "err:open")
			return
		}
		st.Count("config:" + cur.cfg)
		for _, x := range w[2:] {
			if strings.HasPrefix(x, "mm=") || strings.HasPrefix(x, "mp=") || strings.HasPrefix(x, "per=") {
				st.Count("config-" + x)
			}
		}
		out(line, "case")
	case "batch":
		finishPrep(out, st)
		rest := strings.TrimSpace(line[len(w[0]):])
		st.Count("op:batch")
		issueBatch(rest, out, st)
	case "prep":
		rest := strings.TrimSpace(line[len(w[0]):])
		st.Count("op:prep")
		prepBatch(rest, out, st)
	case "unprep":
		finishPrep(out, st)
	case "fill":
		finishPrep(out, st)
		n, seed := 1, uint64(1)
		for _, x := range w[1:] {
			if strings.HasPrefix(x, "n=") {
				n, _ = strconv.Atoi(x[2:])
			}
			if strings.HasPrefix(x, "s=") {
				seed, _ = strconv.ParseUint(x[2:], 10, 64)
			}
		}
		fill(n, seed, out, st)
	case "arm":
		mu.Lock()
		W.armed = map[string]int{}
		for _, g := range w[1:] {
			n := 1
			if i := strings.IndexByte(g, '#'); i >= 0 {
				n, _ = strconv.Atoi(g[i+1:])
				g = g[:i]
			}
			W.armed[g] = n
		}
		mu.Unlock()
	case "await":
		g, ok := await(600 * time.Millisecond)
		if ok {
			st.Count("gate-reached:" + g)
		} else {
			mu.Lock()
			var names []string
			for g := range W.armed {
				names = append(names, g)
			}
			W.armed = map[string]int{}
			mu.Unlock()
			sort.Strings(names)
			st.Count("await-timeout:" + strings.Join(names, "+"))
		}
	case "release":
		releaseAll()
	case "quiesce":
		finishPrep(out, st)
		releaseAll()
		if !quiesce(6*time.Second, true) {
			st.Count("quiesce-timeout")
		}
	case "read":
		tag := ""
		mu.Lock()
		if W.armedHit {
			tag = " at=" + W.armedGate
		}
		mu.Unlock()
		doRead(out, st, tag)
	case "hold":
		safePoint(st)
		emitEvents(out)
		if r, e, ok := openReader(); ok {
			hr := heldReader{r: r, epoch: e}
			mu.Lock()
			idx := W.idx
			mu.Unlock()
			if idx != nil {
				if is, err := idx.Reader(); err == nil && is != nil {
					if is.VerifEpoch() == e {
						hr.snap = is
					} else {
						_ = is.Close()
					}
				}
			}
			cur.held = append(cur.held, hr)
			st.Count("op:hold")
		}
	case "reread":
		safePoint(st)
		emitEvents(out)
		for _, hr := range cur.held {
			res := hlib.Catch(func() string { return viewOf(hr.r, cur.k) })
			out(fmt.Sprintf("read e=%d k=%d held cfg=%s", hr.epoch, cur.k, cur.cfg), res)
			st.Count("op:reread")
		}
		// the roots held open, looked at again NOW: their segments and deleted bitmaps are published, immutable data.
		// (Only roots on which a reference is held: a deleted bitmap may alias the mapped file of its segment.)
		mu.Lock()
		w := W
		var lines [][2]string
		for _, hr := range cur.held {
			if hr.snap == nil {
				continue
			}
			again := snapEvent(w, "past", hr.snap)
			lines = append(lines, [2]string{fmt.Sprintf("pastroot %d cfg=%s", again.epoch, cur.cfg), again.phys(w)})
		}
		mu.Unlock()
		for _, l := range lines {
			out(l[0], l[1])
		}
		st.CountN("op:pastroot", len(lines))
	case "end":
		closeCase(out, st)
		out(line, "closed")
	default:
		out(line, "bad-op")
	}
}

// ---------------------------------------------------------------- process isolation (as in go/harness/c01)
//
// The real writer runs background goroutines (persister, merger); a panic there kills the process. Every case is
// therefore executed in a child process (`h_c06 child <work>`); a crash becomes the observation
// "crash <line> ## crash:<class>", the rest of that case is skipped and a fresh child serves the next case.

type childProc struct {
	cmd    *exec.Cmd
	in     io.WriteCloser
	out    *bufio.Reader
	stderr *bytes.Buffer
}

var child *childProc
var skipping bool
var lastCfg string
var crashes int

func startChild(work string) (*childProc, error) {
	cmd := exec.Command(os.Args[0], "child", work)
	in, err := cmd.StdinPipe()
	if err != nil {
		return nil, err
	}
	op, err := cmd.StdoutPipe()
	if err != nil {
		return nil, err
	}
	eb := &bytes.Buffer{}
	cmd.Stderr = eb
	if err := cmd.Start(); err != nil {
		return nil, err
	}
	return &childProc{cmd: cmd, in: in, out: bufio.NewReaderSize(op, 1<<20), stderr: eb}, nil
}

func classifyCrash(stderr string) string {
	switch {
	case strings.Contains(stderr, "ice/v2") && (strings.Contains(stderr, "getDocStoredOffsets") || strings.Contains(stderr, "getDocStoredMetaAndUnCompressed")):
		return "ice-v2-stored-chunk-buffer"
	case strings.Contains(stderr, "panic:"):
		i := strings.Index(stderr, "panic:")
		l := stderr[i:]
		if j := strings.IndexByte(l, '\n'); j >= 0 {
			l = l[:j]
		}
		if len(l) > 120 {
			l = l[:120]
		}
		return strings.ReplaceAll(l, " ", "_")
	case strings.Contains(stderr, "fatal error:"):
		return "fatal-error"
	case strings.Contains(stderr, "hung"):
		return "hung"
	}
	return "exit"
}

func (h) Exec(line string, out func(string, string), st *hlib.Stats, work string) {
	isCase := strings.HasPrefix(line, "case ")
	if w := strings.Fields(line); isCase && len(w) > 1 {
		lastCfg = w[1]
	}
	if skipping && !isCase {
		st.Count("lines-skipped-after-crash")
		return
	}
	skipping = false
	if child == nil {
		c, err := startChild(work)
		if err != nil {
			out(line, "err:child")
			return
		}
		child = c
	}
	_, err := io.WriteString(child.in, line+"\n")
	type rd struct {
		l   string
		err error
	}
	for err == nil {
		ch := make(chan rd, 1)
		go func() {
			l, e := child.out.ReadString('\n')
			ch <- rd{l, e}
		}()
		var l string
		select {
		case x := <-ch:
			l, err = x.l, x.err
		case <-time.After(150 * time.Second):
			// the real writer hangs (a deadlock is an observation too)
			_ = child.cmd.Process.Kill()
			child.stderr.WriteString("\nhung\n")
			x := <-ch
			l, err = x.l, fmt.Errorf("hung")
		}
		if err != nil {
			break
		}
		l = strings.TrimSuffix(l, "\n")
		f := strings.SplitN(l, "\t", 3)
		switch f[0] {
		case "D":
			return
		case "P":
			if len(f) == 3 {
				out(f[1], f[2])
			}
		case "C":
			if len(f) == 3 {
				n, _ := strconv.Atoi(f[1])
				st.CountN(f[2], n)
			}
		case "K":
			if len(f) == 3 {
				st.Case(f[2], f[1] == "1")
			}
		}
	}
	_ = child.in.Close()
	_ = child.cmd.Wait()
	cls := classifyCrash(child.stderr.String())
	crashes++
	_ = os.WriteFile(filepath.Join(work, fmt.Sprintf("c06_crash_%d.txt", crashes)), child.stderr.Bytes(), 0o644)
	child = nil
	skipping = true
	st.Count("crash:" + cls)
	out("crash cfg="+lastCfg+" "+line, "crash:"+cls)
}

type printSink struct{ w *bufio.Writer }

func (p printSink) Count(key string)         { fmt.Fprintf(p.w, "C\t1\t%s\n", key) }
func (p printSink) CountN(key string, n int) { fmt.Fprintf(p.w, "C\t%d\t%s\n", n, key) }
func (p printSink) Case(key string, nt bool) {
	b := "0"
	if nt {
		b = "1"
	}
	fmt.Fprintf(p.w, "K\t%s\t%s\n", b, strings.ReplaceAll(key, "\n", " / "))
}

func childMain(work string) {
	workDir = work
	index.SetVerifTrace(trace)
	in := bufio.NewScanner(os.Stdin)
	in.Buffer(make([]byte, 1<<20), 1<<28)
	w := bufio.NewWriterSize(os.Stdout, 1<<20)
	ps := printSink{w}
	for in.Scan() {
		line := in.Text()
		execReal(line, func(op, res string) {
			fmt.Fprintf(w, "P\t%s\t%s\n", strings.ReplaceAll(op, "\t", " "), strings.ReplaceAll(res, "\t", " "))
		}, ps, work)
		fmt.Fprintf(w, "D\n")
		w.Flush()
	}
}

// ---------------------------------------------------------------- Gen

type scenario struct {
	name   string
	mm     []int    // MinSegmentsForInMemoryMerge values that make the scenario likely
	stall  bool     // park the persister first so that in-memory segments pile up
	phases []string // gates of one merge / persist, in the order they are passed
}

var scenarios = []scenario{
	{"fm", []int{2, 100, 1, 3}, false, []string{"fm:planned", "fm:written", "fm:loaded", "fm:introstart", "fm:introduced"}},
	{"mm", []int{2, 1, 3}, true, []string{"mm:planned", "mm:written", "mm:loaded", "mm:introduced", "mm:snapwritten"}},
	{"ps", []int{100, 2, 3}, false, []string{"ps:write", "ps:segwritten", "ps:loaded", "ps:swapped", "ps:snapwritten"}},
}

var kinds = []string{"@one", "@onedel", "@upd", "@seg", "@all", "@stay", "@segupd", "@one+@stay", "@onedel+@upd", "@seg+@stayupd", "@onedel+@stay", "@onedel+@onedel"}

func (h) Gen(r *hlib.Rand, tier string, scale int, emit func(string)) {
	dirs := []string{"mem", "fs"}
	vers := []string{"v1", "v2"}
	modes := []string{"unsafe", "safe"}
	body := 0
	nextBody := func() int { body += 10; return body }
	cno := 0
	symBatch := func(kind string) string {
		var ops []string
		for _, k := range strings.Split(kind, "+") {
			switch k {
			case "@upd", "@stayupd", "@segupd":
				ops = append(ops, fmt.Sprintf("%s:%d:%d", k, r.Intn(1000), nextBody()))
			case "@all":
				ops = append(ops, k)
			default:
				ops = append(ops, fmt.Sprintf("%s:%d", k, r.Intn(1000)))
			}
		}
		return "batch " + strings.Join(ops, " ")
	}
	oneCase := func(sc scenario, g1, k1, g2, k2 string, twoAtFirst bool) {
		cfgName := dirs[cno%2] + "-" + vers[(cno/2)%2] + "-" + modes[(cno/4)%2]
		mm := sc.mm[(cno/8)%len(sc.mm)]
		if r.Chance(60) {
			mm = sc.mm[0]
		}
		cno++
		body = 0
		k := r.Range(4, 12)
		floor := []int{100, 100, 4, 1}[r.Intn(4)]
		if sc.name != "fm" {
			floor = []int{100, 4, 1, 1}[r.Intn(4)]
		}
		emit(fmt.Sprintf("case %s k=%d mm=%d mp=%d per=%d", cfgName, k, mm, floor, r.Range(2, 3)))
		// free-running prefix
		if pre := r.Intn(5); pre > 0 {
			emit(fmt.Sprintf("fill n=%d s=%d", pre, r.U64()%1000000))
		}
		if sc.stall || r.Chance(25) {
			// park the persister at whatever it does first, let in-memory segments pile up behind it
			emit("arm ps:write mm:planned snp:write")
			emit(fmt.Sprintf("fill n=%d s=%d", 1, r.U64()%1000000))
			emit("await")
			emit(fmt.Sprintf("fill n=%d s=%d", r.Range(2, 4), r.U64()%1000000))
		}
		if r.Chance(30) {
			emit("hold")
		}
		emit("arm " + g1)
		emit("release")
		emit(fmt.Sprintf("fill n=%d s=%d", 9, r.U64()%1000000))
		emit("await")
		emit("read")
		if r.Chance(70) {
			emit("hold") // a reader opened at the gate is read again at the end
		}
		emit(symBatch(k1))
		if twoAtFirst {
			emit(symBatch(kinds[r.Intn(len(kinds))]))
		}
		emit("read")
		if r.Chance(60) {
			emit("hold") // the root the merge / persist will be introduced into: it shares its bitmaps with the next root
		}
		if g2 != "" {
			emit("arm " + g2)
			emit("release")
			emit("await")
			emit("read")
			if r.Chance(50) {
				emit("hold")
			}
			emit(symBatch(k2))
			emit("read")
			if r.Chance(40) {
				emit("hold")
			}
		}
		emit("release")
		emit("quiesce")
		emit("read")
		emit("reread")
		emit(fmt.Sprintf("fill n=%d s=%d", r.Range(1, 2), r.U64()%1000000))
		emit("quiesce")
		emit("read")
		emit("end")
	}
	// "prepared before the merge is introduced, introduced after": the merge is parked just before its hand-off to the
	// introducer, a batch naming documents of the merging segments (and one of a staying segment) is held inside
	// prepareSegment, the merge is introduced, then the batch
	prepKinds := []string{"@upd+@one+@stayupd", "@one+@stay", "@upd", "@seg+@stayupd", "@all", "@onedel+@upd+@stay", "@segupd", "@one"}
	prepCase := func(file bool, kind string) {
		cfgName := dirs[cno%2] + "-" + vers[(cno/2)%2] + "-" + modes[(cno/4)%2]
		variant := (cno / 8) % 2
		cno++
		body = 0
		k := r.Range(4, 10)
		g1, g2 := "fm:introstart", "fm:introduced"
		mm, floor := []int{2, 100}[variant], 100
		if !file {
			g1, g2 = "mm:loaded", "mm:introduced"
			mm, floor = []int{1, 2}[variant], []int{100, 4}[r.Intn(2)]
		}
		emit(fmt.Sprintf("case %s k=%d mm=%d mp=%d per=%d", cfgName, k, mm, floor, r.Range(2, 3)))
		if pre := r.Intn(3); pre > 0 {
			emit(fmt.Sprintf("fill n=%d s=%d", pre, r.U64()%1000000))
		}
		if !file && mm > 1 {
			emit("arm ps:write mm:planned snp:write")
			emit(fmt.Sprintf("fill n=%d s=%d", 1, r.U64()%1000000))
			emit("await")
			emit(fmt.Sprintf("fill n=%d s=%d", r.Range(2, 3), r.U64()%1000000))
		}
		emit("arm " + g1)
		emit("release")
		emit(fmt.Sprintf("fill n=%d s=%d", 9, r.U64()%1000000))
		emit("await")
		emit("read")
		emit("prep" + strings.TrimPrefix(symBatch(kind), "batch"))
		emit("arm " + g2)
		emit("release")
		emit("await")
		emit("read")
		if r.Chance(50) {
			emit("hold")
		}
		emit("unprep")
		emit("read")
		emit("release")
		emit("quiesce")
		emit("read")
		emit("reread")
		emit("end")
	}
	if tier == "thorough" {
		for rep := 0; rep < scale; rep++ {
			for i := 0; i < 16; i++ {
				for _, pk := range prepKinds {
					prepCase(true, pk)
					prepCase(false, pk)
				}
			}
			for _, sc := range scenarios {
				for i, g1 := range sc.phases {
					for _, k1 := range kinds {
						oneCase(sc, g1, k1, "", "", false)
						oneCase(sc, g1, k1, "", "", true)
						for _, g2 := range sc.phases[i+1:] {
							for _, k2 := range kinds {
								oneCase(sc, g1, k1, g2, k2, false)
							}
						}
					}
				}
			}
		}
		return
	}
	n := 100 * scale
	for c := 0; c < n; c++ {
		if c%4 == 3 {
			prepCase((c/4)%2 == 0, prepKinds[(c/8)%len(prepKinds)])
			continue
		}
		sc := scenarios[c%len(scenarios)]
		i := r.Intn(len(sc.phases))
		g1 := sc.phases[i]
		k1 := kinds[(c/3)%len(kinds)]
		g2, k2 := "", ""
		if i+1 < len(sc.phases) && r.Chance(50) {
			g2 = sc.phases[i+1+r.Intn(len(sc.phases)-i-1)]
			k2 = kinds[r.Intn(len(kinds))]
		}
		oneCase(sc, g1, k1, g2, k2, g2 == "" && r.Chance(40))
	}
}

func main() {
	if len(os.Args) >= 3 && os.Args[1] == "child" {
		childMain(os.Args[2])
		return
	}
	hlib.Main(h{})
}

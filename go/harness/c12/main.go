// Correspondence harness for C12: the snapshot file codec (index/snapshot.go) and loadSnapshot /
// OpenReader (index/writer.go) — stream `codec`.
//
// Script / model op lines (every line is self-contained):
//
//	uv  <hex>                          binary.Uvarint(bytes)              -> "<value %016x> <n>"
//	puv <%016x>                        binary.PutUvarint                  -> "<hex>"
//	crc <hex>                          crc32.ChecksumIEEE                 -> "<%08x>"
//	rt  <segs>                         (*Snapshot).WriteTo, then ReadFrom over all but the CRC
//	                                                                      -> "<file hex> ok <segs> n=<bytes>" | "<file hex> error"
//	rf  <hex>                          (*Snapshot).ReadFrom(bytes.Reader) in a child process
//	                                                                      -> "ok <segs> n=<bytes>" | error | panic | fault | overalloc
//	ld  <mm|nm> <file hex> <older hex|-> <ctx>
//	                                   index.OpenReader on a directory that holds <file> as snapshot epoch 2,
//	                                   <older> (if any) as epoch 1 and a loadable segment file for every
//	                                   id:version of <ctx>; mm = LoadMMapAlways, nm = LoadMMapNever; child process
//	                                                                      -> "ok epoch=<e> <segs>" | error | panic | fault | overalloc
//	ldw <mm|nm> <file hex> <older hex|-> <ctx>
//	                                   the same directory opened by the real index.OpenWriter (loadSnapshots walks the
//	                                   snapshot files oldest -> newest and must come up on the newest one that loads);
//	                                   the writer's current snapshot is reported, then the writer is closed
//	                                                                      -> "ok epoch=<e> <segs>" | error | panic | …
//	real <variant>                     (script only) builds an index with the real Writer and emits `ld` lines for
//	                                   the snapshot file it left behind
//
// <segs> = "-" | seg;seg;…   seg = <id %016x>:<type hex>:<version %08x>:<deleted roaring hex | nil>
// <ctx>  = "-" | <id %016x>:<version>,…
//
// exec appends " roar=<payload hex>:<E|P|0|1>[:<canonical hex>],…" to rt/rf/ld lines: the verdict of the real
// roaring.ReadFrom on every deleted-bitmap payload that plain framing finds in the input (roaring is a
// parameter of the model; the driver looks payloads up in this table and answers `oracle-missing` if it needs
// one that is not there).
package main

import (
	"bufio"
	"bytes"
	"encoding/binary"
	"fmt"
	"hash/crc32"
	"io"
	"log"
	"os"
	"os/exec"
	"path/filepath"
	"runtime/debug"
	"runtime/metrics"
	"sort"
	"strconv"
	"strings"
	"sync"
	"syscall"
	"time"

	"github.com/RoaringBitmap/roaring"
	"github.com/blugelabs/bluge"
	"github.com/blugelabs/bluge/index"

	"verif/harness/hlib"
)

type h struct{}

func (h) Rule() string {
	return "stream codec: (a) round trips of generated snapshots (0..500 segments (6000 in the thorough tier), ids at varint boundaries up to 2^64-1, absent/empty/small/8 KB deleted bitmaps, a sweep that puts a segment start at every offset around the 4096-byte buffer edge, type names of length 0..20); (b) rejection: every truncation length, every single-bit flip, appended tails (random, zero, CRC-consistent), seeded byte mutations with and without CRC repair of valid files (small, and crossing 4096/8192), crafted length fields (2^63, 2^64-1, 2^62, 2^48+1, 2^48, 1 TiB, 16 GiB, 24 MB, count 2^63; 350 claims of 60 KB) and short biased garbage, decoded by the real ReadFrom and loaded by index.OpenReader through LoadMMapAlways and LoadMMapNever in a child process (RLIMIT_AS 2 GiB, allocation measured); the same directories (damaged newest snapshot above an intact older one) opened by the real index.OpenWriter; snapshot files left by the real Writer. A case is non-trivial when the input is not empty and distinct when its op line is new"
}

// ---------------------------------------------------------------- canonical forms

func segsString(segs []index.VerifSeg) string {
	if len(segs) == 0 {
		return "-"
	}
	parts := make([]string, len(segs))
	for i, s := range segs {
		d := "nil"
		if s.Deleted != nil {
			d = hlib.Hex(s.Deleted)
		}
		parts[i] = fmt.Sprintf("%016x:%s:%08x:%s", s.ID, hlib.Hex([]byte(s.Type)), s.Version, d)
	}
	return strings.Join(parts, ";")
}

func unhex(s string) []byte {
	if s == "-" || s == "" {
		return []byte{}
	}
	b := make([]byte, len(s)/2)
	for i := range b {
		v, _ := strconv.ParseUint(s[2*i:2*i+2], 16, 8)
		b[i] = byte(v)
	}
	return b
}

func parseSegs(s string) []index.VerifSeg {
	if s == "-" {
		return nil
	}
	var rv []index.VerifSeg
	for _, p := range strings.Split(s, ";") {
		f := strings.Split(p, ":")
		id, _ := strconv.ParseUint(f[0], 16, 64)
		ver, _ := strconv.ParseUint(f[2], 16, 32)
		v := index.VerifSeg{ID: id, Type: string(unhex(f[1])), Version: uint32(ver)}
		if f[3] != "nil" {
			v.Deleted = unhex(f[3])
		}
		rv = append(rv, v)
	}
	return rv
}

// ---------------------------------------------------------------- roaring oracle

// framedPayloads follows the plain framing of a snapshot body and returns every deleted-bitmap payload.
func framedPayloads(b []byte) [][]byte {
	var out [][]byte
	uv := func() (uint64, bool) {
		w := b
		if len(w) > 10 {
			w = w[:10]
		}
		v, n := binary.Uvarint(w)
		if n < 0 {
			return 0, false
		}
		b = b[n:] // n == 0 (no terminating byte in the window): the decoder goes on with value 0 and discards nothing
		return v, true
	}
	if _, ok := uv(); !ok {
		return out
	}
	cnt, ok := uv()
	if !ok {
		return out
	}
	for j := uint64(0); j < cnt && len(b) > 0 && j < 1<<20; j++ {
		sl, ok := uv()
		if !ok || sl > uint64(len(b)) {
			return out
		}
		b = b[sl:]
		if len(b) < 4 {
			return out
		}
		b = b[4:]
		if _, ok = uv(); !ok {
			return out
		}
		dl, ok := uv()
		if !ok || dl > uint64(len(b)) {
			return out
		}
		if dl > 0 {
			out = append(out, b[:dl])
		}
		b = b[dl:]
	}
	return out
}

func roarVerdict(p []byte) string {
	return hlib.Catch(func() string {
		bm := roaring.NewBitmap()
		if _, err := bm.ReadFrom(bytes.NewReader(p)); err != nil {
			return "E"
		}
		c, err := bm.ToBytes()
		if err != nil {
			return "P"
		}
		cls := "1"
		if bm.IsEmpty() {
			cls = "0"
		}
		if bytes.Equal(c, p) {
			return cls
		}
		return cls + ":" + hlib.Hex(c)
	})
}

func roarTable(payloads [][]byte) string {
	seen := map[string]bool{}
	var parts []string
	for _, p := range payloads {
		k := string(p)
		if seen[k] || len(p) == 0 {
			continue
		}
		seen[k] = true
		v := roarVerdict(p)
		if v == "panic" {
			v = "P"
		}
		parts = append(parts, hlib.Hex(p)+":"+v)
	}
	if len(parts) == 0 {
		return " roar=-"
	}
	return " roar=" + strings.Join(parts, ",")
}

// ---------------------------------------------------------------- building valid files

func encodeFile(segs []index.VerifSeg) []byte {
	s, err := index.VerifNewSnapshot(1, segs)
	if err != nil {
		panic(err)
	}
	var w bytes.Buffer
	if _, err = s.WriteTo(&w, nil); err != nil {
		panic(err)
	}
	return w.Bytes()
}

func bitmapBytes(vals ...uint32) []byte {
	b, err := roaring.BitmapOf(vals...).ToBytes()
	if err != nil {
		panic(err)
	}
	return b
}

// arrayBitmap: n values 0,2,4,… (one array container while n ≤ 4096): 16 + 2n bytes for n ≥ 1
func arrayBitmap(n int) []byte {
	bm := roaring.NewBitmap()
	for i := 0; i < n; i++ {
		bm.Add(uint32(2 * i))
	}
	b, _ := bm.ToBytes()
	return b
}

// sparseBitmap: n values spread over array containers of at most 4000 values each (about 2n bytes)
func sparseBitmap(n int) []byte {
	bm := roaring.NewBitmap()
	for i := 0; i < n; i++ {
		bm.Add(uint32(i/4000)<<16 | uint32(2*(i%4000)))
	}
	b, _ := bm.ToBytes()
	return b
}

// uvLong encodes v as a uvarint that is `extra` bytes longer than necessary (still terminated within 10 bytes).
func uvLong(v uint64, extra int) []byte {
	b := make([]byte, 10)
	n := binary.PutUvarint(b, v)
	b = b[:n]
	if extra <= 0 || n+extra > 10 {
		return b
	}
	b[n-1] |= 0x80
	for i := 0; i < extra-1; i++ {
		b = append(b, 0x80)
	}
	return append(b, 0x00)
}

// looseBody writes the body of a snapshot file by hand, like WriteTo, except that uvarint field number `field`
// (0 = format version, 1 = segment count, then per segment: type length, id, deleted length) is `extra`
// bytes longer than necessary, and the deleted payload of a segment is followed by `payloadTail` junk bytes
// (counted in its length).
func looseBody(segs []index.VerifSeg, field, extra int, payloadTail int) []byte {
	k := 0
	uv := func(v uint64) []byte {
		e := 0
		if k == field {
			e = extra
		}
		k++
		return uvLong(v, e)
	}
	var b []byte
	b = append(b, uv(1)...)
	b = append(b, uv(uint64(len(segs)))...)
	for _, sg := range segs {
		b = append(b, uv(uint64(len(sg.Type)))...)
		b = append(b, sg.Type...)
		var v [4]byte
		binary.BigEndian.PutUint32(v[:], sg.Version)
		b = append(b, v[:]...)
		b = append(b, uv(sg.ID)...)
		if sg.Deleted != nil {
			p := append(append([]byte{}, sg.Deleted...), bytes.Repeat([]byte{0}, payloadTail)...)
			b = append(b, uv(uint64(len(p)))...)
			b = append(b, p...)
		} else {
			b = append(b, uv(0)...)
		}
	}
	return b
}

func withCRC(body []byte) []byte {
	out := append([]byte{}, body...)
	var c [4]byte
	binary.BigEndian.PutUint32(c[:], crc32.ChecksumIEEE(body))
	return append(out, c[:]...)
}

func ctxOf(segs []index.VerifSeg) string {
	if len(segs) == 0 {
		return "-"
	}
	seen := map[uint64]bool{}
	var parts []string
	for _, s := range segs {
		if seen[s.ID] {
			continue
		}
		seen[s.ID] = true
		parts = append(parts, fmt.Sprintf("%016x:%d", s.ID, s.Version))
	}
	return strings.Join(parts, ",")
}

var ids = []uint64{0, 1, 2, 127, 128, 129, 16383, 16384, 1<<21 - 1, 1 << 21, 1<<28 - 1, 1 << 28, 1<<35 + 5, 1<<42 - 1, 1 << 49, 1<<56 - 1, 1 << 56,
	1<<63 - 1, 1 << 63, 1<<63 + 1, 1<<64 - 2, 1<<64 - 1}

func pickID(r *hlib.Rand) uint64 {
	switch r.Weighted(4, 3, 2) {
	case 0:
		return ids[r.Intn(len(ids))]
	case 1:
		return uint64(r.Intn(300))
	}
	return r.U64() >> uint(r.Intn(64))
}

func pickDeleted(r *hlib.Rand, big bool) []byte {
	switch r.Weighted(4, 1, 4, 2, 1) {
	case 0:
		return nil
	case 1:
		return bitmapBytes() // present but empty
	case 2:
		n := 1 + r.Intn(6)
		vs := make([]uint32, n)
		for i := range vs {
			vs[i] = uint32(r.Intn(100000))
		}
		return bitmapBytes(vs...)
	case 3:
		if big {
			return arrayBitmap(200 + r.Intn(3000))
		}
		return arrayBitmap(10 + r.Intn(60))
	}
	bm := roaring.NewBitmap()
	bm.AddRange(10, uint64(20+r.Intn(5000))) // run container after optimisation
	bm.RunOptimize()
	if big {
		for i := 0; i < 5000; i++ { // bitmap container (8 KB)
			bm.Add(uint32(70000 + 3*i))
		}
	}
	b, _ := bm.ToBytes()
	return b
}

func genSnapshot(r *hlib.Rand, n int, big bool) []index.VerifSeg {
	segs := make([]index.VerifSeg, n)
	for i := range segs {
		segs[i] = index.VerifSeg{ID: pickID(r), Type: "ice", Version: uint32(1 + r.Intn(2)), Deleted: pickDeleted(r, big && n < 40)}
		if r.Chance(3) {
			segs[i].Version = uint32(r.U64())
		}
	}
	return segs
}

// ---------------------------------------------------------------- Gen

func (h) Gen(r *hlib.Rand, tier string, scale int, emit func(string)) {
	thorough := tier == "thorough"
	k := scale
	if thorough {
		k = 12 * scale
	}
	// --- uvarint
	var uvs [][]byte
	for s := uint(0); s < 64; s++ {
		for _, d := range []uint64{0, 1, ^uint64(0)} {
			v := (uint64(1) << s) + d
			emit(fmt.Sprintf("puv %016x", v))
			b := make([]byte, 10)
			uvs = append(uvs, b[:binary.PutUvarint(b, v)])
		}
	}
	uvs = append(uvs, []byte{}, []byte{0x80}, []byte{0x80, 0x00}, []byte{0x81, 0x80, 0x00}, []byte{0xff, 0x7f, 0x55},
		bytes.Repeat([]byte{0x80}, 9), bytes.Repeat([]byte{0x80}, 10), bytes.Repeat([]byte{0x80}, 11), bytes.Repeat([]byte{0xff}, 12))
	for _, last := range []byte{0, 1, 2, 0x7f, 0x80} {
		uvs = append(uvs, append(bytes.Repeat([]byte{0x80}, 9), last), append(bytes.Repeat([]byte{0xff}, 9), last), append(bytes.Repeat([]byte{0xff}, 9), last, 7),
			append(bytes.Repeat([]byte{0x80}, 10), last))
	}
	for i := 0; i < 150*k; i++ {
		n := r.Intn(13)
		b := make([]byte, n)
		for j := range b {
			b[j] = byte(r.U64())
			if r.Chance(60) {
				b[j] |= 0x80
			}
		}
		uvs = append(uvs, b)
	}
	for _, b := range uvs {
		emit("uv " + hlib.Hex(b))
	}
	for i := 0; i < 60*k; i++ {
		emit(fmt.Sprintf("puv %016x", r.U64()>>uint(r.Intn(64))))
	}
	// --- crc
	for i := 0; i < 60*k; i++ {
		n := r.Intn(70)
		if i%20 == 0 {
			n = 4000 + r.Intn(300)
		}
		b := make([]byte, n)
		for j := range b {
			b[j] = byte(r.U64())
		}
		emit("crc " + hlib.Hex(b))
	}
	emit("crc 313233343536373839")

	// --- round trips
	emit("rt -")
	counts := []int{1, 1, 2, 3, 5, 10, 127, 128, 129, 500}
	if thorough {
		counts = append(counts, 3000, 6000)
	}
	for rep := 0; rep < 3*k; rep++ {
		for _, n := range counts {
			if n > 200 && rep > 0 && !thorough {
				continue
			}
			emit("rt " + segsString(genSnapshot(r, n, rep%2 == 0)))
		}
	}
	// boundary ids, each alone (the last segment of a file is the shortest possible input to Peek(10))
	for _, id := range ids {
		emit("rt " + segsString([]index.VerifSeg{{ID: id, Type: "ice", Version: 1}}))
		emit("rt " + segsString([]index.VerifSeg{{ID: id, Type: "ice", Version: 2, Deleted: bitmapBytes(1, 2, 3)}, {ID: id, Type: "ice", Version: 1}}))
	}
	// sweep: the second segment starts at every offset around the buffer edge (4096) and around 8192
	for _, edge := range []int{4096, 8192} {
		for d := -14; d <= 3; d++ {
			if s1, ok := firstSegWithBodyLen("ice", edge+d); ok {
				segs := []index.VerifSeg{s1, {ID: 7, Type: "ice", Version: 2}, {ID: 1<<64 - 1, Type: "ice", Version: 1, Deleted: bitmapBytes(9)}}
				emit("rt " + segsString(segs))
			}
		}
	}
	// type names the bundled plugins do not use (hypothesis 3 ≤ len ≤ 5 of the round-trip theorem)
	for _, t := range []string{"", "a", "ab", "abcd", "abcde", "abcdef", "a-long-plugin-name-20"} {
		emit("rt " + segsString([]index.VerifSeg{{ID: 1, Type: t, Version: 1}}))
		emit("rt " + segsString([]index.VerifSeg{{ID: 300, Type: t, Version: 1, Deleted: bitmapBytes(4)}, {ID: 2, Type: t, Version: 1}}))
		for _, d := range []int{-12, -8, -5, -3, -1} { // the type string / version straddles the buffer edge
			if s1, ok := firstSegWithBodyLen(t, 4096+d); ok {
				segs := []index.VerifSeg{s1, {ID: 300, Type: t, Version: 0x01020304, Deleted: bitmapBytes(4)}}
				emit("rt " + segsString(segs))
			}
		}
	}

	// --- rejection
	small := []index.VerifSeg{{ID: 5, Type: "ice", Version: 1}, {ID: 300, Type: "ice", Version: 2, Deleted: bitmapBytes(1, 5, 70000)}}
	small2 := []index.VerifSeg{{ID: 1<<64 - 1, Type: "ice", Version: 1, Deleted: bitmapBytes(3)}, {ID: 7, Type: "ice", Version: 1}, {ID: 128, Type: "ice", Version: 2}}
	older := []index.VerifSeg{{ID: 9, Type: "ice", Version: 1, Deleted: bitmapBytes(2)}}
	big := []index.VerifSeg{{ID: 5, Type: "ice", Version: 1, Deleted: arrayBitmap(2500)}, {ID: 300, Type: "ice", Version: 2, Deleted: pickBigRun()}, {ID: 77, Type: "ice", Version: 1}}
	olderFile := encodeFile(older)
	ctxAll := func(ss ...[]index.VerifSeg) string {
		var all []index.VerifSeg
		for _, s := range ss {
			all = append(all, s...)
		}
		return ctxOf(all)
	}
	alt := 0
	oneMode := false // true: the two loaders take turns instead of both seeing every input
	ld := func(file, old []byte, ctx string) {
		o := "-"
		if old != nil {
			o = hlib.Hex(old)
		}
		alt++
		for i, m := range []string{"mm", "nm"} {
			if oneMode && alt%2 != i {
				continue
			}
			emit("ld " + m + " " + hlib.Hex(file) + " " + o + " " + ctx)
			// the writer's walk over the same directory (every such directory in the thorough tier, every third one
			// with an older snapshot in the quick tier, always for the small files)
			if old != nil && (thorough || alt%3 == 0 || len(file) < 40) && len(file) < 1<<16 {
				emit("ldw " + m + " " + hlib.Hex(file) + " " + o + " " + ctx)
			}
		}
	}
	both := func(file, old []byte, ctx string) {
		ld(file, old, ctx)
		if len(file) >= 4 {
			emit("rf " + hlib.Hex(file[:len(file)-4]))
		}
	}
	for bi, base := range [][]index.VerifSeg{small, small2, nil} {
		f := encodeFile(base)
		ctx := ctxAll(base, older)
		oneMode = false
		both(f, nil, ctx)
		both(f, olderFile, ctx)
		oneMode = bi > 0 && !thorough
		for n := 0; n < len(f); n++ { // every truncation
			both(f[:n], olderFile, ctx)
			if bi == 0 {
				ld(f[:n], nil, ctx)
			}
		}
		for bit := 0; bit < 8*len(f); bit++ { // every single-bit flip
			g := append([]byte{}, f...)
			g[bit/8] ^= 1 << uint(bit%8)
			both(g, olderFile, ctx)
			if bi == 0 && bit%8 == 0 {
				ld(g, nil, ctx)
			}
		}
		body := f[:len(f)-4]
		// CRC-consistent files that are not encodings (the checksum is repaired, so only the decoder can refuse them):
		// (A) every truncation of the body — a field missing at the end reads as 0 unless Uvarint's n is checked;
		// (B) bytes behind the last segment; (C) every uvarint field spelled longer than necessary;
		// (D) a deleted payload followed by bytes roaring does not read
		oneMode = !thorough
		for n := 0; n < len(body); n++ {
			both(withCRC(body[:n]), olderFile, ctx)
		}
		for _, t := range [][]byte{{0}, {0x80}, {1, 2, 3}, bytes.Repeat([]byte{0xff}, 11)} {
			both(withCRC(append(append([]byte{}, body...), t...)), olderFile, ctx)
		}
		for field := 0; field < 2+3*len(base); field++ {
			for _, extra := range []int{1, 2, 9} {
				lb := looseBody(base, field, extra, 0)
				if !bytes.Equal(lb, body) {
					both(withCRC(lb), olderFile, ctx)
				}
			}
		}
		if len(base) > 0 {
			both(withCRC(looseBody(base, -1, 0, 1)), olderFile, ctx)
			both(withCRC(looseBody(base, -1, 0, 7)), olderFile, ctx)
		}
		oneMode = !thorough
		for i := 0; i < 30*k; i++ { // appended tails
			n := 1 + r.Intn(12)
			t := make([]byte, n)
			if i%3 != 0 {
				for j := range t {
					t[j] = byte(r.U64())
				}
			}
			g := append(append([]byte{}, f...), t...)
			if i%4 == 1 { // tail inside the CRC-covered part, CRC repaired
				g = withCRC(append(append([]byte{}, body...), t...))
			}
			if i%4 == 2 { // tail after the old CRC, new CRC over everything before it
				g = withCRC(g)
			}
			both(g, olderFile, ctx)
		}
		for i := 0; i < 120*k; i++ { // seeded mutations
			g := append([]byte{}, body...)
			for m := 0; m <= r.Intn(3); m++ {
				if len(g) == 0 {
					g = append(g, byte(r.U64()))
					continue
				}
				p := r.Intn(len(g))
				switch r.Intn(5) {
				case 0:
					g[p] = byte(r.U64())
				case 1:
					g[p] = []byte{0, 1, 0x7f, 0x80, 0xff}[r.Intn(5)]
				case 2:
					g = append(g[:p], g[p+1:]...)
				case 3:
					g = append(g[:p], append([]byte{byte(r.U64())}, g[p:]...)...)
				case 4: // a uvarint field grows into a huge number
					g = append(g[:p], append(hugeUvarint(r), g[p:]...)...)
				}
			}
			if r.Chance(60) {
				both(withCRC(g), olderFile, ctx)
			} else {
				both(append(g, f[len(f)-4:]...), olderFile, ctx)
			}
		}
	}
	// files crossing the buffer edge
	{
		f := encodeFile(big)
		ctx := ctxAll(big, older)
		oneMode = false
		both(f, olderFile, ctx)
		both(f, nil, ctx)
		cut := map[int]bool{}
		for _, n := range []int{0, 1, 3, 4, 5, 10, 13, 14, 15, 4090, 4095, 4096, 4097, 4099, 4100, 4101, 4110, 8190, 8192, 8196, 8197, len(f) - 5, len(f) - 4, len(f) - 3, len(f) - 1} {
			cut[n] = true
		}
		for i := 0; i < 25*k; i++ {
			cut[r.Intn(len(f))] = true
		}
		cuts := []int{}
		for n := range cut {
			if n >= 0 && n < len(f) {
				cuts = append(cuts, n)
			}
		}
		sort.Ints(cuts)
		oneMode = !thorough
		for _, n := range cuts {
			both(f[:n], olderFile, ctx)
		}
		for i := 0; i < 60*k; i++ {
			bit := r.Intn(8 * len(f))
			if i%4 == 0 {
				bit = r.Intn(8 * 16) // header and first length fields
			}
			if i%4 == 1 {
				bit = 8*(len(f)-4) + r.Intn(32) // the CRC itself
			}
			g := append([]byte{}, f...)
			g[bit/8] ^= 1 << uint(bit%8)
			both(g, olderFile, ctx)
		}
		for i := 0; i < 10*k; i++ {
			t := make([]byte, 1+r.Intn(9000))
			for j := range t {
				t[j] = byte(r.U64())
			}
			g := append(append([]byte{}, f...), t...)
			if i%2 == 0 {
				g = withCRC(g)
			}
			both(g, olderFile, ctx)
		}
	}
	// more intact files beyond one read buffer: the CRC of such a file is accumulated over several reads of
	// the hash reader (4096-byte fills, then one large direct read when a long bitmap is fetched), and the
	// bytes behind the first fill are covered only if every one of those reads is hashed. Each file is
	// loaded intact by both loaders, then with one bit flipped in every 4096-byte stretch of it and in the
	// last byte of the body (all must be passed over for the older snapshot).
	{
		lens := []int{4097, 4100, 5000, 8191, 8193, 12289, 20000}
		if thorough {
			lens = append(lens, 4099, 6000, 8192, 8200, 16385, 40000, 70000)
		}
		for li, L := range lens {
			s1, ok := firstSegWithBodyLen("ice", L)
			if !ok { // beyond one array container: a first segment of about that size
				s1 = index.VerifSeg{ID: 1, Type: "ice", Version: 1, Deleted: sparseBitmap((L - 40) / 2)}
			}
			segs := []index.VerifSeg{s1, {ID: uint64(1000 + li), Type: "ice", Version: 2, Deleted: bitmapBytes(uint32(li), 77)}, {ID: 1<<63 + uint64(li), Type: "ice", Version: 1}}
			if li%2 == 1 { // a second long bitmap: the large read happens with a partly consumed buffer
				segs = append(segs, index.VerifSeg{ID: 31, Type: "ice", Version: 1, Deleted: arrayBitmap(1500 + 300*li)})
			}
			f := encodeFile(segs)
			ctx := ctxAll(segs, older)
			oneMode = false
			both(f, olderFile, ctx)
			ld(f, nil, ctx)
			oneMode = !thorough
			for off := 0; off < len(f)-4; off += 4096 {
				p := off + r.Intn(4096)
				if p >= len(f)-4 {
					p = len(f) - 5
				}
				g := append([]byte{}, f...)
				g[p] ^= 1 << uint(r.Intn(8))
				both(g, olderFile, ctx)
			}
			g := append([]byte{}, f...)
			g[len(f)-5] ^= 0x10
			both(g, olderFile, ctx)
		}
	}
	// crafted length fields
	oneMode = false
	pad := bytes.Repeat([]byte{0}, 40)
	cat := func(parts ...[]byte) []byte {
		var o []byte
		for _, p := range parts {
			o = append(o, p...)
		}
		return o
	}
	uv := func(v uint64) []byte {
		b := make([]byte, 10)
		return b[:binary.PutUvarint(b, v)]
	}
	ice := []byte{3, 'i', 'c', 'e', 0, 0, 0, 1}
	for _, v := range []uint64{1 << 63, 1<<64 - 1, 1 << 62, 1<<48 + 1, 1 << 48, 1 << 40, 1 << 34} {
		for _, crafted := range [][]byte{
			cat([]byte{1, 1}, uv(v), pad),                    // type-string length
			cat([]byte{1, 1}, uv(v)),                         // … without the padding Peek(10) needs
			cat([]byte{1, 1}, ice, uv(5), uv(v), pad),        // deleted-bitmap length
			cat([]byte{1, 1}, ice, uv(5), uv(v)),             // … at the very end (a 10..20-byte input)
			cat([]byte{1}, uv(v), pad),                       // segment count
			cat([]byte{1}, uv(v)),                            // segment count, nothing after it
			cat([]byte{1, 2}, ice, uv(5), uv(0), uv(v), pad), // second segment
		} {
			emit("rf " + hlib.Hex(crafted))
			ld(withCRC(crafted), olderFile, ctxAll(older, small))
		}
	}
	// claims that the process can satisfy (24 MB; touching fresh memory is slow, so only these few)
	emit("rf " + hlib.Hex(cat([]byte{1, 1}, uv(24<<20), pad)))
	emit("rf " + hlib.Hex(cat([]byte{1, 1}, ice, uv(5), uv(24<<20), pad)))
	// many moderate claims: 350 segments, each asking for 60 KB that are not there
	{
		var g []byte
		g = append(g, 1)
		g = append(g, uv(350)...)
		for i := 0; i < 350; i++ {
			g = append(g, uv(60000)...)
			g = append(g, bytes.Repeat([]byte{0}, 12)...)
		}
		emit("rf " + hlib.Hex(g))
		emit("ld mm " + hlib.Hex(withCRC(g)) + " " + hlib.Hex(olderFile) + " " + ctxAll(older))
	}
	// short biased garbage
	oneMode = !thorough
	alpha := []byte{0, 1, 2, 3, 4, 8, 0x7f, 0x80, 0x81, 0xff, 'i', 'c', 'e', 0x3a, 0x30}
	for i := 0; i < 400*k; i++ {
		n := r.Intn(28)
		b := make([]byte, n)
		for j := range b {
			if r.Chance(75) {
				b[j] = alpha[r.Intn(len(alpha))]
			} else {
				b[j] = byte(r.U64())
			}
		}
		if n > 0 && r.Chance(70) {
			b[0] = 1
		}
		emit("rf " + hlib.Hex(b))
		if i%4 == 0 {
			ld(withCRC(b), olderFile, ctxAll(older))
			ld(b, nil, "-")
		}
	}
	// the real Writer's own files
	nreal := 3
	if thorough {
		nreal = 10
	}
	for i := 0; i < nreal; i++ {
		emit(fmt.Sprintf("real %d %d", i, r.Intn(1<<30)))
	}
}

// firstSegWithBodyLen finds a first segment (type t) such that header + that segment is exactly L bytes,
// i.e. the second segment of the file starts at offset L.
func firstSegWithBodyLen(t string, L int) (index.VerifSeg, bool) {
	for _, idv := range []uint64{1, 300} {
		est := (L - 30 - len(t)) / 2
		for n := est - 8; n <= est+8; n++ {
			if n < 1 {
				continue
			}
			s := index.VerifSeg{ID: idv, Type: t, Version: 1, Deleted: arrayBitmap(n)}
			if len(encodeFile([]index.VerifSeg{s}))-4 == L {
				return s, true
			}
		}
	}
	return index.VerifSeg{}, false
}

func pickBigRun() []byte {
	bm := roaring.NewBitmap()
	for i := 0; i < 3000; i++ {
		bm.Add(uint32(5 * i))
	}
	bm.AddRange(100000, 100900)
	bm.RunOptimize()
	b, _ := bm.ToBytes()
	return b
}

func hugeUvarint(r *hlib.Rand) []byte {
	b := make([]byte, 10)
	v := []uint64{1 << 63, 1<<64 - 1, 1 << 62, 1 << 50, 1 << 40, 1 << 33}[r.Intn(6)]
	n := binary.PutUvarint(b, v+uint64(r.Intn(3)))
	return b[:n]
}

// ---------------------------------------------------------------- child process: rf and ld on the real code

const childRlimitAS = 2 << 30

func allocLimit(n int) uint64 { return 64*uint64(n) + 1<<20 }

// measured runs f; if the bytes allocated meanwhile exceed 4·allocLimit + 4 MB the result is "overalloc"
func measured(n int, f func() func() string) string {
	a0 := allocBytes()
	budget := 4*allocLimit(n) + 4<<20
	// watchdog: the real code may go on to touch what it claimed (string(strBytes) copies it), which takes
	// seconds per 100 MB here; once the claim is over budget the observation is made, so answer and leave
	stop := make(chan struct{})
	go func() {
		t := time.NewTicker(20 * time.Millisecond)
		defer t.Stop()
		for {
			select {
			case <-stop:
				return
			case <-t.C:
				if allocBytesW()-a0 > budget {
					answer("X overalloc")
					os.Exit(0)
				}
			}
		}
	}()
	var show func() string
	res := catch(func() string { show = f(); return "" })
	close(stop)
	if allocBytes()-a0 > budget {
		return "overalloc"
	}
	if res != "" || show == nil {
		return res
	}
	return catch(show) // formatting the result is not part of the measurement
}

var (
	outMu  sync.Mutex
	outBuf = bufio.NewWriter(os.Stdout)
)

func answer(s string) {
	outMu.Lock()
	fmt.Fprintln(outBuf, s)
	outBuf.Flush()
	outMu.Unlock()
}

var allocSampleW = []metrics.Sample{{Name: "/gc/heap/allocs:bytes"}}

func allocBytesW() uint64 {
	metrics.Read(allocSampleW)
	return allocSampleW[0].Value.Uint64()
}

var allocSample = []metrics.Sample{{Name: "/gc/heap/allocs:bytes"}}

// allocBytes: cumulative bytes allocated on the heap by this process (runtime/metrics, no stop-the-world)
func allocBytes() uint64 {
	metrics.Read(allocSample)
	return allocSample[0].Value.Uint64()
}

func catch(f func() string) (res string) {
	defer func() {
		if e := recover(); e != nil {
			if _, ok := e.(interface{ Addr() uintptr }); ok {
				res = "fault" // runtime.Error of a memory fault (debug.SetPanicOnFault)
				return
			}
			res = "panic"
		}
	}()
	return f()
}

type child struct {
	work      string
	tpl       map[uint32]string // version -> template .seg file
	dir       string
	dirCtx    string
	haveOlder bool
}

// templates: one loadable segment file per bundled plugin version, written by the real Writer once per
// exec run (kept in the work directory so that a restarted child does not build them again)
func (c *child) templates() {
	c.tpl = map[uint32]string{}
	for _, ver := range []uint32{1, 2} {
		keep := filepath.Join(c.work, fmt.Sprintf("tpl%d.seg", ver))
		if fi, err := os.Stat(keep); err == nil && fi.Size() > 0 {
			c.tpl[ver] = keep
			continue
		}
		d := filepath.Join(c.work, fmt.Sprintf("tpl%d", ver))
		_ = os.RemoveAll(d)
		cfg := bluge.DefaultConfig(d)
		cfg = cfg.VerifWithIndexConfig(cfg.VerifIndexConfig().WithSegmentVersion(ver))
		w, err := bluge.OpenWriter(cfg)
		if err != nil {
			panic(err)
		}
		b := bluge.NewBatch()
		for i := 0; i < 3; i++ {
			doc := bluge.NewDocument(fmt.Sprint("d", i)).AddField(bluge.NewTextField("t", "hello world"))
			b.Update(doc.ID(), doc)
		}
		if err = w.Batch(b); err != nil {
			panic(err)
		}
		_ = w.Close()
		ents, _ := os.ReadDir(d)
		for _, e := range ents {
			if filepath.Ext(e.Name()) == ".seg" {
				data, _ := os.ReadFile(filepath.Join(d, e.Name()))
				_ = os.WriteFile(keep, data, 0o600)
				c.tpl[ver] = keep
			}
		}
		_ = os.RemoveAll(d)
		if c.tpl[ver] == "" {
			panic("no template segment file")
		}
	}
}

func (c *child) prepare(ctx string) {
	if c.dir != "" && c.dirCtx == ctx {
		return
	}
	c.dir = filepath.Join(c.work, "ld")
	_ = os.RemoveAll(c.dir)
	_ = os.MkdirAll(c.dir, 0o700)
	c.dirCtx = ctx
	c.haveOlder = false
	if ctx == "-" {
		return
	}
	for _, p := range strings.Split(ctx, ",") {
		f := strings.Split(p, ":")
		id, _ := strconv.ParseUint(f[0], 16, 64)
		ver, _ := strconv.ParseUint(f[1], 10, 32)
		src := c.tpl[uint32(ver)]
		if src == "" {
			src = c.tpl[1]
		}
		dst := filepath.Join(c.dir, fmt.Sprintf("%012x.seg", id))
		if err := os.Link(src, dst); err != nil {
			data, _ := os.ReadFile(src)
			_ = os.WriteFile(dst, data, 0o600)
		}
	}
}

func (c *child) doLd(mode string, file, older []byte, hasOlder bool, ctx string) string {
	c.prepare(ctx)
	_ = os.Remove(filepath.Join(c.dir, "000000000002.snp"))
	if err := os.WriteFile(filepath.Join(c.dir, "000000000002.snp"), file, 0o600); err != nil {
		return "harness-error"
	}
	op := filepath.Join(c.dir, "000000000001.snp")
	if hasOlder {
		_ = os.Remove(op)
		_ = os.WriteFile(op, older, 0o600)
	} else {
		_ = os.Remove(op)
	}
	dir := c.dir
	return measured(len(file), func() func() string {
		ic := index.DefaultConfigWithDirectory(func() index.Directory {
			d := index.NewFileSystemDirectory(dir)
			if mode == "nm" {
				d.SetLoadMMapFunc(index.LoadMMapNever)
			}
			return d
		})
		rd, err := index.OpenReader(ic)
		if err != nil {
			return func() string { return "error" }
		}
		return func() string {
			defer rd.Close()
			segs, err := rd.VerifSegs()
			if err != nil {
				return "harness-error"
			}
			return fmt.Sprintf("ok epoch=%d %s", rd.VerifEpoch(), segsString(segs))
		}
	})
}

// doLdw: a fresh directory per call (OpenWriter locks it, and its deletion policy removes files).
func (c *child) doLdw(mode string, file, older []byte, hasOlder bool, ctx string) string {
	dir := filepath.Join(c.work, "ldw")
	_ = os.RemoveAll(dir)
	_ = os.MkdirAll(dir, 0o700)
	if ctx != "-" {
		for _, p := range strings.Split(ctx, ",") {
			f := strings.Split(p, ":")
			id, _ := strconv.ParseUint(f[0], 16, 64)
			ver, _ := strconv.ParseUint(f[1], 10, 32)
			src := c.tpl[uint32(ver)]
			if src == "" {
				src = c.tpl[1]
			}
			dst := filepath.Join(dir, fmt.Sprintf("%012x.seg", id))
			if err := os.Link(src, dst); err != nil {
				data, _ := os.ReadFile(src)
				_ = os.WriteFile(dst, data, 0o600)
			}
		}
	}
	if err := os.WriteFile(filepath.Join(dir, "000000000002.snp"), file, 0o600); err != nil {
		return "harness-error"
	}
	if hasOlder {
		_ = os.WriteFile(filepath.Join(dir, "000000000001.snp"), older, 0o600)
	}
	return measured(len(file), func() func() string {
		ic := index.DefaultConfigWithDirectory(func() index.Directory {
			d := index.NewFileSystemDirectory(dir)
			if mode == "nm" {
				d.SetLoadMMapFunc(index.LoadMMapNever)
			}
			return d
		})
		// the writer is opened to see which snapshot it comes up on: no background merge of the (template) segments
		ic.MergePlanOptions.MaxSegmentsPerTier = 1 << 20
		ic.MergePlanOptions.FloorSegmentSize = 1 // budget = number of live documents >= number of segments: nothing to merge
		w, err := index.OpenWriter(ic)
		if err != nil {
			return func() string { return "error" }
		}
		return func() string {
			defer w.Close()
			rd, err := w.Reader()
			if err != nil || rd == nil {
				return "harness-error"
			}
			defer rd.Close()
			segs, err := rd.VerifSegs()
			if err != nil {
				return "harness-error"
			}
			return fmt.Sprintf("ok epoch=%d %s", rd.VerifEpoch(), segsString(segs))
		}
	})
}

func doRf(b []byte) string {
	return measured(len(b), func() func() string {
		segs, n, err := index.VerifDecodeSnapshot(bytes.NewReader(b))
		if err != nil {
			return func() string { return "error" }
		}
		return func() string { return "ok " + segsString(segs) + " n=" + strconv.FormatInt(n, 10) }
	})
}

func childMain() {
	lim := syscall.Rlimit{Cur: childRlimitAS, Max: childRlimitAS}
	_ = syscall.Setrlimit(syscall.RLIMIT_AS, &lim)
	log.SetOutput(io.Discard)
	if os.Getenv("VERIF_C12_RAWFAULT") == "" {
		debug.SetPanicOnFault(true) // a fault becomes a recoverable panic whose value has Addr(); unset: the process dies, the parent sees it
	}
	c := &child{work: os.Args[2]}
	c.templates()
	in := bufio.NewReaderSize(os.Stdin, 1<<20)
	answer("READY")
	for {
		line, err := in.ReadString('\n')
		line = strings.TrimRight(line, "\n")
		if line != "" {
			w := strings.Split(line, " ")
			res := "bad-op"
			switch w[0] {
			case "rf":
				res = doRf(unhex(w[1]))
			case "ld":
				res = c.doLd(w[1], unhex(w[2]), unhex(w[3]), w[3] != "-", w[4])
			case "ldw":
				res = c.doLdw(w[1], unhex(w[2]), unhex(w[3]), w[3] != "-", w[4])
			}
			answer("R " + res)
		}
		if err != nil {
			return
		}
	}
}

// ---------------------------------------------------------------- parent side of the child protocol

type childProc struct {
	cmd    *exec.Cmd
	in     io.WriteCloser
	out    *bufio.Reader
	errBuf *bytes.Buffer
	mu     sync.Mutex
	done   chan struct{}
}

var (
	cp            *childProc
	restarts      int
	childDirFresh bool
)

func startChild(work string) *childProc {
	self, _ := os.Executable()
	cmd := exec.Command(self, "child", filepath.Join(work, "child"))
	if !childDirFresh {
		_ = os.RemoveAll(filepath.Join(work, "child")) // templates are rebuilt from the current /repo once per run
		childDirFresh = true
	}
	_ = os.MkdirAll(filepath.Join(work, "child"), 0o700)
	cmd.Env = append(os.Environ(), "GOMEMLIMIT=1GiB", "GOTRACEBACK=single", "GOMAXPROCS=2")
	in, _ := cmd.StdinPipe()
	so, _ := cmd.StdoutPipe()
	se, _ := cmd.StderrPipe()
	c := &childProc{cmd: cmd, in: in, out: bufio.NewReaderSize(so, 1<<20), errBuf: &bytes.Buffer{}, done: make(chan struct{})}
	if err := cmd.Start(); err != nil {
		panic(err)
	}
	go func() {
		buf := make([]byte, 4096)
		for {
			n, err := se.Read(buf)
			c.mu.Lock()
			if c.errBuf.Len() < 1<<16 {
				c.errBuf.Write(buf[:n])
			}
			c.mu.Unlock()
			if err != nil {
				close(c.done)
				return
			}
		}
	}()
	l, err := c.out.ReadString('\n')
	if err != nil || strings.TrimSpace(l) != "READY" {
		<-c.done
		panic("child did not start: " + c.errBuf.String())
	}
	return c
}

// ask sends one op to the child; a dead child is an observation, classified from its stderr
func ask(work, line string) string {
	if cp == nil {
		cp = startChild(work)
	}
	type ans struct {
		s   string
		err error
	}
	ch := make(chan ans, 1)
	c := cp
	go func() {
		if _, err := io.WriteString(c.in, line+"\n"); err != nil {
			ch <- ans{"", err}
			return
		}
		l, err := c.out.ReadString('\n')
		ch <- ans{l, err}
	}()
	var a ans
	select {
	case a = <-ch:
	case <-time.After(60 * time.Second):
		_ = c.cmd.Process.Kill()
		_ = c.cmd.Wait()
		cp = nil
		restarts++
		return "hang"
	}
	if a.err == nil && strings.HasPrefix(a.s, "R ") {
		return strings.TrimRight(a.s[2:], "\n")
	}
	if a.err == nil && strings.HasPrefix(a.s, "X ") { // answered by its watchdog, then left
		_ = c.in.Close()
		_ = c.cmd.Wait()
		cp = nil
		restarts++
		return strings.TrimRight(a.s[2:], "\n")
	}
	// the child died while executing this op
	_ = c.in.Close()
	select {
	case <-c.done:
	case <-time.After(5 * time.Second):
	}
	_ = c.cmd.Wait()
	c.mu.Lock()
	se := c.errBuf.String()
	c.mu.Unlock()
	cp = nil
	restarts++
	switch {
	case strings.Contains(se, "out of memory") || strings.Contains(se, "cannot allocate"):
		return "overalloc"
	case strings.Contains(se, "SIGSEGV") || strings.Contains(se, "SIGBUS") || strings.Contains(se, "unexpected fault address"):
		return "fault"
	case strings.Contains(se, "panic:"):
		return "panic"
	}
	return "crash"
}

// ---------------------------------------------------------------- Exec

func classOf(res string) string {
	if i := strings.IndexByte(res, ' '); i > 0 {
		return res[:i]
	}
	return res
}

func (h) Exec(line string, out func(string, string), st *hlib.Stats, work string) {
	if i := strings.Index(line, " roar="); i >= 0 {
		line = line[:i] // a replayed model op line: the table is computed again from the real library
	}
	w := strings.Split(line, " ")
	st.Count("op:" + w[0])
	emit := func(op, res string, nontrivial bool) {
		st.Case(op, nontrivial)
		out(op, res)
	}
	switch w[0] {
	case "uv":
		b := unhex(w[1])
		res := hlib.Catch(func() string {
			v, n := binary.Uvarint(b)
			return fmt.Sprintf("%016x %d", v, n)
		})
		emit(line, res, len(b) > 0)
	case "puv":
		v, _ := strconv.ParseUint(w[1], 16, 64)
		b := make([]byte, binary.MaxVarintLen64)
		emit(line, hlib.Hex(b[:binary.PutUvarint(b, v)]), true)
	case "crc":
		emit(line, fmt.Sprintf("%08x", crc32.ChecksumIEEE(unhex(w[1]))), len(w[1]) > 1)
	case "rt":
		segs := parseSegs(w[1])
		var payloads [][]byte
		for _, s := range segs {
			if s.Deleted != nil {
				payloads = append(payloads, s.Deleted)
			}
		}
		res := hlib.Catch(func() string {
			f := encodeFile(segs)
			got, n, err := index.VerifDecodeSnapshot(io.LimitReader(bytes.NewReader(f), int64(len(f)-4)))
			if err != nil {
				return hlib.Hex(f) + " error"
			}
			st.Count(fmt.Sprintf("rt:size-%s", sizeClass(len(f))))
			return hlib.Hex(f) + " ok " + segsString(got) + " n=" + strconv.FormatInt(n, 10)
		})
		st.Count(fmt.Sprintf("rt:segments-%s", countClass(len(segs))))
		emit(line+roarTable(payloads), res, true)
	case "rf":
		b := unhex(w[1])
		res := ask(work, line)
		st.Count("rf:" + classOf(res))
		emit(line+roarTable(framedPayloads(b)), res, len(b) > 0)
	case "ld", "ldw":
		f := unhex(w[2])
		res := ask(work, line)
		st.Count(w[0] + "-" + w[1] + ":" + classOf(res))
		var body []byte
		if len(f) >= 4 {
			body = f[:len(f)-4]
		}
		ps := framedPayloads(body)
		if w[3] != "-" {
			o := unhex(w[3])
			if len(o) >= 4 {
				ps = append(ps, framedPayloads(o[:len(o)-4])...)
			}
		}
		emit(line+roarTable(ps), res, len(f) > 0)
	case "real":
		variant, _ := strconv.Atoi(w[1])
		seed, _ := strconv.Atoi(w[2])
		file, ctx, err := realIndex(filepath.Join(work, "real"), variant, uint64(seed))
		if err != nil {
			out("ld mm - - -", "harness-error "+err.Error())
			return
		}
		st.Count("real:files")
		for _, m := range []string{"mm", "nm"} {
			op := "ld " + m + " " + hlib.Hex(file) + " - " + ctx
			res := ask(work, op)
			st.Count("ld-" + m + ":" + classOf(res))
			emit(op+roarTable(framedPayloads(file[:len(file)-4])), res, true)
		}
	default:
		out(line, "bad-op")
	}
	st.Distribution["child-restarts"] = restarts
}

func sizeClass(n int) string {
	switch {
	case n <= 100:
		return "le100"
	case n <= 4096:
		return "le4096"
	case n <= 8192:
		return "le8192"
	}
	return "gt8192"
}

func countClass(n int) string {
	switch {
	case n == 0:
		return "0"
	case n == 1:
		return "1"
	case n < 128:
		return "lt128"
	}
	return "ge128"
}

// realIndex runs the real Writer (batches, deletions, close) and returns the newest snapshot file it
// left, and the id:version context of the segments that file names.
func realIndex(dir string, variant int, seed uint64) ([]byte, string, error) {
	_ = os.RemoveAll(dir)
	r := hlib.NewRand(seed)
	ver := uint32(1 + variant%2)
	cfg := bluge.DefaultConfig(dir)
	icfg := cfg.VerifIndexConfig().WithSegmentVersion(ver)
	if ver == 2 {
		// ice v2 shares a decompression buffer between concurrent merges of one segment (known finding
		// ice-v2-stored-fields-race-with-merge, a panic in a background goroutine): only the persister's
		// in-memory merge runs for v2, no file merges beside it
		icfg.MergePlanOptions.MaxSegmentsPerTier = 1 << 20
		icfg.MergePlanOptions.FloorSegmentSize = 1 // budget = number of live documents >= number of segments
	}
	cfg = cfg.VerifWithIndexConfig(icfg)
	w, err := bluge.OpenWriter(cfg)
	if err != nil {
		return nil, "", err
	}
	nb := 2 + r.Intn(4)
	id := 0
	for b := 0; b < nb; b++ {
		batch := bluge.NewBatch()
		for i := 0; i < 5+r.Intn(40); i++ {
			doc := bluge.NewDocument(fmt.Sprint("d", id)).AddField(bluge.NewTextField("t", fmt.Sprint("hello w", id%7)))
			batch.Update(doc.ID(), doc)
			id++
		}
		if b > 0 {
			for i := 0; i < 1+r.Intn(6); i++ {
				batch.Delete(bluge.Identifier(fmt.Sprint("d", r.Intn(id))))
			}
		}
		if err = w.Batch(batch); err != nil {
			return nil, "", err
		}
	}
	if err = w.Close(); err != nil {
		return nil, "", err
	}
	ents, _ := os.ReadDir(dir)
	var snps []string
	for _, e := range ents {
		if filepath.Ext(e.Name()) == ".snp" {
			snps = append(snps, e.Name())
		}
	}
	if len(snps) == 0 {
		return nil, "", fmt.Errorf("no snapshot file")
	}
	sort.Strings(snps)
	file, err := os.ReadFile(filepath.Join(dir, snps[len(snps)-1]))
	if err != nil || len(file) < 4 {
		return nil, "", fmt.Errorf("unreadable snapshot file")
	}
	segs, _, err := index.VerifDecodeSnapshot(bytes.NewReader(file[:len(file)-4]))
	if err != nil {
		return nil, "", err
	}
	return file, ctxOf(segs), nil
}

func main() {
	if len(os.Args) > 2 && os.Args[1] == "child" {
		childMain()
		return
	}
	hlib.Main(h{})
	if cp != nil {
		_ = cp.in.Close()
		_ = cp.cmd.Wait()
	}
}

// Correspondence harness for C09: top-N, sorting and paging.
//
// Two sources of matches, one set of operations:
//
//	ref R idx  : a real in-memory index built through the public API (bluge.InMemoryOnlyConfig, keyword /
//	             numeric / date / text fields, missing values, several segments, deletions); searches go
//	             through Reader.Search(TopNSearch...). The reference list is Reader.Search(AllMatches) in hit
//	             order, each match with its sort value computed by a FRESH SortOrder (SortOrder.Compute).
//	             After `case … multi c1#c2#c3` the same goes through bluge.MultiSearch over all the indexes.
//	ref R stub : a synthetic match stream with arbitrary byte strings as sort values; searches go through
//	             TopNSearch.Collector().Collect(stub searcher) — the real Collector() and the real collector.
//
// Operations (see Exec): sortvar (a SortOrder VALUE shared by later requests), topn, after, before,
// req/run (one request object re-used), chain (expanded at run time into page operations).
// Every search prints the hits it returned (hit number / doc number : sort value) and a fingerprint of
// the request's sort order after the search (direction and missing-value replacement of every key, observed
// through SortOrder.Compare and Sort.Value), so a collector that changes the caller's sort order is seen
// at the operation where it happens.
package main

import (
	"context"
	"fmt"
	"math"
	"sort"
	"strconv"
	"strings"
	"time"

	"github.com/blugelabs/bluge"
	"github.com/blugelabs/bluge/search"

	"verif/harness/hlib"
)

type h struct{ st *state }

func (h) Rule() string {
	return "cases are (a) in-memory indexes of 0..40 (and 1100..1400) documents in 1-3 segments with deletions, keyword/numeric/date/text fields drawn from 2-7 values each (heavy ties) and missing with probability 1/4, queried by match-all / term / boolean queries, (a') 2-3 such indexes of different sizes searched together through bluge.MultiSearch, and (b) synthetic match streams of 0..2100 matches with 1-3 arbitrary byte-string sort values (0x00.., 0xff.., ties, missing; every present value strictly between the replacements lowTerm and highTerm), (c) two fixed probes with present values at or beyond those replacements (empty, 0x00, 10 and 11 x 0xff); per reference list: (n, from) over {0,1,9,10,11,count-1,count,count+5}^2, sort orders of 1-3 keys mixing _score/text/numeric/date with every asc/desc and missing first/last combination, built fresh (custom or string form) or left at the request's default, from a SortOrder value shared between requests, or inside one re-used request; after/before chains of page sizes {1,2,3,5,9,10,11,count,count+1} in all three re-use modes. A case is an executed search; it is non-trivial when the reference list has at least 2 matches and n > 0; distinct by operation line"
}

// ---------------------------------------------------------------------------------- sort specs

type keySpec struct {
	src   string // idx: score|k|k2|u|n|d ; stub: c0,c1,c2
	desc  bool
	first bool
}

func parseSpec(s string) []keySpec {
	var out []keySpec
	if s == "" {
		return out
	}
	for _, p := range strings.Split(s, ",") {
		w := strings.Split(p, ":")
		out = append(out, keySpec{src: w[0], desc: w[1] == "d", first: w[2] == "f"})
	}
	return out
}

func specString(ks []keySpec) string {
	var ps []string
	for _, k := range ks {
		d, f := "a", "l"
		if k.desc {
			d = "d"
		}
		if k.first {
			f = "f"
		}
		ps = append(ps, k.src+":"+d+":"+f)
	}
	return strings.Join(ps, ",")
}

// can the spec be written with TopNSearch.SortBy([]string)?  ("_score" always means descending there)
func stringForm(ks []keySpec) ([]string, bool) {
	var out []string
	for _, k := range ks {
		if k.first || strings.HasPrefix(k.src, "c") {
			return nil, false
		}
		if k.src == "score" {
			if !k.desc {
				return nil, false
			}
			out = append(out, "-_score")
			continue
		}
		if k.desc {
			out = append(out, "-"+k.src)
		} else {
			out = append(out, k.src)
		}
	}
	return out, true
}

// ---------------------------------------------------------------------------------- state of a case

type docT struct {
	id     string
	idx    int               // which index of the case holds it
	fields map[string]string // k,k2,u: text; n: float bits hex; d: nanos hex; t: words joined by _
}

type refT struct {
	kind     string // idx | stub
	q        string
	spec     []keySpec
	stubKeys [][][]byte // stub: per match (Number = index) the raw values, nil = missing
	count    int
	other    int // idx over several readers: matches that live in a reader other than the first
}

type reqT struct {
	ref *refT
	req *bluge.TopNSearch
}

type chainT struct {
	pages, hits int
}

type state struct {
	writers []*bluge.Writer
	readers []*bluge.Reader // one: Reader.Search; several: bluge.MultiSearch over all of them
	docs    map[string]*docT
	refs    map[string]*refT
	vars    map[string]search.SortOrder
	reqs    map[string]*reqT
	chain   *chainT
}

func (s *state) reset() {
	for _, r := range s.readers {
		_ = r.Close()
	}
	for _, w := range s.writers {
		_ = w.Close()
	}
	*s = state{docs: map[string]*docT{}, refs: map[string]*refT{}, vars: map[string]search.SortOrder{}, reqs: map[string]*reqT{}}
}

// stub sort value source: the x-th raw value of match number match.Number
type stubSrc struct {
	ref *refT
	x   int
}

func (s *stubSrc) Fields() []string { return nil }
func (s *stubSrc) Value(m *search.DocumentMatch) []byte {
	if m.Number >= uint64(len(s.ref.stubKeys)) {
		return nil
	}
	return s.ref.stubKeys[m.Number][s.x]
}

type stubSearcher struct {
	i, n int
}

func (ss *stubSearcher) Next(ctx *search.Context) (*search.DocumentMatch, error) {
	if ss.i < ss.n {
		rv := ctx.DocumentMatchPool.Get()
		rv.Number = uint64(ss.i)
		ss.i++
		return rv, nil
	}
	return nil, nil
}
func (ss *stubSearcher) DocumentMatchPoolSize() int { return 1 }
func (ss *stubSearcher) Close() error               { return nil }

func buildSort(ref *refT, spec []keySpec) search.SortOrder {
	so := make(search.SortOrder, 0, len(spec))
	for x, k := range spec {
		var src search.TextValueSource
		switch {
		case ref.kind == "stub":
			src = &stubSrc{ref: ref, x: x}
		case k.src == "score":
			src = search.DocumentScore()
		default:
			src = search.Field(k.src)
		}
		s := search.SortBy(src)
		if k.desc {
			s.Desc()
		}
		if k.first {
			s.MissingFirst()
		}
		so = append(so, s)
	}
	return so
}

func buildQuery(q string) bluge.Query {
	w := strings.Split(q, ":")
	switch w[0] {
	case "term":
		return bluge.NewTermQuery(w[2]).SetField(w[1])
	case "bool":
		b := bluge.NewBooleanQuery()
		for _, t := range w[1:] {
			b.AddShould(bluge.NewTermQuery(t).SetField("t"))
		}
		return b
	}
	return bluge.NewMatchAllQuery()
}

// fingerprint of a sort order as its user can observe it: per key direction (through Compare) and the
// replacement used for a missing value (through Sort.Value on a match that has no value)
func fingerprint(so search.SortOrder) string {
	var ps []string
	for x := range so {
		a := &search.DocumentMatch{HitNumber: 1}
		b := &search.DocumentMatch{HitNumber: 1}
		for y := range so {
			a.SortValue = append(a.SortValue, []byte{1})
			if y == x {
				b.SortValue = append(b.SortValue, []byte{2})
			} else {
				b.SortValue = append(b.SortValue, []byte{1})
			}
		}
		d := "a"
		if so.Compare(a, b) > 0 {
			d = "d"
		}
		v := so[x].Value(&search.DocumentMatch{Number: math.MaxUint64, Score: 1})
		m := "v"
		if len(v) == 1 && v[0] == 0 {
			m = "l"
		} else if len(v) == 10 && v[0] == 0xff {
			m = "h"
		}
		ps = append(ps, d+m)
	}
	if len(ps) == 0 {
		return "-"
	}
	return strings.Join(ps, ",")
}

func keysHex(ks [][]byte) string {
	ps := make([]string, len(ks))
	for i, k := range ks {
		ps[i] = hlib.Hex(k)
	}
	if len(ps) == 0 {
		return "."
	}
	return strings.Join(ps, ",")
}

func parseKeys(s string) [][]byte {
	if s == "." {
		return [][]byte{}
	}
	var out [][]byte
	for _, p := range strings.Split(s, ",") {
		out = append(out, unhex(p))
	}
	return out
}

func unhex(s string) []byte {
	if s == "-" {
		return []byte{}
	}
	b := make([]byte, len(s)/2)
	for i := range b {
		v, _ := strconv.ParseUint(s[2*i:2*i+2], 16, 8)
		b[i] = byte(v)
	}
	return b
}

type hit struct {
	hit  int
	doc  uint64
	keys [][]byte
}

func hitsString(hs []hit) string {
	if len(hs) == 0 {
		return "none"
	}
	ps := make([]string, len(hs))
	for i, x := range hs {
		ps[i] = fmt.Sprintf("%d/%d:%s", x.hit, x.doc, keysHex(x.keys))
	}
	return strings.Join(ps, ";")
}

// run one request on the real code
func (s *state) search(ref *refT, req *bluge.TopNSearch) ([]hit, error) {
	var it search.DocumentMatchIterator
	var err error
	if ref.kind == "stub" {
		it, err = req.Collector().Collect(context.Background(), req.Aggregations(), &stubSearcher{n: ref.count})
	} else {
		it, err = s.searchReaders(req)
	}
	if err != nil {
		return nil, err
	}
	var out []hit
	for {
		m, err := it.Next()
		if err != nil {
			return nil, err
		}
		if m == nil {
			break
		}
		x := hit{hit: m.HitNumber, doc: m.Number}
		for _, k := range m.SortValue {
			x.keys = append(x.keys, append([]byte{}, k...))
		}
		out = append(out, x)
	}
	return out, nil
}

// one index: Reader.Search; several: bluge.MultiSearch (ONE collector over the searchers of all readers)
func (s *state) searchReaders(req bluge.SearchRequest) (search.DocumentMatchIterator, error) {
	if len(s.readers) == 1 {
		return s.readers[0].Search(context.Background(), req)
	}
	return bluge.MultiSearch(context.Background(), req, s.readers...)
}

func kv(w []string) map[string]string {
	m := map[string]string{}
	for _, x := range w {
		if i := strings.Index(x, "="); i > 0 {
			m[x[:i]] = x[i+1:]
		}
	}
	return m
}

func atoi(s string) int { v, _ := strconv.Atoi(s); return v }

// the sort order a request line asks for: so=new (fresh, custom), so=newstr (fresh, string form), so=<var>
func (s *state) applySort(req *bluge.TopNSearch, ref *refT, so string) bool {
	switch so {
	case "default":
		// the request keeps the sort order NewTopNSearch gave it (score descending)
		return specString(ref.spec) == "score:d:l"
	case "new":
		req.SortByCustom(buildSort(ref, ref.spec))
	case "newstr":
		if ss, ok := stringForm(ref.spec); ok {
			req.SortBy(ss)
		} else {
			req.SortByCustom(buildSort(ref, ref.spec))
		}
	default:
		v, ok := s.vars[so]
		if !ok {
			return false
		}
		req.SortByCustom(v)
	}
	return true
}

func (s *state) newReq(ref *refT, n int) *bluge.TopNSearch {
	var q bluge.Query
	if ref.kind == "idx" {
		q = buildQuery(ref.q)
	}
	return bluge.NewTopNSearch(n, q)
}

func (s *state) runReq(ref *refT, req *bluge.TopNSearch, st *hlib.Stats) (string, []hit) {
	var hs []hit
	res := hlib.Catch(func() string {
		var err error
		hs, err = s.search(ref, req)
		if err != nil {
			return "err"
		}
		return hitsString(hs) + "|so=" + fingerprint(req.SortOrder())
	})
	if res == "panic" {
		hs = nil
	}
	if s.chain != nil {
		s.chain.pages++
		s.chain.hits += len(hs)
	}
	return res, hs
}

// ---------------------------------------------------------------------------------- Exec

func (hh h) Exec(line string, out func(string, string), st *hlib.Stats, work string) {
	s := hh.st
	w := strings.Split(line, " ")
	st.Count("op:" + w[0])
	switch w[0] {
	case "case":
		s.reset()
		res := "case"
		if len(w) >= 4 && w[2] == "multi" {
			// several in-memory indexes, searched together with bluge.MultiSearch
			res = hlib.Catch(func() string {
				for i, c := range strings.Split(w[3], "#") {
					if r := s.buildIndex(c, i); r != "case" {
						return r
					}
				}
				return "case"
			})
			st.Count("case:multi")
		}
		if len(w) >= 4 && w[2] == "index" {
			res = hlib.Catch(func() string { return s.buildIndex(w[3], 0) })
		}
		out(line, res)
	case "ref":
		s.execRef(w, line, out, st)
	case "sortvar":
		ref := s.refs[w[2]]
		if ref == nil {
			out(line, "noref")
			return
		}
		s.vars[w[1]] = buildSort(ref, ref.spec)
		out(line, "ok")
	case "topn", "after", "before":
		ref := s.refs[w[1]]
		if ref == nil {
			out(line, "noref")
			return
		}
		a := kv(w[2:])
		req := s.newReq(ref, atoi(a["n"]))
		if !s.applySort(req, ref, a["so"]) {
			out(line, "novar")
			return
		}
		switch w[0] {
		case "topn":
			req.SetFrom(atoi(a["from"]))
		case "after":
			req.After(parseKeys(a["key"]))
		case "before":
			req.Before(parseKeys(a["key"]))
		}
		res, _ := s.runReq(ref, req, st)
		s.account(st, w[0], ref, atoi(a["n"]), res)
		out(line, res)
	case "req":
		ref := s.refs[w[2]]
		if ref == nil {
			out(line, "noref")
			return
		}
		a := kv(w[3:])
		req := s.newReq(ref, atoi(a["n"]))
		if !s.applySort(req, ref, a["so"]) {
			out(line, "novar")
			return
		}
		s.reqs[w[1]] = &reqT{ref: ref, req: req}
		out(line, "ok")
	case "run":
		rq := s.reqs[w[1]]
		if rq == nil {
			out(line, "noreq")
			return
		}
		a := kv(w[2:])
		if v, ok := a["from"]; ok {
			rq.req.SetFrom(atoi(v))
		}
		if v, ok := a["after"]; ok {
			rq.req.After(parseKeys(v))
		}
		if v, ok := a["before"]; ok {
			rq.req.Before(parseKeys(v))
		}
		res, _ := s.runReq(rq.ref, rq.req, st)
		s.account(st, "run", rq.ref, rq.req.Size(), res)
		out(line, res)
	case "chain":
		s.execChain(w, out, st)
	default:
		out(line, "bad-op")
	}
}

func (s *state) account(st *hlib.Stats, op string, ref *refT, n int, res string) {
	st.Case(op+" "+res, ref.count >= 2 && n > 0)
	switch {
	case res == "panic" || res == "err":
		st.Count("res:" + res)
	case strings.HasPrefix(res, "none"):
		st.Count("res:empty")
	default:
		st.Count("res:hits")
	}
	st.Count("src:" + ref.kind)
	if len(s.readers) > 1 && ref.kind == "idx" {
		st.Count("src:multisearch")
		fieldKey := false
		for _, k := range ref.spec {
			if k.src != "score" {
				fieldKey = true
			}
		}
		if fieldKey && ref.other > 0 && res != "panic" && res != "err" && !strings.HasPrefix(res, "none") {
			// a field-sorted top-N over several readers with matches outside the first reader
			st.Count("multisearch-field-sort")
		}
	}
	if n+0 > 10 {
		st.Count("n>10")
	}
}

// chain R dir=after|before n=N so=new|newstr|V mode=fresh|samereq start=F [req=Q] max=M
// expanded into: chainstart, the first page, one operation per further page, chainend
func (s *state) execChain(w []string, out func(string, string), st *hlib.Stats) {
	ref := s.refs[w[1]]
	if ref == nil {
		out(strings.Join(w, " "), "noref")
		return
	}
	a := kv(w[2:])
	n, start, max := atoi(a["n"]), atoi(a["start"]), atoi(a["max"])
	dir, so, mode := a["dir"], a["so"], a["mode"]
	if _, ok := s.vars[so]; !ok && so != "new" && so != "newstr" && so != "default" {
		out(strings.Join(w, " "), "novar")
		return
	}
	out(fmt.Sprintf("chainstart %s dir=%s n=%d start=%d so=%s mode=%s", w[1], dir, n, start, so, mode), "ok")
	s.chain = &chainT{}
	st.Count("chain:" + dir + ":" + mode + ":" + map[bool]string{true: "sharedsort", false: "ownsort"}[so != "new" && so != "newstr" && so != "default"])
	var page []hit
	var res string
	var rq *reqT
	if mode == "samereq" {
		req := s.newReq(ref, n)
		s.applySort(req, ref, so)
		rq = &reqT{ref: ref, req: req}
		s.reqs[a["req"]] = rq
		out(fmt.Sprintf("req %s %s n=%d so=%s", a["req"], w[1], n, so), "ok")
		req.SetFrom(start)
		res, page = s.runReq(ref, req, st)
		out(fmt.Sprintf("run %s from=%d", a["req"], start), res)
	} else {
		req := s.newReq(ref, n)
		s.applySort(req, ref, so)
		req.SetFrom(start)
		res, page = s.runReq(ref, req, st)
		out(fmt.Sprintf("topn %s n=%d from=%d so=%s", w[1], n, start, so), res)
	}
	s.account(st, "chainpage", ref, n, res)
	for i := 0; i < max && len(page) > 0; i++ {
		var key [][]byte
		if dir == "after" {
			key = page[len(page)-1].keys
		} else {
			key = page[0].keys
		}
		ks := keysHex(key)
		if mode == "samereq" {
			if dir == "after" {
				rq.req.After(key)
			} else {
				rq.req.Before(key)
			}
			res, page = s.runReq(ref, rq.req, st)
			out(fmt.Sprintf("run %s %s=%s", a["req"], dir, ks), res)
		} else {
			req := s.newReq(ref, n)
			s.applySort(req, ref, so)
			if dir == "after" {
				req.After(key)
			} else {
				req.Before(key)
			}
			res, page = s.runReq(ref, req, st)
			out(fmt.Sprintf("%s %s n=%d so=%s key=%s", dir, w[1], n, so, ks), res)
		}
		s.account(st, "chainpage", ref, n, res)
	}
	c := s.chain
	s.chain = nil
	out("chainend "+w[1], fmt.Sprintf("pages=%d hits=%d", c.pages, c.hits))
}

// ---------------------------------------------------------------------------------- index and reference

// corpus: batches separated by '|', entries by ';'; entry "dN/k=..,n=..,…" inserts, "!dN" deletes
func (s *state) buildIndex(corpus string, idx int) string {
	cfg := bluge.InMemoryOnlyConfig()
	w, err := bluge.OpenWriter(cfg)
	if err != nil {
		return "err"
	}
	s.writers = append(s.writers, w)
	if corpus != "." {
		for _, bs := range strings.Split(corpus, "|") {
			b := bluge.NewBatch()
			for _, e := range strings.Split(bs, ";") {
				if e == "" {
					continue
				}
				if e[0] == '!' {
					b.Delete(bluge.Identifier(e[1:]))
					delete(s.docs, e[1:])
					continue
				}
				parts := strings.SplitN(e, "/", 2)
				d := &docT{id: parts[0], idx: idx, fields: map[string]string{}}
				doc := bluge.NewDocument(d.id)
				if len(parts) == 2 && parts[1] != "" {
					for _, f := range strings.Split(parts[1], ",") {
						i := strings.Index(f, "=")
						name, val := f[:i], f[i+1:]
						d.fields[name] = val
						switch name {
						case "kx": // keyword field k with an arbitrary byte value, given in hex ("-" = the empty value)
							d.fields["k"] = string(unhex(val))
							delete(d.fields, "kx")
							doc.AddField(bluge.NewKeywordFieldBytes("k", unhex(val)).Sortable())
						case "k", "k2", "u":
							doc.AddField(bluge.NewKeywordField(name, val).Sortable())
						case "n":
							bits, _ := strconv.ParseUint(val, 16, 64)
							doc.AddField(bluge.NewNumericField(name, math.Float64frombits(bits)))
						case "d":
							ns, _ := strconv.ParseUint(val, 16, 64)
							doc.AddField(bluge.NewDateTimeField(name, time.Unix(0, int64(ns))))
						case "t":
							doc.AddField(bluge.NewTextField(name, strings.ReplaceAll(val, "_", " ")))
						}
					}
				}
				s.docs[d.id] = d
				b.Insert(doc)
			}
			if err := w.Batch(b); err != nil {
				return "err"
			}
		}
	}
	r, err := w.Reader()
	if err != nil {
		return "err"
	}
	s.readers = append(s.readers, r)
	return "case"
}

func rawOf(k keySpec, d *docT, score float64) string {
	if k.src == "score" {
		return fmt.Sprintf("f%016x", math.Float64bits(score))
	}
	v, ok := d.fields[k.src]
	if !ok {
		return "~"
	}
	switch k.src {
	case "n":
		return "f" + v
	case "d":
		return "i" + v
	}
	return "t" + hlib.Hex([]byte(v))
}

// ref R idx q=Q s=SPEC            -> the op line gets raw=… appended (one entry per hit, in hit order)
// ref R stub s=SPEC raw=…         -> raw values come from the script
// result: the sort value of every hit as the real code computes it
func (s *state) execRef(w []string, line string, out func(string, string), st *hlib.Stats) {
	a := kv(w[3:])
	ref := &refT{kind: w[2], q: a["q"], spec: parseSpec(a["s"])}
	s.refs[w[1]] = ref
	st.Count(fmt.Sprintf("keys:%d", len(ref.spec)))
	for _, k := range ref.spec {
		src := k.src
		if strings.HasPrefix(src, "c") {
			src = "bytes"
		}
		st.Count("sortkey:" + src + ":" + map[bool]string{true: "desc", false: "asc"}[k.desc] + ":" + map[bool]string{true: "first", false: "last"}[k.first])
	}
	if ref.kind == "stub" {
		raw := a["raw"]
		if raw != "." && raw != "" {
			for _, e := range strings.Split(raw, ";") {
				vals := strings.Split(e[strings.Index(e, ":")+1:], ",")
				row := make([][]byte, len(ref.spec))
				for x := range ref.spec {
					if x < len(vals) && vals[x] != "~" {
						row[x] = unhex(vals[x][1:])
					}
				}
				ref.stubKeys = append(ref.stubKeys, row)
			}
		}
		ref.count = len(ref.stubKeys)
		// the real sort values: through the real Sort objects
		res := hlib.Catch(func() string {
			so := buildSort(ref, ref.spec)
			var ps []string
			for i := 0; i < ref.count; i++ {
				m := &search.DocumentMatch{Number: uint64(i)}
				so.Compute(m)
				ps = append(ps, keysHex(m.SortValue))
			}
			if len(ps) == 0 {
				return "none"
			}
			return strings.Join(ps, ";")
		})
		st.Count(sizeClass(ref.count))
		out(line, res)
		return
	}
	var raws []string
	res := hlib.Catch(func() string {
		// the complete match list in the order ONE collector sees it: AllMatches through the same entry point
		// (for several readers: reader order, then document order; AllIterator numbers the hits)
		it, err := s.searchReaders(bluge.NewAllMatches(buildQuery(ref.q)))
		if err != nil {
			return "err"
		}
		so := buildSort(ref, ref.spec)
		sctx := search.NewSearchContext(0, 0)
		var ps []string
		for {
			m, err := it.Next()
			if err != nil {
				return "err"
			}
			if m == nil {
				break
			}
			if fs := so.Fields(); len(fs) > 0 {
				if len(s.readers) > 1 {
					// a context of its own for every match: the reference sort value of a match is read
					// from the reader the match came from, whatever the search context caches
					sctx = search.NewSearchContext(0, 0)
				}
				if err := m.LoadDocumentValues(sctx, fs); err != nil {
					return "err"
				}
			}
			so.Compute(m)
			id := ""
			_ = m.VisitStoredFields(func(f string, v []byte) bool {
				if f == "_id" {
					id = string(v)
				}
				return true
			})
			d := s.docs[id]
			if d == nil {
				d = &docT{fields: map[string]string{}}
			}
			if d.idx > 0 {
				ref.other++
			}
			vs := make([]string, len(ref.spec))
			for x, k := range ref.spec {
				vs[x] = rawOf(k, d, m.Score)
			}
			if len(vs) == 0 {
				vs = []string{"."}
			}
			raws = append(raws, fmt.Sprintf("%d:%s", m.Number, strings.Join(vs, ",")))
			ps = append(ps, keysHex(m.SortValue))
			if m.HitNumber != len(ps) {
				return "hit-number-gap"
			}
		}
		ref.count = len(ps)
		if len(ps) == 0 {
			return "none"
		}
		return strings.Join(ps, ";")
	})
	rawS := "."
	if len(raws) > 0 {
		rawS = strings.Join(raws, ";")
	}
	st.Count(sizeClass(ref.count))
	out(line+" raw="+rawS, res)
}

func sizeClass(n int) string {
	switch {
	case n == 0:
		return "size:0"
	case n == 1:
		return "size:1"
	case n <= 10:
		return "size:2-10"
	case n <= 40:
		return "size:11-40"
	}
	return "size:41+"
}

// ---------------------------------------------------------------------------------- Gen

func grid(count int) []int {
	set := map[int]bool{}
	for _, v := range []int{0, 1, 9, 10, 11, count - 1, count, count + 5} {
		if v >= 0 {
			set[v] = true
		}
	}
	var out []int
	for v := range set {
		out = append(out, v)
	}
	sort.Ints(out)
	return out
}

func pageSizes(count int) []int {
	set := map[int]bool{}
	for _, v := range []int{1, 2, 3, 5, 9, 10, 11, count, count + 1} {
		if v >= 1 {
			set[v] = true
		}
	}
	var out []int
	for v := range set {
		out = append(out, v)
	}
	sort.Ints(out)
	return out
}

type genT struct {
	r     *hlib.Rand
	emit  func(string)
	nvar  int
	nreq  int
	nref  int
	quick bool
}

func (g *genT) randSpec(srcs []string, nkeys int, uniqueLast string) []keySpec {
	perm := append([]string{}, srcs...)
	for i := len(perm) - 1; i > 0; i-- {
		j := g.r.Intn(i + 1)
		perm[i], perm[j] = perm[j], perm[i]
	}
	var ks []keySpec
	for i := 0; i < nkeys && i < len(perm); i++ {
		ks = append(ks, keySpec{src: perm[i], desc: g.r.Bool(), first: g.r.Bool()})
	}
	if uniqueLast != "" {
		ks = append(ks, keySpec{src: uniqueLast, desc: g.r.Bool(), first: g.r.Bool()})
	}
	return ks
}

// operations on one reference list of `count` matches
func (g *genT) opsFor(R string, count int, spec []keySpec, full bool) {
	r := g.r
	gr := grid(count)
	_, strOK := stringForm(spec)
	isDefault := specString(spec) == "score:d:l"
	large := count > 400
	pickSo := func() string {
		switch {
		case isDefault && r.Chance(50):
			return "default"
		case strOK && r.Chance(25):
			return "newstr"
		}
		return "new"
	}
	// the (n, from) grid with a fresh sort order
	for _, n := range gr {
		for _, f := range gr {
			if large && r.Chance(85) || !full && r.Chance(70) {
				continue
			}
			g.emit(fmt.Sprintf("topn %s n=%d from=%d so=%s", R, n, f, pickSo()))
		}
	}
	if large { // windows across the 1024-hit boundaries, where ties must still follow index order
		for _, f := range []int{1020, 1023, 1024, 1025, 2047, 2048} {
			if f < count {
				g.emit(fmt.Sprintf("topn %s n=%d from=%d so=%s", R, 3+r.Intn(12), f, pickSo()))
			}
		}
	}
	// a SortOrder value shared by several requests (no Before in between: must stay correct)
	g.nvar++
	v := fmt.Sprintf("v%d", g.nvar)
	g.emit(fmt.Sprintf("sortvar %s %s", v, R))
	for i := 0; i < 4; i++ {
		g.emit(fmt.Sprintf("topn %s n=%d from=%d so=%s", R, gr[r.Intn(len(gr))], gr[r.Intn(len(gr))], v))
	}
	// one request object re-used with different offsets
	g.nreq++
	q := fmt.Sprintf("q%d", g.nreq)
	g.emit(fmt.Sprintf("req %s %s n=%d so=%s", q, R, gr[r.Intn(len(gr))], pickSo()))
	for i := 0; i < 3; i++ {
		g.emit(fmt.Sprintf("run %s from=%d", q, gr[r.Intn(len(gr))]))
	}
	// chains
	ps := pageSizes(count)
	if large {
		ps = []int{count/3 + 1, count, count + 1}
	}
	for _, p := range ps {
		if !full && !large && r.Chance(50) {
			continue
		}
		max := count/p + 3
		for _, dir := range []string{"after", "before"} {
			for _, mode := range []string{"fresh", "sharedsort", "samereq"} {
				if (!full || large) && r.Chance(40) {
					continue
				}
				start := 0
				if dir == "before" {
					switch r.Intn(3) {
					case 0:
						start = count - 1
					case 1:
						start = count / 2
					default:
						start = count - p
					}
					if start < 0 {
						start = 0
					}
				}
				so, m := pickSo(), mode
				if mode == "sharedsort" {
					g.nvar++
					so = fmt.Sprintf("v%d", g.nvar)
					g.emit(fmt.Sprintf("sortvar %s %s", so, R))
					m = "fresh"
				}
				g.nreq++
				g.emit(fmt.Sprintf("chain %s dir=%s n=%d so=%s mode=%s start=%d req=q%d max=%d", R, dir, p, so, m, start, g.nreq, max))
				if mode == "sharedsort" || so == "default" {
					// and the same SortOrder value / the default order once more, for an ordinary request
					g.emit(fmt.Sprintf("topn %s n=%d from=0 so=%s", R, count+5, so))
				}
			}
		}
	}
	// malformed: a search-after key with fewer values than the sort order has keys
	if len(spec) >= 2 && r.Chance(30) {
		g.emit(fmt.Sprintf("after %s n=3 so=new key=61", R))
	}
}

var kVals = []string{"a", "b", "c"}
var k2Vals = []string{"x", "y"}
var nVals = []float64{-2.5, -1, 0, 1, 1.5, 3, 1e10}
var dVals = []int64{-1000000000, 0, 1577836800000000000, 1577836800000000001}

func (g *genT) corpus(count int) (string, int) {
	return g.corpusAt(count, 0, r2perm(g.r, count))
}

// documents d<off>..d<off+count-1>; the unique field u takes perm[off+i] (perm may span several indexes,
// so that their u values interleave)
func (g *genT) corpusAt(count, off int, perm []int) (string, int) {
	r := g.r
	nb := 1 + r.Intn(3)
	batches := make([][]string, nb)
	live := 0
	var ids []string
	for i := 0; i < count; i++ {
		var fs []string
		if !r.Chance(25) {
			fs = append(fs, "k="+kVals[r.Intn(len(kVals))])
		}
		if !r.Chance(30) {
			fs = append(fs, "k2="+k2Vals[r.Intn(len(k2Vals))])
		}
		fs = append(fs, fmt.Sprintf("u=u%03d", perm[off+i]))
		if !r.Chance(25) {
			fs = append(fs, fmt.Sprintf("n=%016x", math.Float64bits(nVals[r.Intn(len(nVals))])))
		}
		if !r.Chance(25) {
			fs = append(fs, fmt.Sprintf("d=%016x", uint64(dVals[r.Intn(len(dVals))])))
		}
		var ws []string
		for j, tf := 0, r.Intn(4); j < tf; j++ {
			ws = append(ws, "x")
		}
		for j, tf := 0, r.Intn(3); j < tf; j++ {
			ws = append(ws, "y")
		}
		for j, tf := 0, r.Intn(3); j < tf; j++ {
			ws = append(ws, "z")
		}
		if len(ws) > 0 {
			fs = append(fs, "t="+strings.Join(ws, "_"))
		}
		b := i * nb / count
		id := fmt.Sprintf("d%d", off+i)
		batches[b] = append(batches[b], id+"/"+strings.Join(fs, ","))
		ids = append(ids, id)
		live++
		// delete an earlier document in a later batch
		if b > 0 && r.Chance(8) {
			victim := ids[r.Intn(len(ids)-1)]
			already := false
			for _, bb := range batches {
				for _, e := range bb {
					if e == "!"+victim {
						already = true
					}
				}
			}
			if !already && i*nb/count > (atoi(victim[1:])-off)*nb/count {
				batches[b] = append(batches[b], "!"+victim)
				live--
			}
		}
	}
	var bs []string
	for _, b := range batches {
		if len(b) > 0 {
			bs = append(bs, strings.Join(b, ";"))
		}
	}
	if len(bs) == 0 {
		return ".", 0
	}
	return strings.Join(bs, "|"), live
}

func r2perm(r *hlib.Rand, n int) []int {
	p := make([]int, n)
	for i := range p {
		p[i] = i
	}
	for i := n - 1; i > 0; i-- {
		j := r.Intn(i + 1)
		p[i], p[j] = p[j], p[i]
	}
	return p
}

// every random present value lies strictly between lowTerm {0x00} and highTerm 10x0xff (keyInRange): values at or
// beyond the two replacements for a missing value occur in the fixed probe cases only (see Gen)
var stubVals = [][]byte{{0, 0}, {0, 1}, {1}, {'a'}, {'a', 'b'}, {'b'}, {0x7f}, {0x80}, {0xff}, {0xff, 0},
	{0xff, 0xff, 0xff, 0xff, 0xff, 0xff, 0xff, 0xff, 0xff}, {0xff, 0xff, 0xff, 0xff, 0xff, 0xff, 0xff, 0xff, 0xff, 0xfe},
	{0xff, 0xff, 0xff, 0xff, 0xff, 0xff, 0xff, 0xff, 0xff, 0xfe, 0xff, 0xff}}

func (g *genT) stubRaw(count, nkeys int, unique bool, spread int) string {
	r := g.r
	if count == 0 {
		return "."
	}
	perm := r2perm(r, count)
	rows := make([]string, count)
	for i := 0; i < count; i++ {
		vs := make([]string, nkeys)
		for x := 0; x < nkeys; x++ {
			switch {
			case unique && x == nkeys-1:
				vs[x] = "t" + hlib.Hex([]byte{byte(perm[i] >> 8), byte(perm[i])})
			case r.Chance(15):
				vs[x] = "~"
			case r.Chance(70):
				vs[x] = "t" + hlib.Hex(stubVals[r.Intn(spread)%len(stubVals)])
			default:
				b := make([]byte, 1+r.Intn(3))
				for j := range b {
					b[j] = byte(r.Intn(256))
				}
				if len(b) == 1 && b[0] == 0 {
					b[0] = 1 // {0x00} is lowTerm itself
				}
				vs[x] = "t" + hlib.Hex(b)
			}
		}
		rows[i] = fmt.Sprintf("%d:%s", i, strings.Join(vs, ","))
	}
	return strings.Join(rows, ";")
}

func (h) Gen(r *hlib.Rand, tier string, scale int, emit func(string)) {
	g := &genT{r: r, emit: emit, quick: tier != "thorough"}
	nIdx, nStub := 14*scale, 40*scale
	if tier == "thorough" {
		nIdx, nStub = 150*scale, 500*scale
	}
	// ---- the probe of DESIGN.md as a fixed first case: asc -> [a b c d]; Before("c") -> [a b]; same sort again
	emit("case probe index d0/k=a;d1/k=b;d2/k=c;d3/k=d")
	emit("ref R0 idx q=all s=k:a:l")
	emit("sortvar v0 R0")
	emit("topn R0 n=10 from=0 so=v0")
	emit("before R0 n=10 so=v0 key=63")
	emit("topn R0 n=10 from=0 so=v0")
	// one request object that was given Before and is then asked to page forward / from an offset
	emit("req qp R0 n=2 so=new")
	emit("run qp before=64")
	emit("run qp after=61")
	emit("run qp from=1")
	// ---- fixed probe: PRESENT values at or beyond the replacements for a missing value — the empty keyword,
	// {0x00} (= lowTerm), 10 x 0xff (= highTerm), 11 x 0xff — next to documents that lack the field and ordinary
	// values; all four asc/desc x missing first/last orders; judged by the property-level order (missing block
	// strictly first / last, present values in byte order), reference = AllMatches
	ff10, ff11 := strings.Repeat("ff", 10), strings.Repeat("ff", 11)
	// (real index: the empty keyword and {0x00}; a keyword holding 0xff bytes does not come back from ice's doc values
	// as written — 0xff is their term separator, 11 x 0xff is read back as the empty value — so values >= highTerm
	// reach a sort order only through a custom TextValueSource: the synthetic probe below)
	emit("case mprobe index d0/kx=62;d1;d2/kx=-;d3/kx=7a;d4/kx=61;d5|d6/kx=-;d7/kx=0001;d8/kx=00;d9;d10/kx=6162;d11/kx=63")
	for i, sp := range []string{"k:a:f", "k:a:l", "k:d:f", "k:d:l"} {
		R := fmt.Sprintf("P%d", i)
		emit(fmt.Sprintf("ref %s idx q=all s=%s", R, sp))
		for _, nf := range [][2]int{{17, 0}, {3, 0}, {4, 2}, {5, 7}, {11, 1}} {
			emit(fmt.Sprintf("topn %s n=%d from=%d so=new", R, nf[0], nf[1]))
		}
	}
	emit("case sprobe")
	for i, sp := range []string{"c0:a:f", "c0:a:l", "c0:d:f", "c0:d:l"} {
		R := fmt.Sprintf("S%d", i)
		emit(fmt.Sprintf("ref %s stub s=%s raw=0:t62;1:~;2:t-;3:t%s;4:t61;5:~;6:t00;7:t%s;8:t-;9:t%s00;10:t63", R, sp, ff11, ff10, ff10))
		for _, nf := range [][2]int{{16, 0}, {3, 0}, {4, 2}, {11, 1}} {
			emit(fmt.Sprintf("topn %s n=%d from=%d so=new", R, nf[0], nf[1]))
		}
	}
	idxCounts := []int{0, 1, 2, 5, 9, 10, 11, 12, 15, 23, 40}
	srcs := []string{"score", "k", "k2", "u", "n", "d"}
	queries := []string{"all", "all", "term:t:x", "bool:x:y", "term:k:a"}
	for c := 0; c < nIdx; c++ {
		count := idxCounts[c%len(idxCounts)]
		if c >= len(idxCounts) {
			count = idxCounts[r.Intn(len(idxCounts))] + r.Intn(3)
		}
		corpus, _ := g.corpus(count)
		emit(fmt.Sprintf("case i%d index %s", c, corpus))
		nrefs := 3
		if tier == "thorough" {
			nrefs = 5
		}
		for j := 0; j < nrefs; j++ {
			g.nref++
			R := fmt.Sprintf("R%d", g.nref)
			var spec []keySpec
			switch j {
			case 0: // distinguishing: unique key last
				pool := []string{"score", "k", "k2", "n", "d"}
				spec = g.randSpec(pool, r.Intn(3), "u")
			case 1: // heavy ties
				spec = g.randSpec([]string{"k", "k2", "n", "d", "score"}, 1+r.Intn(2), "")
			default:
				spec = g.randSpec(srcs, 1+r.Intn(3), "")
			}
			q := queries[r.Intn(len(queries))]
			emit(fmt.Sprintf("ref %s idx q=%s s=%s", R, q, specString(spec)))
			// count of the reference list is not known at generation time for term queries; the grid uses
			// the corpus size (an upper bound) and the small constants
			g.opsFor(R, count, spec, j == 0 && c < len(idxCounts))
		}
		// requests that keep the DEFAULT sort order of NewTopNSearch (score descending)
		g.nref++
		R := fmt.Sprintf("R%d", g.nref)
		emit(fmt.Sprintf("ref %s idx q=%s s=score:d:l", R, []string{"all", "term:t:x", "bool:x:y", "bool:x:z"}[r.Intn(4)]))
		g.opsFor(R, count, []keySpec{{src: "score", desc: true}}, false)
	}
	// more than 1024 hits: Collect's hit numbers (the tie-break) must keep counting
	nLarge := 1
	if tier == "thorough" {
		nLarge = 4 * scale
	}
	for c := 0; c < nLarge; c++ {
		count := 1100 + r.Intn(300)
		corpus, _ := g.corpus(count)
		emit(fmt.Sprintf("case L%d index %s", c, corpus))
		for j, sp := range [][]keySpec{{{src: "score", desc: true}}, g.randSpec([]string{"k", "k2", "n", "d"}, 1+r.Intn(2), "")} {
			g.nref++
			R := fmt.Sprintf("R%d", g.nref)
			emit(fmt.Sprintf("ref %s idx q=%s s=%s", R, []string{"all", "bool:x:y:z"}[j%2], specString(sp)))
			g.opsFor(R, count, sp, false)
		}
	}
	// bluge.MultiSearch: 2-3 indexes of different sizes (one may be empty or hold no match), ONE collector over
	// their concatenated match streams; equal, interleaving and missing keys across the indexes
	nMulti := 8 * scale
	if tier == "thorough" {
		nMulti = 60 * scale
	}
	multiSizes := [][]int{{3, 5}, {7, 2, 4}, {12, 9}, {1, 11}, {0, 6}, {6, 0, 3}, {10, 10}, {30, 45}, {15, 4, 23}}
	for c := 0; c < nMulti; c++ {
		sizes := multiSizes[c%len(multiSizes)]
		if c >= len(multiSizes) {
			sizes = make([]int, 2+r.Intn(2))
			for i := range sizes {
				sizes[i] = r.Intn(25)
			}
		}
		total := 0
		for _, n := range sizes {
			total += n
		}
		perm := r2perm(r, total)
		var cs []string
		off := 0
		for _, n := range sizes {
			corpus, _ := g.corpusAt(n, off, perm)
			cs = append(cs, corpus)
			off += n
		}
		emit(fmt.Sprintf("case m%d multi %s", c, strings.Join(cs, "#")))
		for j := 0; j < 4; j++ {
			g.nref++
			R := fmt.Sprintf("R%d", g.nref)
			var spec []keySpec
			switch j {
			case 0: // one field key, all four asc/desc x first/last combinations over the cases
				spec = []keySpec{{src: []string{"k", "n", "d", "k2"}[c%4], desc: c&1 == 1, first: c&2 == 2}}
			case 1: // distinguishing: field keys, unique key last (chains are judged)
				spec = g.randSpec([]string{"k", "k2", "n", "d"}, 1+r.Intn(2), "u")
			case 2: // heavy ties, no unique key
				spec = g.randSpec([]string{"k", "k2", "n", "d", "score"}, 1+r.Intn(3), "")
			default:
				spec = g.randSpec(srcs, 1+r.Intn(3), "")
			}
			q := []string{"all", "all", "term:t:x", "bool:x:y"}[r.Intn(4)]
			emit(fmt.Sprintf("ref %s idx q=%s s=%s", R, q, specString(spec)))
			g.opsFor(R, total, spec, j == 1 && c < 4)
		}
	}
	stubCounts := []int{0, 1, 2, 3, 9, 10, 11, 12, 20, 50, 150, 300, 1030, 2100}
	for c := 0; c < nStub; c++ {
		count := stubCounts[c%len(stubCounts)]
		if c >= len(stubCounts) && (tier != "thorough" || c%40 != 0) {
			count = r.Intn(60)
		}
		emit(fmt.Sprintf("case s%d", c))
		nkeys := 1 + r.Intn(3)
		unique := c%2 == 0
		var spec []keySpec
		for x := 0; x < nkeys; x++ {
			spec = append(spec, keySpec{src: fmt.Sprintf("c%d", x), desc: r.Bool(), first: r.Bool()})
		}
		g.nref++
		R := fmt.Sprintf("R%d", g.nref)
		emit(fmt.Sprintf("ref %s stub s=%s raw=%s", R, specString(spec), g.stubRaw(count, nkeys, unique, 2+r.Intn(12))))
		g.opsFor(R, count, spec, c < len(stubCounts) && count <= 20)
	}
}

func main() {
	st := &state{}
	st.reset()
	hlib.Main(h{st: st})
}

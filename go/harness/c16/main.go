// Correspondence harness for C16: aggregations are exact over the whole match set.
//
// Script (one case = one in-memory index):
//
//	case <k>
//	doc <id> t=a,b n1=<f64 bits> nm=<bits>,<bits> n2=… w=… d1=<unix nanos> dm=…,… k1=<kw> km=<kw>,<kw>
//	commit                      the documents since the last commit become one batch (one segment)
//	del <id>                    a batch deleting one committed document
//	dv <id>                     read the document's doc values back from the index (every field, listed once)
//	req q=<query> a=<aggregations> c=<collector settings>
//
// For a `req` line the harness runs (1) the request itself on the real code and prints hits + every aggregate,
// (2) an independent AllMatches run of the same query WITHOUT aggregations, from which the model op line gets
// the matched ids in match order with their sort keys (computed by the real SortOrder), and (3) the same Go
// sketch types fed directly with the matched documents' values.
package main

import (
	"context"
	"fmt"
	"math"
	"math/big"
	"sort"
	"strconv"
	"strings"
	"time"

	"github.com/axiomhq/hyperloglog"
	"github.com/blugelabs/bluge"
	"github.com/blugelabs/bluge/numeric"
	"github.com/blugelabs/bluge/search"
	"github.com/blugelabs/bluge/search/aggregations"
	"github.com/blugelabs/bluge/search/searcher"
	"github.com/caio/go-tdigest"

	"verif/harness/hlib"
)

type doc struct {
	id     string
	fields map[string][]string // raw script values per field
}

type h struct {
	docs    map[string]*doc
	pending []*doc
	w       *bluge.Writer
	r       *bluge.Reader
	caseNo  int
	defs    map[string]search.Aggregation // aggregation DEFINITIONS of this case, re-used by every request that names the same tree
	hung    bool                          // a search of this case did not return: the rest of the case is skipped
}

// a search that does not come back within this time is reported as "hang" (an observation, not the death of
// the harness); the stuck goroutine is abandoned together with its index
const searchTimeout = 40 * time.Second

func (*h) Rule() string {
	return "per case a generated in-memory corpus (0..~150 documents in 1..4 batches, some deleted) with single- and multi-valued numeric, date and keyword fields, duplicates inside a document and missing values; " +
		"requests = query (match-all, none, term, must, should, must-not, numeric range) x aggregation tree (1..3 top-level: count/sum/min/max/avg/weighted avg, cardinality, quantiles, terms / numeric ranges / date ranges -> nested metrics, cardinality and quantiles; about 30% of the value sources are filtering sources FilterText (value sets) / FilterNumeric / FilterDate (thresholds), and a bucket aggregation over a filtered source usually gets a nested reader of the same plain field) x collector settings " +
		"(AllMatches; TopN with n in {0,1,3,10,50}, from, sort by score/field(s), search-after/before keys taken from the corpus); every (query, tree) is run under several settings, 45% of the trees are used again under another query, and one aggregation DEFINITION object per tree and case serves all those requests; every sketch (top-level and per bucket) is printed next to the same Go sketch type fed directly with the values of the documents belonging to that bucket. " +
		"A request is non-trivial when it matches at least one document; distinct = distinct (case, request line)"
}

func hx(v uint64) string { return fmt.Sprintf("%016x", v) }

func fbits(f float64) string {
	if math.IsNaN(f) {
		return "nan"
	}
	return hx(math.Float64bits(f))
}

var numFields = []string{"n1", "nm", "n2", "w"}
var dateFields = []string{"d1", "dm"}
var kwFields = []string{"k1", "km"}
var allFields = []string{"t", "n1", "nm", "n2", "w", "d1", "dm", "k1", "km"}

func kindOf(f string) byte { return f[0] } // n, d, k, t

// ---------------------------------------------------------------------------------- generator

func (*h) Gen(r *hlib.Rand, tier string, scale int, emit func(string)) {
	ncases := 80 * scale
	reqPer := 10
	if tier == "thorough" {
		ncases = 1200 * scale
		reqPer = 16
	}
	for c := 0; c < ncases; c++ {
		genCase(r, c, tier, reqPer, emit)
	}
}

type gdoc struct {
	id string
	f  map[string][]string
}

func genCase(r *hlib.Rand, c int, tier string, reqPer int, emit func(string)) {
	emit(fmt.Sprintf("case %d", c))
	nd := 0
	switch {
	case c == 0:
		nd = 0
	case c == 1:
		nd = 1
	case c%5 == 2:
		nd = r.Range(100, 160)
	default:
		nd = r.Range(2, 60)
	}
	// value pools
	base := []float64{0, 1, 2, 2.5, -3, 10, 100, 0.1, 0.2, 0.3, 1e16, -1e16, 7, 1.5, 1e-3, 123456.789, -0.5, 3}
	pool := []float64{}
	for i, n := 0, r.Range(2, 9); i < n; i++ {
		pool = append(pool, base[r.Intn(len(base))])
	}
	num := func() float64 {
		switch r.Weighted(6, 2, 1) {
		case 0:
			return pool[r.Intn(len(pool))]
		case 1:
			return float64(r.Range(-50, 50)) / 4
		default:
			return float64(int64(r.U64()%2000000)-1000000) / 1000
		}
	}
	dbase := int64(1600000000) * 1e9
	dpool := []int64{}
	for i, n := 0, r.Range(2, 7); i < n; i++ {
		dpool = append(dpool, dbase+int64(r.Range(-500, 500))*3600*1e9)
	}
	date := func() int64 {
		if r.Chance(6) {
			// near the ends of what int64 nanoseconds can hold (1677-09-21 … 2262-04-11)
			if r.Bool() {
				return math.MinInt64 + int64(r.Intn(5))*3600*1e9 + int64(r.Intn(3))
			}
			return math.MaxInt64 - int64(r.Intn(5))*3600*1e9 - int64(r.Intn(3))
		}
		if r.Chance(75) {
			return dpool[r.Intn(len(dpool))]
		}
		return dbase + int64(r.Range(-1000000, 1000000))*1e6
	}
	vocab := []int{1, 3, 8, 20, 40}[r.Intn(5)]
	if c%5 == 2 {
		vocab = 40
	}
	// the keyword vocabulary of the case: "v00".."vNN", or (40% of the cases) words from the second alphabet
	words := make([]string, vocab)
	for i := range words {
		words[i] = fmt.Sprintf("v%02d", i)
	}
	if c%5 == 3 || r.Chance(30) {
		for i := range words {
			words[i] = shapedWords[r.Intn(len(shapedWords))]
		}
	}
	kw := func() string { return words[r.Intn(len(words))] }
	toks := []string{"a", "b", "c", "d", "e"}

	docs := []*gdoc{}
	committed := []*gdoc{}
	sinceCommit := 0
	nbatches := r.Range(1, 4)
	for i := 0; i < nd; i++ {
		d := &gdoc{id: fmt.Sprintf("d%d", i), f: map[string][]string{}}
		ts := []string{}
		for _, t := range toks {
			if r.Chance(45) {
				ts = append(ts, t)
			}
		}
		if len(ts) > 0 {
			d.f["t"] = ts
		}
		multi := func(present int, gen func() string) []string {
			if !r.Chance(present) {
				return nil
			}
			n := r.Weighted(3, 4, 3, 1, 1) + 1 // 1..5
			out := []string{}
			for j := 0; j < n; j++ {
				if j > 0 && r.Chance(20) {
					out = append(out, out[r.Intn(len(out))]) // duplicate inside the document
				} else {
					out = append(out, gen())
				}
			}
			return out
		}
		single := func(present int, gen func() string) []string {
			if !r.Chance(present) {
				return nil
			}
			return []string{gen()}
		}
		ng := func() string { return hx(math.Float64bits(num())) }
		dg := func() string { return strconv.FormatInt(date(), 10) }
		set := func(name string, v []string) {
			if len(v) > 0 {
				d.f[name] = v
			}
		}
		set("n1", single(80, ng))
		set("nm", multi(70, ng))
		set("n2", single(85, ng))
		set("w", single(75, func() string { return hx(math.Float64bits(float64(r.Range(0, 8)) / 2)) }))
		set("d1", single(80, dg))
		set("dm", multi(60, dg))
		set("k1", single(85, kw))
		set("km", multi(70, kw))
		docs = append(docs, d)
		emit(docLine(d))
		sinceCommit++
		if i == nd-1 || (nbatches > 1 && r.Chance(100*nbatches/(nd+1)+2)) {
			emit("commit")
			committed = docs
			sinceCommit = 0
		}
	}
	if sinceCommit > 0 || nd == 0 {
		emit("commit")
		committed = docs
	}
	deleted := map[string]bool{}
	if len(committed) > 3 && r.Chance(60) {
		for i, n := 0, r.Range(1, 1+len(committed)/8); i < n; i++ {
			d := committed[r.Intn(len(committed))]
			if !deleted[d.id] {
				deleted[d.id] = true
				emit("del " + d.id)
			}
		}
	}
	live := []*gdoc{}
	for _, d := range docs {
		if !deleted[d.id] {
			live = append(live, d)
			emit("dv " + d.id)
		}
	}
	g := &reqGen{r: r, live: live, pool: pool, dpool: dpool, vocab: vocab, words: words}
	type tree struct {
		a     string
		reads map[string]bool
	}
	var earlier []tree
	for i := 0; i < reqPer; i++ {
		q := g.query()
		var a string
		var reads map[string]bool
		if len(earlier) > 0 && r.Chance(45) {
			// the same aggregation tree (the harness re-uses the very same definition objects) under another query
			t := earlier[r.Intn(len(earlier))]
			a, reads = t.a, t.reads
		} else {
			a, reads = g.aggs()
			earlier = append(earlier, tree{a, reads})
		}
		settings := []string{"all"}
		for j, n := 0, r.Range(3, 4); j < n; j++ {
			settings = append(settings, g.topn(reads))
		}
		for _, s := range settings {
			emit("req q=" + q + " a=" + a + " c=" + s)
		}
	}
}

func docLine(d *gdoc) string {
	var sb strings.Builder
	sb.WriteString("doc " + d.id)
	for _, f := range allFields {
		if v, ok := d.f[f]; ok {
			sb.WriteString(" " + f + "=" + strings.Join(v, ","))
		}
	}
	return sb.String()
}

// shapedWords: a second keyword alphabet whose BYTE SHAPE is that of prefix-coded numeric terms (first byte 0x20+shift,
// length (63-shift)/7+2): for every first character 'A'..'Z', '0'..'9' and every length 1..9 one word, plus ordinary
// words of exactly such shapes ("Alaska" = shift 33 / 6 bytes, "Delhi", "Oslo", "Rio", "20240101", "8675309").
// Keywords are opaque byte strings to every aggregation. (A first byte ' ' — shift 0 — cannot travel in the
// space-separated script and is not generated.)
var shapedWords = func() []string {
	out := []string{"Alaska", "Boston", "Canada", "Delhi", "Japan", "Hanoi", "Oslo", "Lima", "Kiev", "Rio", "Ulm", "20240101", "55512345", "8675309", "9000000"}
	fill := "laskaxyzw"
	for _, first := range "ABCDEFGHIJKLMNOPQRSTUVWXYZ0123456789" {
		for n := 1; n <= 9; n++ {
			out = append(out, string(first)+fill[:n-1])
		}
	}
	return out
}()

func shapedLikeShiftedTerm(v string) bool {
	ok, shift := numeric.ValidPrefixCodedTermBytes([]byte(v))
	return ok && shift > 0
}

type reqGen struct {
	r     *hlib.Rand
	live  []*gdoc
	pool  []float64
	dpool []int64
	vocab int
	words []string
}

func (g *reqGen) someVal(f string) (string, bool) {
	if len(g.live) == 0 {
		return "", false
	}
	for try := 0; try < 6; try++ {
		d := g.live[g.r.Intn(len(g.live))]
		if v := d.f[f]; len(v) > 0 {
			return v[g.r.Intn(len(v))], true
		}
	}
	return "", false
}

func (g *reqGen) query() string {
	r := g.r
	tok := func() string { return string(rune('a' + r.Intn(5))) }
	switch r.Weighted(5, 1, 4, 3, 3, 2, 2) {
	case 0:
		return "all"
	case 1:
		return "none"
	case 2:
		return "term:" + tok()
	case 3:
		return "and:" + tok() + "," + tok()
	case 4:
		return "or:" + tok() + "," + tok()
	case 5:
		return "not:" + tok()
	default:
		for try := 0; try < 12; try++ {
			lo, hi := g.numBound("n1"), g.numBound("n1")
			if math.Float64frombits(p64(lo)) > math.Float64frombits(p64(hi)) {
				lo, hi = hi, lo
			}
			// NumericRangeSearcher walks every byte string between the bounds of each sub-range
			// (C10's finding "numeric-range-walk-exceeds-cap"); keep the queries of this stream cheap
			if rangeWalkSteps(math.Float64frombits(p64(lo)), math.Float64frombits(p64(hi))) <= 20000 {
				return "nr:n1:" + lo + ":" + hi
			}
		}
		return "all"
	}
}

// rangeWalkSteps estimates how many terms NewNumericRangeSearcher(min inclusive, max exclusive) enumerates:
// the base-256 distance between the start and end term of every sub-range of the split.
func rangeWalkSteps(lo, hi float64) float64 {
	a, b := numeric.Float64ToInt64(lo), numeric.Float64ToInt64(hi)
	if b != math.MinInt64 {
		b--
	}
	total := 0.0
	for _, r := range searcher.VerifSplitInt64Range(a, b, 4) {
		x := new(big.Int).SetBytes(r[0])
		y := new(big.Int).SetBytes(r[1])
		d, _ := new(big.Float).SetInt(y.Sub(y, x)).Float64()
		if d > 0 {
			total += d
		}
	}
	return total
}

func (g *reqGen) numBound(f string) string {
	r := g.r
	if v, ok := g.someVal(f); ok && r.Chance(70) {
		x := math.Float64frombits(p64(v))
		switch r.Intn(4) {
		case 0:
			return v // exactly a value: exercises the inclusive / exclusive ends
		case 1:
			return hx(math.Float64bits(math.Nextafter(x, math.Inf(1))))
		case 2:
			return hx(math.Float64bits(math.Nextafter(x, math.Inf(-1))))
		default:
			return hx(math.Float64bits(x + float64(r.Range(-3, 3))))
		}
	}
	return hx(math.Float64bits(float64(r.Range(-20, 120)) / 2))
}

// farBounds: bounds given in SECONDS since the epoch ("s<seconds>"), most of them outside the window that int64
// nanoseconds can represent (1677-09-21T00:12:43Z … 2262-04-11T23:47:16Z): 0001-01-01 (the zero time: an OPEN
// bound), 0001-06-01, 1600-01-01, 1677-01-01, 1677-09-21 (just outside), 1677-09-22 (inside), 2262-01-01 (inside),
// 2262-04-11 (inside), 2262-04-12 (just outside), 2263-01-01, 9999-12-31
var farBounds = []int64{-62135596800, -62122550400, -11676096000, -9246096000, -9223372800, -9223286400,
	9214646400, 9223286400, 9223372800, 9246182400, 253402214400}

func (g *reqGen) dateBound(f string) string {
	r := g.r
	if r.Chance(15) {
		return "z"
	}
	if r.Chance(25) {
		return "s" + strconv.FormatInt(farBounds[r.Intn(len(farBounds))], 10)
	}
	if v, ok := g.someVal(f); ok && r.Chance(75) {
		x, _ := strconv.ParseInt(v, 10, 64)
		switch r.Intn(4) {
		case 0:
			return v
		case 1:
			return strconv.FormatInt(x+1, 10)
		case 2:
			return strconv.FormatInt(x-1, 10)
		default:
			return strconv.FormatInt(x+int64(r.Range(-5, 5))*3600*1e9, 10)
		}
	}
	return strconv.FormatInt(int64(1600000000)*1e9+int64(r.Range(-600, 600))*3600*1e9, 10)
}

// a date threshold of a filtering source, in nanoseconds
func (g *reqGen) dateThreshold(f string) string {
	r := g.r
	if v, ok := g.someVal(f); ok && r.Chance(80) {
		x, _ := strconv.ParseInt(v, 10, 64)
		if x > math.MinInt64+10 && x < math.MaxInt64-10 {
			return strconv.FormatInt(x+int64(r.Range(-1, 1)), 10)
		}
		return v
	}
	return strconv.FormatInt(int64(1600000000)*1e9+int64(r.Range(-600, 600))*3600*1e9, 10)
}

// metric over fields drawn from `avail` (each use removes the field when `distinct`)
func (g *reqGen) metric(pick func(kind byte) string) string {
	r := g.r
	switch r.Weighted(2, 4, 3, 3, 1, 3, 3) {
	case 0:
		return "count"
	case 1:
		return "sum:" + pick('n')
	case 2:
		return "min:" + pick('n')
	case 3:
		return "max:" + pick('n')
	case 4:
		return "maxs:" + pick('n') + "," + hx(math.Float64bits(float64(r.Range(-2, 5))))
	case 5:
		return "avg:" + pick('n')
	default:
		f := pick('n')
		return "wavg:" + f + "," + pick('w')
	}
}

// aggs returns the aggregation spec and the set of fields it reads
func (g *reqGen) aggs() (string, map[string]bool) {
	r := g.r
	distinct := r.Chance(60) // try to use every field at most once (then the loaded values are the documents' values)
	used := map[string]bool{}
	pick := func(kind byte) string {
		var cands []string
		switch kind {
		case 'n':
			cands = []string{"n1", "nm", "n2"}
		case 'w':
			cands = []string{"w", "w", "n2"}
		case 'd':
			cands = dateFields
		default:
			cands = kwFields
		}
		if distinct {
			free := []string{}
			for _, c := range cands {
				if !used[c] {
					free = append(free, c)
				}
			}
			if len(free) > 0 {
				cands = free
			}
		}
		f := cands[r.Intn(len(cands))]
		used[f] = true
		return f
	}
	// with some probability the source is a filtering one
	filt := func(f string) string {
		if !r.Chance(30) {
			return f
		}
		switch kindOf(f) {
		case 'k':
			// value sets from the low end of the vocabulary (doc values come in term order: rejecting an early value
			// and keeping a later one is the interesting case) and from the corpus
			set := map[string]bool{}
			for i, n := 0, r.Range(1, 3); i < n; i++ {
				if v, ok := g.someVal(f); ok && r.Bool() {
					set[v] = true
				} else {
					set[g.words[r.Intn(len(g.words))]] = true
				}
			}
			vs := []string{}
			for v := range set {
				vs = append(vs, v)
			}
			sort.Strings(vs)
			return f + "!" + []string{"ni", "ni", "in"}[r.Intn(3)] + "." + strings.Join(vs, ".")
		case 'd':
			return f + "!" + []string{"ge", "lt"}[r.Intn(2)] + "." + g.dateThreshold(f)
		default:
			return f + "!" + []string{"ge", "lt"}[r.Intn(2)] + "." + g.numBound(f)
		}
	}
	// a nested reader of the SAME field as a filtered bucket source (it must see the field's unfiltered values)
	sameFieldReader := func(src string) string {
		f := baseField(src)
		switch kindOf(f) {
		case 'k':
			return "card:" + f
		case 'n', 'w':
			return []string{"quant:", "sum:", "min:"}[r.Intn(3)] + f
		}
		return ""
	}
	subsFor := func(src string) string {
		n := r.Weighted(3, 4, 2)
		out := []string{}
		if strings.Contains(src, "!") && r.Chance(70) {
			if x := sameFieldReader(src); x != "" {
				out = append(out, x)
			}
		}
		for i := 0; i < n; i++ {
			switch r.Weighted(5, 2, 3) {
			case 0:
				out = append(out, g.metric(func(k byte) string { return filt(pick(k)) }))
			case 1:
				out = append(out, "card:"+filt(pick('k')))
			default:
				out = append(out, "quant:"+filt(pick('n')))
			}
		}
		if len(out) == 0 {
			return ""
		}
		return ">" + strings.Join(out, "+")
	}
	n := r.Weighted(5, 4, 2) + 1
	out := []string{}
	for i := 0; i < n; i++ {
		switch r.Weighted(5, 2, 2, 5, 4, 3) {
		case 0:
			out = append(out, g.metric(func(k byte) string { return filt(pick(k)) }))
		case 1:
			out = append(out, "card:"+filt(pick('k')))
		case 2:
			out = append(out, "quant:"+filt(pick('n')))
		case 3:
			size := []int{0, 1, 2, 3, 5, 12, 13, 100}[r.Weighted(1, 3, 3, 3, 3, 1, 1, 3)]
			src := filt(pick('k'))
			out = append(out, fmt.Sprintf("terms:%s,%d%s", src, size, subsFor(src)))
		case 4:
			f := pick('n')
			src := filt(f)
			rs := []string{}
			for j, m := 0, r.Range(1, 4); j < m; j++ {
				lo, hi := g.numBound(f), g.numBound(f)
				if r.Chance(85) && math.Float64frombits(p64(lo)) > math.Float64frombits(p64(hi)) {
					lo, hi = hi, lo
				}
				rs = append(rs, lo+"~"+hi)
			}
			out = append(out, "ranges:"+src+","+strings.Join(rs, ",")+subsFor(src))
		default:
			f := pick('d')
			src := filt(f)
			rs := []string{}
			for j, m := 0, r.Range(1, 4); j < m; j++ {
				lo, hi := g.dateBound(f), g.dateBound(f)
				if lo != "z" && hi != "z" && r.Chance(85) {
					if boundNanos(lo).Cmp(boundNanos(hi)) > 0 {
						lo, hi = hi, lo
					}
				}
				rs = append(rs, lo+"~"+hi)
			}
			out = append(out, "dranges:"+src+","+strings.Join(rs, ",")+subsFor(src))
		}
	}
	return strings.Join(out, ";"), used
}

func (g *reqGen) topn(reads map[string]bool) string {
	r := g.r
	n := []int{0, 1, 3, 10, 50}[r.Weighted(2, 2, 4, 3, 2)]
	from := []int{0, 0, 1, 2, 7, 30}[r.Intn(6)]
	cands := []string{"-_score", "_score", "n1", "-n1", "k1", "-k1", "d1", "-d1", "_id", "-_id", "n2", "nm", "km", "w"}
	avoid := r.Chance(60) // a sort over a field the aggregations do not read
	var sorts []string
	for i, m := 0, r.Weighted(6, 3); i <= m; i++ {
		for try := 0; try < 20; try++ {
			s := cands[r.Intn(len(cands))]
			if avoid && reads[strings.TrimPrefix(s, "-")] {
				continue
			}
			sorts = append(sorts, s)
			break
		}
	}
	if len(sorts) == 0 {
		sorts = []string{"-_score"}
	}
	mode := []string{"none", "after", "before"}[r.Weighted(5, 3, 2)]
	keys := []string{}
	if mode != "none" {
		from = 0
		for _, s := range sorts {
			f := strings.TrimPrefix(s, "-")
			switch {
			case f == "_score":
				keys = append(keys, hlib.Hex(numeric.MustNewPrefixCodedInt64(numeric.Float64ToInt64([]float64{0, 0.3, 0.7, 1, 1.5, 3}[r.Intn(6)]), 0)))
			case f == "_id":
				id := "d" + strconv.Itoa(r.Intn(len(g.live)+3))
				keys = append(keys, hlib.Hex([]byte(id)))
			default:
				v, ok := g.someVal(f)
				if !ok {
					keys = append(keys, hlib.Hex([]byte{0xff, 0xff, 0xff, 0xff, 0xff, 0xff, 0xff, 0xff, 0xff, 0xff}))
					break
				}
				switch kindOf(f) {
				case 'n', 'w':
					keys = append(keys, hlib.Hex(numeric.MustNewPrefixCodedInt64(numeric.Float64ToInt64(math.Float64frombits(p64(v))), 0)))
				case 'd':
					x, _ := strconv.ParseInt(v, 10, 64)
					keys = append(keys, hlib.Hex(numeric.MustNewPrefixCodedInt64(x, 0)))
				default:
					keys = append(keys, hlib.Hex([]byte(v)))
				}
			}
		}
	} else {
		keys = []string{"-"}
	}
	return fmt.Sprintf("top,%d,%d,%s,%s,%s", n, from, strings.Join(sorts, "/"), mode, strings.Join(keys, "/"))
}

// ---------------------------------------------------------------------------------- execution

func p64(s string) uint64 { v, _ := strconv.ParseUint(s, 16, 64); return v }

func unhex(s string) []byte {
	if s == "-" {
		return []byte{}
	}
	b := make([]byte, len(s)/2)
	for i := range b {
		v, _ := strconv.ParseUint(s[2*i:2*i+2], 16, 8)
		b[i] = byte(v)
	}
	return b
}

func (s *h) reset() {
	if s.hung {
		// do not touch an index with a stuck search on it
		s.r, s.w, s.hung = nil, nil, false
	}
	if s.r != nil {
		_ = s.r.Close()
	}
	if s.w != nil {
		_ = s.w.Close()
	}
	s.docs = map[string]*doc{}
	s.defs = map[string]search.Aggregation{}
	s.pending = nil
	s.r = nil
	s.w = nil
}

func (s *h) writer() *bluge.Writer {
	if s.w == nil {
		w, err := bluge.OpenWriter(bluge.InMemoryOnlyConfig())
		if err != nil {
			panic(err)
		}
		s.w = w
	}
	return s.w
}

func (s *h) reader() *bluge.Reader {
	if s.r == nil {
		if len(s.pending) > 0 {
			s.commit()
		}
		r, err := s.writer().Reader()
		if err != nil {
			panic(err)
		}
		s.r = r
	}
	return s.r
}

func buildDoc(d *doc) *bluge.Document {
	bd := bluge.NewDocument(d.id)
	for _, f := range allFields {
		for _, v := range d.fields[f] {
			switch kindOf(f) {
			case 't':
				bd.AddField(bluge.NewTextField(f, v))
			case 'n', 'w':
				bd.AddField(bluge.NewNumericField(f, math.Float64frombits(p64(v))).Aggregatable())
			case 'd':
				x, _ := strconv.ParseInt(v, 10, 64)
				bd.AddField(bluge.NewDateTimeField(f, time.Unix(0, x).UTC()).Aggregatable())
			case 'k':
				bd.AddField(bluge.NewKeywordField(f, v).Aggregatable())
			}
		}
	}
	return bd
}

func (s *h) commit() {
	b := bluge.NewBatch()
	for _, d := range s.pending {
		b.Insert(buildDoc(d))
	}
	s.pending = nil
	if err := s.writer().Batch(b); err != nil {
		panic(err)
	}
	if s.r != nil {
		_ = s.r.Close()
		s.r = nil
	}
}

func parseDoc(line string) *doc {
	w := strings.Split(line, " ")
	d := &doc{id: w[1], fields: map[string][]string{}}
	for _, kv := range w[2:] {
		i := strings.IndexByte(kv, '=')
		if i < 0 {
			continue
		}
		d.fields[kv[:i]] = strings.Split(kv[i+1:], ",")
	}
	return d
}

func matchID(m *search.DocumentMatch) string {
	id := "?"
	_ = m.VisitStoredFields(func(field string, value []byte) bool {
		if field == "_id" {
			id = string(value)
		}
		return true
	})
	return id
}

func buildQuery(q string) bluge.Query {
	p := strings.SplitN(q, ":", 2)
	term := func(t string) bluge.Query { return bluge.NewTermQuery(t).SetField("t") }
	switch p[0] {
	case "all":
		return bluge.NewMatchAllQuery()
	case "none":
		return bluge.NewMatchNoneQuery()
	case "term":
		return term(p[1])
	case "and":
		b := bluge.NewBooleanQuery()
		for _, t := range strings.Split(p[1], ",") {
			b.AddMust(term(t))
		}
		return b
	case "or":
		b := bluge.NewBooleanQuery()
		for _, t := range strings.Split(p[1], ",") {
			b.AddShould(term(t))
		}
		return b
	case "not":
		return bluge.NewBooleanQuery().AddMust(bluge.NewMatchAllQuery()).AddMustNot(term(p[1]))
	case "nr":
		a := strings.Split(p[1], ":")
		return bluge.NewNumericRangeQuery(math.Float64frombits(p64(a[1])), math.Float64frombits(p64(a[2]))).SetField(a[0])
	}
	panic("bad query " + q)
}

// one parsed aggregation of the request
type aggSpec struct {
	kind   string // count sum min max maxs avg wavg card quant terms ranges dranges
	f, w   string
	init   float64
	size   int
	ranges []string
	subs   []*aggSpec
}

func parseMetric(s string) *aggSpec {
	p := strings.SplitN(s, ":", 2)
	a := &aggSpec{kind: p[0]}
	if len(p) > 1 {
		args := strings.Split(p[1], ",")
		a.f = args[0]
		switch a.kind {
		case "wavg":
			a.w = args[1]
		case "maxs":
			a.init = math.Float64frombits(p64(args[1]))
		}
	}
	return a
}

func parseAgg(s string) *aggSpec {
	head, subs := s, ""
	if i := strings.IndexByte(s, '>'); i >= 0 {
		head, subs = s[:i], s[i+1:]
	}
	p := strings.SplitN(head, ":", 2)
	switch p[0] {
	case "terms", "ranges", "dranges":
		args := strings.Split(p[1], ",")
		a := &aggSpec{kind: p[0], f: args[0]}
		if p[0] == "terms" {
			a.size, _ = strconv.Atoi(args[1])
		} else {
			a.ranges = args[1:]
		}
		if subs != "" {
			for _, m := range strings.Split(subs, "+") {
				a.subs = append(a.subs, parseMetric(m))
			}
		}
		return a
	}
	return parseMetric(head)
}

// a date bound of the script: "z" = the zero time (open), "s<seconds since the epoch>" (may lie far outside what
// int64 nanoseconds can hold), otherwise nanoseconds since the epoch
func dateOf(s string) time.Time {
	if s == "z" {
		return time.Time{}
	}
	if strings.HasPrefix(s, "s") {
		x, _ := strconv.ParseInt(s[1:], 10, 64)
		return time.Unix(x, 0).UTC()
	}
	x, _ := strconv.ParseInt(s, 10, 64)
	return time.Unix(0, x).UTC()
}

// the bound as an exact (unbounded) number of nanoseconds since the epoch: the harness's own arithmetic, no time.Time
func boundNanos(s string) *big.Int {
	if strings.HasPrefix(s, "s") {
		x, _ := strconv.ParseInt(s[1:], 10, 64)
		return new(big.Int).Mul(big.NewInt(x), big.NewInt(1000000000))
	}
	x, _ := strconv.ParseInt(s, 10, 64)
	return big.NewInt(x)
}

// zero time given explicitly in seconds
func isOpenBound(s string) bool { return s == "z" || s == "s-62135596800" }

func (a *aggSpec) build() search.Aggregation {
	switch a.kind {
	case "count":
		return aggregations.CountMatches()
	case "sum":
		return aggregations.Sum(numSource(a.f))
	case "min":
		return aggregations.Min(numSource(a.f))
	case "max":
		return aggregations.Max(numSource(a.f))
	case "maxs":
		return aggregations.MaxStartingAt(numSource(a.f), a.init)
	case "avg":
		return aggregations.Avg(numSource(a.f))
	case "wavg":
		return aggregations.WeightedAvg(numSource(a.f), numSource(a.w))
	case "card":
		return aggregations.Cardinality(textSource(a.f))
	case "quant":
		return aggregations.Quantiles(numSource(a.f))
	case "terms":
		t := aggregations.NewTermsAggregation(textSource(a.f), a.size)
		for i, m := range a.subs {
			t.AddAggregation(fmt.Sprintf("s%d", i), m.build())
		}
		return t
	case "ranges":
		t := aggregations.Ranges(numSource(a.f))
		for i, rg := range a.ranges {
			b := strings.Split(rg, "~")
			t.AddRange(aggregations.NamedRange(fmt.Sprintf("r%d", i), math.Float64frombits(p64(b[0])), math.Float64frombits(p64(b[1]))))
		}
		for i, m := range a.subs {
			t.AddAggregation(fmt.Sprintf("s%d", i), m.build())
		}
		return t
	case "dranges":
		t := aggregations.DateRanges(dateSource(a.f))
		for i, rg := range a.ranges {
			b := strings.Split(rg, "~")
			t.AddRange(aggregations.NewNamedDateRange(fmt.Sprintf("r%d", i), dateOf(b[0]), dateOf(b[1])))
		}
		for i, m := range a.subs {
			t.AddAggregation(fmt.Sprintf("s%d", i), m.build())
		}
		return t
	}
	panic("bad aggregation " + a.kind)
}

var ranks = []float64{0, 0.1, 0.25, 0.5, 0.75, 0.9, 1}

func quantString(q func(float64) float64) string {
	out := make([]string, len(ranks))
	for i, p := range ranks {
		out[i] = fbits(q(p))
	}
	return strings.Join(out, "_")
}

// canonical doc values of one document (distinct, ascending in term order), from the corpus table
// ---- value sources of the script: "<field>" = search.Field(field), "<field>!<op>.<arg>…" = a filtering source over it:
//	keyword   km!in.v01.v05 (keep the listed values)   km!ni.v01 (keep all but the listed values)
//	numeric   nm!ge.<f64 bits> (keep v >= t)           nm!lt.<f64 bits> (keep v < t)
//	date      dm!ge.<unix nanos>                        dm!lt.<unix nanos>

func baseField(spec string) string {
	if i := strings.IndexByte(spec, '!'); i >= 0 {
		return spec[:i]
	}
	return spec
}

func predOf(spec string) (op string, args []string) {
	i := strings.IndexByte(spec, '!')
	if i < 0 {
		return "", nil
	}
	p := strings.Split(spec[i+1:], ".")
	return p[0], p[1:]
}

func keepNum(spec string) func(float64) bool {
	op, args := predOf(spec)
	if op == "" {
		return nil
	}
	t := math.Float64frombits(p64(args[0]))
	if op == "ge" {
		return func(v float64) bool { return v >= t }
	}
	return func(v float64) bool { return v < t }
}

func keepDate(spec string) func(int64) bool {
	op, args := predOf(spec)
	if op == "" {
		return nil
	}
	t, _ := strconv.ParseInt(args[0], 10, 64)
	if op == "ge" {
		return func(v int64) bool { return v >= t }
	}
	return func(v int64) bool { return v < t }
}

func keepText(spec string) func(string) bool {
	op, args := predOf(spec)
	if op == "" {
		return nil
	}
	set := map[string]bool{}
	for _, a := range args {
		set[a] = true
	}
	if op == "in" {
		return func(v string) bool { return set[v] }
	}
	return func(v string) bool { return !set[v] }
}

// the real sources
func numSource(spec string) search.NumericValuesSource {
	if k := keepNum(spec); k != nil {
		return aggregations.FilterNumeric(search.Field(baseField(spec)), k)
	}
	return search.Field(baseField(spec))
}

func textSource(spec string) search.TextValuesSource {
	if k := keepText(spec); k != nil {
		return aggregations.FilterText(search.Field(baseField(spec)), func(b []byte) bool { return k(string(b)) })
	}
	return search.Field(baseField(spec))
}

func dateSource(spec string) search.DateValuesSource {
	if k := keepDate(spec); k != nil {
		return aggregations.FilterDate(search.Field(baseField(spec)), func(t time.Time) bool { return k(t.UnixNano()) })
	}
	return search.Field(baseField(spec))
}

func canonNums(d *doc, spec string) []float64 {
	if d == nil {
		return nil
	}
	f, keep := baseField(spec), keepNum(spec)
	seen := map[int64]bool{}
	var ks []int64
	for _, v := range d.fields[f] {
		k := numeric.Float64ToInt64(math.Float64frombits(p64(v)))
		if !seen[k] {
			seen[k] = true
			ks = append(ks, k)
		}
	}
	sort.Slice(ks, func(i, j int) bool { return ks[i] < ks[j] })
	out := make([]float64, 0, len(ks))
	for _, k := range ks {
		if v := numeric.Int64ToFloat64(k); keep == nil || keep(v) {
			out = append(out, v)
		}
	}
	return out
}

func canonDates(d *doc, spec string) []int64 {
	if d == nil {
		return nil
	}
	f, keep := baseField(spec), keepDate(spec)
	seen := map[int64]bool{}
	var ks []int64
	for _, v := range d.fields[f] {
		k, _ := strconv.ParseInt(v, 10, 64)
		if !seen[k] {
			seen[k] = true
			ks = append(ks, k)
		}
	}
	sort.Slice(ks, func(i, j int) bool { return ks[i] < ks[j] })
	if keep == nil {
		return ks
	}
	out := []int64{}
	for _, k := range ks {
		if keep(k) {
			out = append(out, k)
		}
	}
	return out
}

func canonTerms(d *doc, spec string) []string {
	if d == nil {
		return nil
	}
	f, keep := baseField(spec), keepText(spec)
	vs := append([]string(nil), d.fields[f]...)
	sort.Strings(vs)
	var out []string
	for i, v := range vs {
		if (i == 0 || vs[i-1] != v) && (keep == nil || keep(v)) {
			out = append(out, v)
		}
	}
	return out
}

// values of the given documents (a document listed twice counts twice), in order
func (s *h) directNums(ids []string, f string) []float64 {
	var out []float64
	for _, id := range ids {
		out = append(out, canonNums(s.docs[id], f)...)
	}
	return out
}

func (s *h) directTerms(ids []string, f string) [][]byte {
	var out [][]byte
	for _, id := range ids {
		for _, v := range canonTerms(s.docs[id], f) {
			out = append(out, []byte(v))
		}
	}
	return out
}

// the same Go sketch types, fed directly: "<impl>/<direct>/<number of values fed directly>"
func (s *h) cardEntry(impl float64, ids []string, f string) string {
	sk := hyperloglog.New16()
	vs := s.directTerms(ids, f)
	for _, t := range vs {
		sk.Insert(t)
	}
	return fmt.Sprintf("c:%s/%s/%d", fbits(impl), fbits(float64(sk.Estimate())), len(vs))
}

func (s *h) quantEntry(calc search.Calculator, ids []string, f string) string {
	td, _ := tdigest.New(tdigest.Compression(100))
	vs := s.directNums(ids, f)
	for _, x := range vs {
		_ = td.Add(x)
	}
	impl := "?"
	if qc, ok := calc.(*aggregations.QuantilesCalculator); ok {
		impl = quantString(func(p float64) float64 { x, _ := qc.Quantile(p); return x })
	}
	return fmt.Sprintf("q:%s/%s/%d", impl, quantString(td.Quantile), len(vs))
}

// the nested results of one bucket; members = the matched documents that belong to the bucket (a document once per
// value inside a range), by the harness's own reading of the request
func (s *h) subString(b *search.Bucket, subs []*aggSpec, members []string) string {
	out := make([]string, len(subs))
	for i, sub := range subs {
		name := fmt.Sprintf("s%d", i)
		switch sub.kind {
		case "card":
			out[i] = s.cardEntry(b.Metric(name), members, sub.f)
		case "quant":
			out[i] = s.quantEntry(b.Aggregation(name), members, sub.f)
		default:
			out[i] = fbits(b.Metric(name))
		}
	}
	return "{" + strings.Join(out, ",") + "}"
}

func (s *h) termMembers(ids []string, f, term string) []string {
	var out []string
	for _, id := range ids {
		for _, v := range canonTerms(s.docs[id], f) {
			if v == term {
				out = append(out, id)
			}
		}
	}
	return out
}

func (s *h) rangeMembers(ids []string, a *aggSpec, rg string) []string {
	b := strings.Split(rg, "~")
	var out []string
	for _, id := range ids {
		if a.kind == "ranges" {
			lo, hi := math.Float64frombits(p64(b[0])), math.Float64frombits(p64(b[1]))
			for _, v := range canonNums(s.docs[id], a.f) {
				if v >= lo && v < hi {
					out = append(out, id)
				}
			}
		} else {
			for _, v := range canonDates(s.docs[id], a.f) {
				ok := true
				if !isOpenBound(b[0]) {
					ok = ok && big.NewInt(v).Cmp(boundNanos(b[0])) >= 0
				}
				if !isOpenBound(b[1]) {
					ok = ok && big.NewInt(v).Cmp(boundNanos(b[1])) < 0
				}
				if ok {
					out = append(out, id)
				}
			}
		}
	}
	return out
}

func (s *h) aggString(bk *search.Bucket, specs []*aggSpec, ids []string) string {
	out := make([]string, len(specs))
	for i, a := range specs {
		name := fmt.Sprintf("a%d", i)
		var v string
		switch a.kind {
		case "card":
			v = s.cardEntry(bk.Metric(name), ids, a.f)
		case "quant":
			v = s.quantEntry(bk.Aggregation(name), ids, a.f)
		case "terms":
			tc := bk.Aggregation(name).(*aggregations.TermsCalculator)
			bs := []string{}
			for _, b := range tc.Buckets() {
				bs = append(bs, fmt.Sprintf("%s:%d%s", b.Name(), b.Count(), s.subString(b, a.subs, s.termMembers(ids, a.f, b.Name()))))
			}
			v = fmt.Sprintf("t:other=%d,[%s]", tc.Other(), strings.Join(bs, "|"))
		case "ranges", "dranges":
			bs := []string{}
			for j, b := range bk.Buckets(name) {
				var members []string
				if j < len(a.ranges) {
					members = s.rangeMembers(ids, a, a.ranges[j])
				}
				bs = append(bs, fmt.Sprintf("%s:%d%s", b.Name(), b.Count(), s.subString(b, a.subs, members)))
			}
			v = "r:[" + strings.Join(bs, "|") + "]"
		default:
			v = "m:" + fbits(bk.Metric(name))
		}
		out[i] = name + "=" + v
	}
	return strings.Join(out, ";")
}

func dedup(fs []string) []string {
	seen := map[string]bool{}
	var out []string
	for _, f := range fs {
		if !seen[f] {
			seen[f] = true
			out = append(out, f)
		}
	}
	return out
}

func (s *h) execReq(line string, st *reqStats) (string, string) {
	w := strings.Split(line, " ")
	var q, a, c string
	for _, kv := range w[1:] {
		switch {
		case strings.HasPrefix(kv, "q="):
			q = kv[2:]
		case strings.HasPrefix(kv, "a="):
			a = kv[2:]
		case strings.HasPrefix(kv, "c="):
			c = kv[2:]
		}
	}
	specs := []*aggSpec{}
	for _, x := range strings.Split(a, ";") {
		specs = append(specs, parseAgg(x))
	}
	rd := s.reader()
	ctx := context.Background()
	cs := strings.Split(c, ",")
	isAll := cs[0] == "all"
	var sortStrs []string
	var n, from int
	mode := "none"
	var keys [][]byte
	if !isAll {
		n, _ = strconv.Atoi(cs[1])
		from, _ = strconv.Atoi(cs[2])
		sortStrs = strings.Split(cs[3], "/")
		mode = cs[4]
		if mode != "none" {
			for _, k := range strings.Split(cs[5], "/") {
				keys = append(keys, unhex(k))
			}
		}
	}

	// (2) the independent run: same query, AllMatches, no aggregations; sort keys by the real SortOrder
	var ids []string
	var mparts []string
	{
		it, err := rd.Search(ctx, bluge.NewAllMatches(buildQuery(q)))
		if err != nil {
			return line, "err"
		}
		var so search.SortOrder
		var sctx *search.Context
		if !isAll {
			so = search.ParseSortOrderStrings(sortStrs)
			if mode == "before" {
				so.Reverse() // what TopNSearch.Collector() does to its copy
			}
			sctx = search.NewSearchContext(0, len(so))
		}
		for m, err := it.Next(); m != nil && err == nil; m, err = it.Next() {
			id := matchID(m)
			ids = append(ids, id)
			part := id
			if !isAll {
				if fs := dedup(so.Fields()); len(fs) > 0 {
					if err := m.LoadDocumentValues(sctx, fs); err != nil {
						return line, "err"
					}
				}
				m.SortValue = m.SortValue[:0]
				so.Compute(m)
				ks := make([]string, len(m.SortValue))
				for i, k := range m.SortValue {
					ks[i] = hlib.Hex(k)
				}
				part += ":" + strings.Join(ks, "/")
			}
			mparts = append(mparts, part)
		}
	}
	op := line + " m=" + strings.Join(mparts, ",")
	if len(mparts) == 0 {
		op = line + " m=-"
	}

	// (1) the request itself
	var req bluge.SearchRequest
	if isAll {
		req = bluge.NewAllMatches(buildQuery(q))
	} else {
		t := bluge.NewTopNSearch(n, buildQuery(q)).SetFrom(from).SortBy(sortStrs)
		switch mode {
		case "after":
			t.After(keys)
		case "before":
			t.Before(keys)
		}
		req = t
	}
	aggStrs := strings.Split(a, ";")
	for i, sp := range specs {
		// one DEFINITION object per aggregation tree and case: later requests naming the same tree (other queries,
		// other paging) get the very same object — Calculator() must give each search, and each bucket, fresh state
		def, ok := s.defs[aggStrs[i]]
		if !ok {
			def = sp.build()
			s.defs[aggStrs[i]] = def
		} else {
			st.Count("def:reused")
		}
		req.AddAggregation(fmt.Sprintf("a%d", i), def)
	}
	it, err := rd.Search(ctx, req)
	if err != nil {
		return op, "err"
	}
	var hits []string
	for m, err := it.Next(); m != nil && err == nil; m, err = it.Next() {
		hits = append(hits, matchID(m))
	}
	hs := strings.Join(hits, ",")
	if len(hits) == 0 {
		hs = "-"
	}
	res := "hits=" + hs + " aggs=" + s.aggString(it.Aggregations(), specs, ids)

	st.Count("q:" + strings.SplitN(q, ":", 2)[0])
	st.Count("c:" + cs[0] + ":" + mode)
	// cardinality / terms sources (root or nested) whose matched values include a keyword shaped like a shifted numeric term
	shapedIn := func(spec string) bool {
		for _, id := range ids {
			for _, v := range canonTerms(s.docs[id], spec) {
				if shapedLikeShiftedTerm(v) {
					return true
				}
			}
		}
		return false
	}
	for _, sp := range specs {
		if (sp.kind == "card" || sp.kind == "terms") && shapedIn(sp.f) {
			st.Count("keyword-shaped-like-shifted-numeric-term:" + sp.kind)
		}
		for _, sub := range sp.subs {
			if sub.kind == "card" && shapedIn(sub.f) {
				st.Count("keyword-shaped-like-shifted-numeric-term:nested-card")
			}
		}
	}
	for _, sp := range specs {
		if strings.Contains(sp.f, "!") {
			st.Count("src:filtered:" + sp.kind)
			for _, sub := range sp.subs {
				if baseField(sub.f) == baseField(sp.f) && !strings.Contains(sub.f, "!") {
					st.Count("src:filtered-with-nested-reader-of-same-field")
				}
			}
		}
		st.Count("agg:" + sp.kind)
		if sp.kind == "dranges" {
			for _, rg := range sp.ranges {
				for _, bd := range strings.Split(rg, "~") {
					if strings.HasPrefix(bd, "s") && !isOpenBound(bd) && !boundNanos(bd).IsInt64() {
						st.Count("date-bound:outside-int64-nanos")
					}
				}
			}
		}
		for _, sub := range sp.subs {
			if sub.kind == "card" || sub.kind == "quant" {
				st.Count("nested:" + sub.kind)
			}
		}
	}
	switch {
	case len(ids) == 0:
		st.Count("matches:0")
	case len(ids) < 10:
		st.Count("matches:1-9")
	case len(ids) < 100:
		st.Count("matches:10-99")
	default:
		st.Count("matches:100+")
	}
	st.key, st.nontrivial = fmt.Sprintf("%d %s", s.caseNo, line), len(ids) > 0
	return op, res
}

// reqStats collects what a request wants to add to the run statistics; it is applied by the main goroutine only
// when the request returned (an abandoned, stuck search must not touch shared maps later)
type reqStats struct {
	counts     []string
	key        string
	nontrivial bool
}

func (r *reqStats) Count(k string) { r.counts = append(r.counts, k) }

// dv: the document's doc values as the index holds them, through FieldSource (the real decode path)
func (s *h) execDV(line string) (string, string) {
	id := strings.Split(line, " ")[1]
	rd := s.reader()
	it, err := rd.Search(context.Background(), bluge.NewAllMatches(bluge.NewTermQuery(id).SetField("_id")))
	if err != nil {
		return line, "err"
	}
	m, err := it.Next()
	if err != nil {
		return line, "err"
	}
	if m == nil {
		return line, "absent"
	}
	if err := m.LoadDocumentValues(search.NewSearchContext(0, 0), allFields[1:]); err != nil {
		return line, "err"
	}
	parts := []string{}
	for _, f := range allFields[1:] {
		var vs []string
		switch kindOf(f) {
		case 'n', 'w':
			for _, x := range search.Field(f).Numbers(m) {
				vs = append(vs, fbits(x))
			}
		case 'd':
			for _, x := range search.Field(f).Dates(m) {
				vs = append(vs, strconv.FormatInt(x.UnixNano(), 10))
			}
		default:
			for _, x := range search.Field(f).Values(m) {
				vs = append(vs, string(x))
			}
		}
		if len(vs) > 0 {
			parts = append(parts, f+"="+strings.Join(vs, ","))
		}
	}
	if len(parts) == 0 {
		return line, "-"
	}
	return line, strings.Join(parts, " ")
}

func (s *h) Exec(line string, out func(string, string), st *hlib.Stats, work string) {
	w := strings.SplitN(line, " ", 3)
	op, res := line, "ok"
	r := hlib.Catch(func() string {
		switch w[0] {
		case "case":
			s.reset()
			s.caseNo++
			res = "case"
		case "doc":
			d := parseDoc(line)
			s.docs[d.id] = d
			s.pending = append(s.pending, d)
		case "commit":
			s.commit()
		case "del":
			b := bluge.NewBatch()
			b.Delete(bluge.Identifier(w[1]))
			if err := s.writer().Batch(b); err != nil {
				res = "err"
			}
			delete(s.docs, w[1])
			if s.r != nil {
				_ = s.r.Close()
				s.r = nil
			}
		case "dv":
			if s.hung {
				res = "skipped-after-hang"
				break
			}
			op, res = s.execDV(line)
		case "req":
			if s.hung {
				res = "skipped-after-hang"
				break
			}
			type pr struct {
				op, res string
				rs      *reqStats
			}
			ch := make(chan pr, 1)
			go func() {
				defer func() {
					if e := recover(); e != nil {
						ch <- pr{line, "panic", nil}
					}
				}()
				rs := &reqStats{}
				o, r := s.execReq(line, rs)
				ch <- pr{o, r, rs}
			}()
			select {
			case x := <-ch:
				op, res = x.op, x.res
				if x.rs != nil {
					for _, k := range x.rs.counts {
						st.Count(k)
					}
					if x.rs.key != "" {
						st.Case(x.rs.key, x.rs.nontrivial)
					}
				}
			case <-time.After(searchTimeout):
				s.hung = true
				op, res = line+" m=-", "hang"
				st.Count("res:hang")
			}
		default:
			res = "bad-op"
		}
		return ""
	})
	if r == "panic" {
		res = "panic"
	}
	st.Count("op:" + w[0])
	out(op, res)
}

func main() { hlib.Main(&h{docs: map[string]*doc{}}) }

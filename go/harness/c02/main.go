// Correspondence harness for C02 (an acknowledged batch survives any later crash): stream `dirtrace`
// with crash images opened by the real bluge.OpenReader in a child process.
package main

import (
	"os"

	"verif/harness/hlib"
	"verif/harness/persistlib"
)

func main() {
	if len(os.Args) > 1 && os.Args[1] == "child" {
		persistlib.ChildMain(os.Args[2:])
		return
	}
	hlib.Main(&persistlib.H{Mode: persistlib.Mode{Name: "c02", Images: true, Readers: 0}})
}

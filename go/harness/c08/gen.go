package main

import (
	"fmt"
	"strconv"
	"strings"

	"verif/harness/hlib"
)

var vocabAll = []string{"ant", "anvil", "bat", "bee", "cat", "cow", "dog", "eel"}
var kwAll = []string{"red", "rose", "blue", "green"}

type gen struct {
	r     *hlib.Rand
	vocab []string
	kws   []string
	docs  []doc
}

func (g *gen) word() string { return g.vocab[g.r.Intn(len(g.vocab))] }

func (g *gen) mkDocs(n int) {
	g.docs = nil
	for i := 0; i < n; i++ {
		d := doc{id: fmt.Sprintf("d%d", i)}
		if g.r.Chance(92) {
			d.hasT = true
			k := g.r.Range(1, 5)
			for j := 0; j < k; j++ {
				d.t = append(d.t, g.word())
			}
		}
		if g.r.Chance(80) {
			d.hasK = true
			d.k = g.kws[g.r.Intn(len(g.kws))]
		}
		if g.r.Chance(80) {
			d.hasN = true
			d.n = g.r.Range(-3, 12)
		}
		// now and then an exact duplicate of the previous document's content (ties everywhere)
		if i > 0 && g.r.Chance(12) {
			p := g.docs[i-1]
			d.t, d.hasT, d.k, d.hasK, d.n, d.hasN = p.t, p.hasT, p.k, p.hasK, p.n, p.hasN
		}
		g.docs = append(g.docs, d)
	}
}

func (g *gen) leaf() string {
	switch g.r.Weighted(6, 2, 1, 1, 1) {
	case 0:
		return "T t " + g.word()
	case 1:
		return "T k " + g.kws[g.r.Intn(len(g.kws))]
	case 2:
		return "P t " + []string{"a", "an", "b", "be", "c", "co", "z"}[g.r.Intn(7)]
	case 3:
		return g.rangeQ()
	default:
		return "T t zzz" // a term that no document has
	}
}

func (g *gen) rangeQ() string {
	lo, hi := g.r.Range(-4, 13), g.r.Range(-4, 13)
	if lo > hi && g.r.Chance(85) {
		lo, hi = hi, lo
	}
	ls, hs := strconv.Itoa(lo), strconv.Itoa(hi)
	switch g.r.Intn(6) {
	case 0:
		ls = "*"
	case 1:
		hs = "*"
	}
	return fmt.Sprintf("R %s %s %s%s", ls, hs, []string{"i", "e"}[g.r.Intn(2)], []string{"i", "e"}[g.r.Intn(2)])
}

func (g *gen) sub(depth int) string {
	if depth <= 0 || g.r.Chance(75) {
		return g.leaf()
	}
	return g.boolean(depth - 1)
}

func (g *gen) boolean(depth int) string {
	nm, ns, nn := g.r.Intn(3), g.r.Intn(4), g.r.Weighted(3, 1)
	if nm+ns+nn == 0 {
		ns = 2
	}
	min := g.r.Weighted(3, 3, 1)
	var parts []string
	for i := 0; i < nm+ns+nn; i++ {
		parts = append(parts, g.sub(depth))
	}
	return fmt.Sprintf("B %d %d %d %d %s", nm, ns, nn, min, strings.Join(parts, " "))
}

func (g *gen) phrase() string {
	// mostly a pair that really occurs consecutively somewhere
	for try := 0; try < 6; try++ {
		if len(g.docs) == 0 {
			break
		}
		d := g.docs[g.r.Intn(len(g.docs))]
		if len(d.t) >= 2 && g.r.Chance(80) {
			i := g.r.Intn(len(d.t) - 1)
			k := 2
			if i+3 <= len(d.t) && g.r.Chance(30) {
				k = 3
			}
			return fmt.Sprintf("H %d %s", k, strings.Join(d.t[i:i+k], " "))
		}
	}
	return fmt.Sprintf("H 2 %s %s", g.word(), g.word())
}

func (g *gen) queries(withKnownShape bool) []string {
	qs := []string{"A", "T t " + g.word(), "T k " + g.kws[g.r.Intn(len(g.kws))]}
	qs = append(qs, "P t "+[]string{"a", "an", "b", "c"}[g.r.Intn(4)])
	if n := len(g.docs); n > 0 {
		// lookups by _id: the last document of the first batch of the tail-merge recipe, and a random one
		qs = append(qs, fmt.Sprintf("T _id d%d", max(0, n-3)), fmt.Sprintf("T _id d%d", g.r.Intn(n)))
	}
	qs = append(qs, g.rangeQ(), g.rangeQ())
	qs = append(qs, g.phrase())
	qs = append(qs, fmt.Sprintf("MA 2 %s %s", g.word(), g.word()))
	qs = append(qs, fmt.Sprintf("MO 3 %s %s %s", g.word(), g.word(), g.word()))
	for i := 0; i < 3; i++ {
		qs = append(qs, g.boolean(2))
	}
	if g.r.Chance(30) {
		qs = append(qs, "N")
	}
	// conjunction / disjunction of plain terms with a must-not (the unadorned rewrites under score none)
	qs = append(qs, fmt.Sprintf("B 2 0 1 0 T t %s T t %s T t %s", g.word(), g.word(), g.word()))
	qs = append(qs, fmt.Sprintf("B 0 3 0 %d T t %s T t %s T k %s", g.r.Intn(3), g.word(), g.word(), g.kws[0]))
	if withKnownShape {
		// must + >= 2 should + minShould 1: LAST, so that a difference here hides nothing else of the line
		qs = append(qs, fmt.Sprintf("B 1 2 0 1 T t %s T t %s T t %s", g.word(), g.word(), g.word()))
	}
	return qs
}

var sortPool = []string{"+k", "-k", "+n", "-n", "+k:-n", "-n:+k", "+k^", "-n^", "-k^:+n"}

func (g *gen) randParts(n int) string {
	if n == 0 {
		return "-"
	}
	var ps []string
	left := n
	for left > 0 {
		sz := g.r.Range(1, max(1, min(left, 1+n/2)))
		ps = append(ps, strconv.Itoa(sz))
		left -= sz
	}
	return strings.Join(ps, ",")
}

func ones(n int) string {
	if n == 0 {
		return "-"
	}
	return strings.TrimSuffix(strings.Repeat("1,", n), ",")
}

func (h) Gen(r *hlib.Rand, tier string, scale int, emit func(string)) {
	g := &gen{r: r}
	ncases := 20 * scale
	nopt := 150 * scale
	if tier == "thorough" {
		ncases = 220 * scale
		nopt = 2500 * scale
	}
	// a fixed case first: the corpus and query on which a Reader that recycles its term field readers is known
	// to change its answer from the third execution on (postingsIterator.Advance hands itself to the pool)
	emit("case Lhist D=d0;t=bat+bat/d1;t=anvil+ant+anvil/d2;t=bat+bat/d3;t=bee+bat+bee+ant+bee/d4;t=ant+anvil/d5;t=bee+ant/d6;t=anvil+bat/d7;t=bee" +
		" Q=B 1 1 1 0 T t anvil B 1 1 0 0 T t ant T t bat T t bee | A S=-")
	emit("recipe base dir=mem parts=-")
	emit("recipe fs dir=fs parts=-")
	emit("recipe fs-reopen dir=fs reopen=1 parts=-")
	sizes := []int{0, 3, 1, 8, 12, 2, 5, 16, 0, 25, 7, 11, 4, 13}
	for c := 0; c < ncases; c++ {
		n := sizes[c%len(sizes)]
		if c >= len(sizes) && r.Chance(50) {
			n = r.Range(0, 25)
		}
		g.vocab = vocabAll[:r.Range(3, len(vocabAll))]
		g.kws = kwAll[:r.Range(2, len(kwAll))]
		g.mkDocs(n)
		ds := make([]string, len(g.docs))
		for i, d := range g.docs {
			ds[i] = d.String()
		}
		qs := g.queries(c%2 == 0)
		var ss []string
		for len(ss) < 3 {
			s := sortPool[r.Intn(len(sortPool))]
			dup := false
			for _, x := range ss {
				dup = dup || x == s
			}
			if !dup {
				ss = append(ss, s)
			}
		}
		emit(fmt.Sprintf("case L%d D=%s Q=%s S=%s", c, joinOrDash(ds, "/"), strings.Join(qs, " | "), strings.Join(ss, ",")))
		rp := func(name string, kvs ...string) {
			emit("recipe " + name + " " + strings.Join(kvs, " "))
		}
		// the reference: one batch, in memory, merging off
		rp("base", "dir=mem", "parts=-")
		rp("perdoc", "dir=mem", "parts="+ones(n))
		rp("randparts", "dir=mem", "parts="+g.randParts(n))
		rp("merge-mem", "dir=mem", "merge=1", "mtask="+strconv.Itoa(r.Range(2, 3)), "parts="+[]string{ones(n), g.randParts(n)}[r.Intn(2)])
		rp("fs-reopen", "dir=fs", "reopen=1", "parts="+g.randParts(n))
		rp("fs-merge-reopen", "dir=fs", "merge=1", "reopen=1", "parts="+ones(n))
		rp("backup", "dir="+[]string{"mem", "fs"}[r.Intn(2)], "backup=1", "parts="+g.randParts(n))
		// a backup that is cut short at a chosen Persist (any segment, or the snapshot: the step is taken modulo the
		// number of persists of the layout reached), by a write error or by cancellation, then run again; and a
		// backup whose cancel channel is closed before it starts
		rp("backup-partial", "dir="+[]string{"mem", "fs"}[r.Intn(2)], "backup=1", "bkfail="+strconv.Itoa(r.Intn(7)), "bkmode="+[]string{"w", "c"}[r.Intn(2)],
			"parts="+[]string{ones(n), g.randParts(n)}[r.Intn(2)])
		rp("backup-cancel", "dir="+[]string{"mem", "fs"}[r.Intn(2)], "backup=1", "bkcancel=1", "parts="+g.randParts(n))
		offs := []string{"0", "1", "2", "7"}
		if n == 0 || tier == "thorough" {
			for _, b := range offs {
				rp("offline-"+b, "offline="+b)
			}
		} else {
			rp("offline-"+offs[c%4], "offline="+offs[c%4])
			rp("offline-"+offs[(c+1)%4], "offline="+offs[(c+1)%4], "ver="+strconv.Itoa(1+r.Intn(2)))
		}
		rp("v2", "dir=mem", "ver=2", "parts="+g.randParts(n))
		rp("v2-fs-reopen", "dir=fs", "ver=2", "reopen=1", "parts="+g.randParts(n))
		rp("noopt-conj", "dir=mem", "noopt=c", "parts="+g.randParts(n))
		rp("scorenone", "dir=mem", "score=none", "parts="+g.randParts(n))
		rp("scorenone-noopt-conj-unadorned", "dir=mem", "score=none", "noopt=u", "parts="+g.randParts(n))
		rp("scorenone-noopt-disj-unadorned", "dir=mem", "score=none", "noopt=d", "parts="+g.randParts(n))
		rp("scorenone-noopt-all-merged", "dir=mem", "score=none", "noopt=cud", "merge=1", "parts="+ones(n))
		rp("multi2", "multi=2")
		rp("multi3", "multi=3", "parts="+strconv.Itoa(r.Intn(2)))
		rp("junk", "dir=mem", "junk="+strconv.Itoa(r.Range(1, 3)), "parts="+g.randParts(n))
		if n > 0 {
			rp("updated", "dir="+[]string{"mem", "fs"}[r.Intn(2)], "upd="+strconv.Itoa(r.Range(1, min(n, 3))), "parts="+g.randParts(n))
		}
		if n >= 4 {
			// a merge introduced BEHIND a surviving segment that has a pending deletion, searched on that very root
			rp("tail-merge", "dir="+[]string{"mem", "fs"}[c%2], "tailmerge=1", "ver="+strconv.Itoa(1+c%2))
		}
		rp("junk-merge-reopen", "dir=fs", "junk=2", "merge=1", "reopen=1", "parts="+g.randParts(n))
	}
	// ---- the opt stream: explicit segments, chosen term tuples
	for c := 0; c < nopt; c++ {
		nseg := r.Range(1, 4)
		common := []string{"a", "b", "c", "e"}[:r.Range(2, 4)]
		id := 0
		var segs []string
		var ids []string
		var rare []string
		for s := 0; s < nseg; s++ {
			nd := r.Range(1, 6)
			var ds []string
			for j := 0; j < nd; j++ {
				var ws []string
				for _, w := range common {
					if r.Chance(45) {
						ws = append(ws, w)
					}
				}
				if r.Chance(35) { // a word that occurs once in this segment: 1-hit encoding
					w := fmt.Sprintf("u%d", r.Intn(4))
					ws = append(ws, w)
					rare = append(rare, w)
				}
				if len(ws) == 0 {
					ws = []string{"q"}
				}
				did := fmt.Sprintf("d%d", id)
				id++
				ids = append(ids, did)
				ds = append(ds, did+":"+strings.Join(ws, "+"))
			}
			segs = append(segs, strings.Join(ds, ","))
		}
		var del []string
		for _, d := range ids {
			if r.Chance(12) {
				del = append(del, d)
			}
		}
		nt := r.Range(2, 4)
		var terms []string
		for len(terms) < nt {
			switch r.Weighted(6, 3, 1) {
			case 0:
				terms = append(terms, common[r.Intn(len(common))])
			case 1:
				if len(rare) > 0 {
					terms = append(terms, rare[r.Intn(len(rare))])
				} else {
					terms = append(terms, "q")
				}
			default:
				terms = append(terms, "zzz")
			}
		}
		m := 0
		if nseg >= 2 && r.Chance(60) {
			m = r.Range(2, nseg)
		}
		emit(fmt.Sprintf("case opt ver=%d m=%d segs=%s del=%s terms=%s", 1+r.Intn(2), m, strings.Join(segs, "/"), joinOrDash(del, ","), strings.Join(terms, ",")))
	}
}

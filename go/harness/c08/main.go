// Correspondence harness for C08: search answers depend only on the logical documents, not the layout.
//
// Two streams share one script:
//
//	case L<n> D=<docs> Q=<queries> S=<sorts>      a corpus, its queries and sort orders
//	recipe <name> k=v …                           one way of building an index over that corpus; the
//	                                              result is a canonical digest of ALL answers
//	                                              (+ hist=: do repeated searches on the writer's current-root
//	                                              reader keep returning the same ids)
//	case opt segs=… del=… terms=…                 physical level: the real rewrites of index/optimize.go
//	                                              on real per-segment posting iterators (the model gets
//	                                              the observed iterator shapes)
package main

import (
	"bytes"
	"context"
	"fmt"
	"io"
	"math"
	"os"
	"reflect"
	"path/filepath"
	"sort"
	"strconv"
	"strings"
	"sync"
	"sync/atomic"
	"time"
	"unsafe"

	"github.com/blugelabs/bluge"
	"github.com/blugelabs/bluge/index"
	"github.com/blugelabs/bluge/index/mergeplan"
	"github.com/blugelabs/bluge/search"
	"github.com/blugelabs/bluge/search/aggregations"
	"github.com/blugelabs/bluge/search/searcher"
	"github.com/blugelabs/bluge/search/similarity"
	segment "github.com/blugelabs/bluge_segment_api"

	"verif/harness/hlib"
)

type h struct{}

func (h) Rule() string {
	return "a case = a generated corpus (0..25 documents over a vocabulary of 3..8 words, optional text/keyword/numeric fields, all stored) + 10..14 queries (term, keyword term, match-all/none, prefix, safe numeric ranges, phrase, match and/or, booleans with must/should/mustNot/minShould nested up to depth 2) + 3 sort orders; each recipe line builds the corpus one way (batch partition, merges forced/off, memory/FS, reopen, backup — complete, cut short at a chosen Persist by a write error or by cancellation and then run again, or with the cancel channel closed beforehand —, offline writer, segment version, optimisation switches, score mode, k indexes under MultiSearch, pending deletions) and prints the digest of all answers (read from a view of the index that does not recycle term field readers; the recycling reader is probed with three rounds of the same requests); an `opt` case builds explicit segments and runs the unadorned/push-down rewrites on chosen term tuples. A recipe evaluation is non-trivial when the corpus is non-empty or the recipe is the offline writer, distinct by (case, recipe line)"
}

// ---------------------------------------------------------------- corpus

type doc struct {
	id   string
	t    []string
	hasT bool
	k    string
	hasK bool
	n    int
	hasN bool
}

func (d doc) String() string {
	p := []string{d.id}
	if d.hasT {
		p = append(p, "t="+strings.Join(d.t, "+"))
	}
	if d.hasK {
		p = append(p, "k="+d.k)
	}
	if d.hasN {
		p = append(p, "n="+strconv.Itoa(d.n))
	}
	return strings.Join(p, ";")
}

func parseDoc(s string) doc {
	f := strings.Split(s, ";")
	d := doc{id: f[0]}
	for _, kv := range f[1:] {
		switch {
		case strings.HasPrefix(kv, "t="):
			d.hasT = true
			if kv[2:] != "" {
				d.t = strings.Split(kv[2:], "+")
			}
		case strings.HasPrefix(kv, "k="):
			d.hasK = true
			d.k = kv[2:]
		case strings.HasPrefix(kv, "n="):
			d.hasN = true
			d.n, _ = strconv.Atoi(kv[2:])
		}
	}
	return d
}

func parseDocs(s string) []doc {
	if s == "-" || s == "" {
		return nil
	}
	var out []doc
	for _, x := range strings.Split(s, "/") {
		out = append(out, parseDoc(x))
	}
	return out
}

func mkDoc(d doc) *bluge.Document {
	b := bluge.NewDocument(d.id)
	if d.hasT {
		b.AddField(bluge.NewTextField("t", strings.Join(d.t, " ")).StoreValue().SearchTermPositions())
	}
	if d.hasK {
		b.AddField(bluge.NewKeywordField("k", d.k).StoreValue().Sortable().Aggregatable())
	}
	if d.hasN {
		b.AddField(bluge.NewNumericField("n", float64(d.n)).StoreValue().Sortable().Aggregatable())
	}
	return b
}

func idNum(id string) int {
	v, err := strconv.Atoi(id[1:])
	if err != nil {
		return 1 << 30
	}
	if id[0] != 'd' {
		v += 1 << 20
	}
	return v
}

func sortIDs(ids []string) {
	sort.Slice(ids, func(i, j int) bool {
		a, b := idNum(ids[i]), idNum(ids[j])
		if a != b {
			return a < b
		}
		return ids[i] < ids[j]
	})
}

func joinOrDash(xs []string, sep string) string {
	if len(xs) == 0 {
		return "-"
	}
	return strings.Join(xs, sep)
}

// ---------------------------------------------------------------- queries (token stream, prefix notation)

type qparser struct {
	tok []string
	pos int
	err bool
}

func (p *qparser) next() string {
	if p.pos >= len(p.tok) {
		p.err = true
		return ""
	}
	p.pos++
	return p.tok[p.pos-1]
}
func (p *qparser) num() int {
	v, err := strconv.Atoi(p.next())
	if err != nil {
		p.err = true
	}
	return v
}
func (p *qparser) words() []string {
	k := p.num()
	var ws []string
	for i := 0; i < k && !p.err; i++ {
		ws = append(ws, p.next())
	}
	return ws
}

func (p *qparser) query() bluge.Query {
	switch p.next() {
	case "A":
		return bluge.NewMatchAllQuery()
	case "N":
		return bluge.NewMatchNoneQuery()
	case "T":
		f := p.next()
		return bluge.NewTermQuery(p.next()).SetField(f)
	case "P":
		f := p.next()
		return bluge.NewPrefixQuery(p.next()).SetField(f)
	case "R":
		lo, hi, fl := p.next(), p.next(), p.next()
		mn, mx := bluge.MinNumeric, bluge.MaxNumeric
		if lo != "*" {
			v, _ := strconv.Atoi(lo)
			mn = float64(v)
		}
		if hi != "*" {
			v, _ := strconv.Atoi(hi)
			mx = float64(v)
		}
		if len(fl) != 2 {
			p.err = true
			return bluge.NewMatchNoneQuery()
		}
		return bluge.NewNumericRangeInclusiveQuery(mn, mx, fl[0] == 'i', fl[1] == 'i').SetField("n")
	case "H":
		return bluge.NewMatchPhraseQuery(strings.Join(p.words(), " ")).SetField("t")
	case "MA":
		return bluge.NewMatchQuery(strings.Join(p.words(), " ")).SetField("t").SetOperator(bluge.MatchQueryOperatorAnd)
	case "MO":
		return bluge.NewMatchQuery(strings.Join(p.words(), " ")).SetField("t").SetOperator(bluge.MatchQueryOperatorOr)
	case "B":
		nm, ns, nn, min := p.num(), p.num(), p.num(), p.num()
		b := bluge.NewBooleanQuery()
		for i := 0; i < nm && !p.err; i++ {
			b.AddMust(p.query())
		}
		for i := 0; i < ns && !p.err; i++ {
			b.AddShould(p.query())
		}
		for i := 0; i < nn && !p.err; i++ {
			b.AddMustNot(p.query())
		}
		b.SetMinShould(min)
		return b
	}
	p.err = true
	return bluge.NewMatchNoneQuery()
}

func parseQuery(s string) (bluge.Query, bool) {
	p := &qparser{tok: strings.Fields(s)}
	q := p.query()
	return q, !p.err && p.pos == len(p.tok)
}

// sort spec: keys joined by ':'; key = (+|-)(k|n)[^]   (^ = missing first)
func parseSort(s string) search.SortOrder {
	var so search.SortOrder
	for _, k := range strings.Split(s, ":") {
		if len(k) < 2 {
			continue
		}
		st := search.SortBy(search.Field(string(k[1])))
		if k[0] == '-' {
			st.Desc()
		}
		if strings.HasSuffix(k, "^") {
			st.MissingFirst()
		}
		so = append(so, st)
	}
	return so
}

// ---------------------------------------------------------------- tracing the writer (verif hook)

type recorder struct {
	mu        sync.Mutex
	active    bool
	last      time.Time
	segs      int
	del       uint64
	merged    bool
	roots     int
	persisted int
	firstSeg  uint64 // id of the first segment of the last root
	tailMerge bool   // an introduceMerge root whose FIRST segment survived with pending deletions
}

var rec = &recorder{}

func (r *recorder) reset(active bool) {
	r.mu.Lock()
	r.active, r.last, r.segs, r.del, r.merged, r.roots, r.persisted = active, time.Now(), 0, 0, false, 0, 0
	r.firstSeg, r.tailMerge = 0, false
	r.mu.Unlock()
}

func (r *recorder) touch() {
	r.mu.Lock()
	r.last = time.Now()
	r.mu.Unlock()
}

func (r *recorder) trace(w *index.Writer, kind string, snap *index.Snapshot, x uint64) {
	r.mu.Lock()
	defer r.mu.Unlock()
	if !r.active {
		return
	}
	r.last = time.Now()
	if kind == "persisted" {
		r.persisted++
	}
	if kind != "root" || snap == nil {
		return
	}
	r.roots++
	if snap.VerifCreator() == "introduceMerge" {
		r.merged = true
	}
	ss := snap.Segments()
	r.segs = len(ss)
	r.del = 0
	for _, s := range ss {
		if d := s.Deleted(); d != nil {
			r.del += d.GetCardinality()
		}
	}
	if len(ss) > 0 {
		r.firstSeg = ss[0].ID()
	}
	r.tailMerge = false
	if snap.VerifCreator() == "introduceMerge" && len(ss) >= 2 {
		if d := ss[0].Deleted(); d != nil && !d.IsEmpty() {
			r.tailMerge = true
		}
	}
}

// protectedSeg: the segment the `tailmerge` planner must leave alone (see tuneConfig)
var protectedSeg atomic.Uint64

func (r *recorder) idleFor() time.Duration {
	r.mu.Lock()
	defer r.mu.Unlock()
	return time.Since(r.last)
}

func (r *recorder) phys() (int, uint64, bool) {
	r.mu.Lock()
	defer r.mu.Unlock()
	return r.segs, r.del, r.merged
}

func init() {
	index.SetVerifTrace(rec.trace)
}

// ---------------------------------------------------------------- per-case state

type caseState struct {
	name    string
	docs    []doc
	queries []string
	sorts   []string
}

var cur *caseState
var dirSeq int

func kv(fields []string) map[string]string {
	m := map[string]string{}
	for _, f := range fields {
		if i := strings.IndexByte(f, '='); i > 0 {
			m[f[:i]] = f[i+1:]
		}
	}
	return m
}

// ---------------------------------------------------------------- building an index by a recipe

type built struct {
	searchFn func(req bluge.SearchRequest) (search.DocumentMatchIterator, error)
	// histFn searches a reader over the SAME segments whose snapshot is the writer's current root, i.e. one
	// on which closed term field readers are recycled (nil: no such reader, e.g. OpenReader'd snapshots)
	histFn  func(req bluge.SearchRequest) (search.DocumentMatchIterator, error)
	count   func() (uint64, error)
	closeFn func()
	phys    string // appended to the op line: what layout was actually reached
	prefix  string // extra leading section of the digest (offline writer: directory + order)
	simple  bool   // hit order = insertion order (single batch sequence, no merge, no deletion)
	scores  string // "sc" (merge-free, deletion-free, single index, scored) | "scm" (merged, deletion-free) | "-"
	perRdr  int
}

func tuneConfig(cfg bluge.Config, p map[string]string) bluge.Config {
	ic := cfg.VerifIndexConfig()
	ic.SegmentType = "ice"
	ic.SegmentVersion = 1
	if p["ver"] == "2" {
		ic.SegmentVersion = 2
	}
	ic.AsyncError = func(error) {}
	ic.EventCallback = func(index.Event) { rec.touch() }
	if p["merge"] == "1" {
		ic.MergePlanOptions.FloorSegmentSize = 1
		ic.MergePlanOptions.MaxSegmentsPerTier = 1
		ic.MergePlanOptions.SegmentsPerMergeTask = 2
		if p["mtask"] != "" {
			ic.MergePlanOptions.SegmentsPerMergeTask, _ = strconv.Atoi(p["mtask"])
		}
		ic.MergePlanOptions.TierGrowth = 2.0
	} else if p["tailmerge"] == "1" {
		// a planner that merges every segment EXCEPT the protected one: budget 2 (= the protected segment +
		// one more), rosters that contain the protected segment score worst. With the protected segment the
		// largest, three segments [P, a, b] become [P, merged(a,b)] and stay like that.
		ic.MergePlanOptions.FloorSegmentSize = 1
		ic.MergePlanOptions.SegmentsPerMergeTask = 2
		ic.MergePlanOptions.CalcBudget = func(int64, int64, *mergeplan.Options) int { return 2 }
		ic.MergePlanOptions.ScoreSegments = func(segs []mergeplan.Segment, _ *mergeplan.Options) float64 {
			for _, sg := range segs {
				if sg.ID() == protectedSeg.Load() {
					return 1e18
				}
			}
			return -float64(len(segs)) // lower is better: the pair of unprotected segments beats a singleton
		}
		ic.MinSegmentsForInMemoryMerge = 1 << 30
	} else {
		// merging switched off through the index configuration
		ic.MergePlanOptions.CalcBudget = func(int64, int64, *mergeplan.Options) int { return 1 << 30 }
		ic.MinSegmentsForInMemoryMerge = 1 << 30
	}
	for _, c := range p["noopt"] {
		switch c {
		case 'c':
			ic = ic.DisableOptimizeConjunction()
		case 'u':
			ic = ic.DisableOptimizeConjunctionUnadorned()
		case 'd':
			ic = ic.DisableOptimizeDisjunctionUnadorned()
		}
	}
	return cfg.VerifWithIndexConfig(ic)
}

func newDir(work, tag string) string {
	dirSeq++
	d := filepath.Join(work, "c08idx", fmt.Sprintf("%s%d", tag, dirSeq))
	_ = os.RemoveAll(d)
	_ = os.MkdirAll(d, 0o755)
	return d
}

func partSizes(s string, n int) []int {
	if s == "" || s == "-" {
		if n == 0 {
			return nil
		}
		return []int{n}
	}
	var out []int
	for _, x := range strings.Split(s, ",") {
		v, _ := strconv.Atoi(x)
		if v > 0 {
			out = append(out, v)
		}
	}
	return out
}

func quiesce(maxWait time.Duration) bool {
	t0 := time.Now()
	for time.Since(t0) < maxWait {
		time.Sleep(15 * time.Millisecond)
		if rec.idleFor() > 90*time.Millisecond {
			return true
		}
	}
	return false
}

// junk document i and the "old version" of document i: content that must never show in an answer
func junkDoc(cs *caseState, i int) doc {
	d := doc{id: fmt.Sprintf("j%d", i), hasT: true, t: []string{"ant", "bee", "zzz"}, hasK: true, k: "red", hasN: true, n: i}
	if len(cs.docs) > 0 {
		o := cs.docs[i%len(cs.docs)]
		d.t, d.hasT, d.k, d.hasK = o.t, o.hasT, o.k, o.hasK
	}
	return d
}

func oldVersion(cs *caseState, i int) doc {
	o := cs.docs[(i+1)%len(cs.docs)]
	o.id = cs.docs[i].id
	o.hasN, o.n = true, 99
	return o
}

func buildStandard(cs *caseState, p map[string]string, work string) (*built, string) {
	var cfg bluge.Config
	var dir string
	if p["dir"] == "fs" {
		dir = newDir(work, "fs")
		cfg = bluge.DefaultConfig(dir)
	} else {
		cfg = bluge.InMemoryOnlyConfig()
	}
	cfg = tuneConfig(cfg, p)
	rec.reset(true)
	w, err := bluge.OpenWriter(cfg)
	if err != nil {
		return nil, "err:open-writer"
	}
	closed := false
	closeW := func() {
		if !closed {
			closed = true
			_ = w.Close()
		}
	}
	junk, _ := strconv.Atoi(p["junk"])
	upd, _ := strconv.Atoi(p["upd"])
	if upd > len(cs.docs) {
		upd = len(cs.docs)
	}
	if p["tailmerge"] == "1" {
		return buildTailMerge(cs, p, w, cfg, dir, closeW)
	}
	sizes := partSizes(p["parts"], len(cs.docs))
	// documents [updFrom, len) get an old version first; they are taken from the LAST part so that the
	// old versions can share the first batch with live documents (a dead-only segment would simply be
	// dropped by the merger, pending deletions are wanted here)
	updFrom := len(cs.docs)
	if upd > 0 && len(sizes) >= 2 {
		if upd > sizes[len(sizes)-1] {
			upd = sizes[len(sizes)-1]
		}
		updFrom = len(cs.docs) - upd
	} else if upd > 0 {
		updFrom = len(cs.docs) - upd
	}
	prelim := bluge.NewBatch()
	nprelim := 0
	for i := 0; i < junk; i++ {
		d := mkDoc(junkDoc(cs, i))
		prelim.Update(d.ID(), d)
		nprelim++
	}
	for i := updFrom; i < len(cs.docs); i++ {
		d := mkDoc(oldVersion(cs, i))
		prelim.Update(d.ID(), d)
		nprelim++
	}
	if nprelim > 0 && len(sizes) < 2 {
		// no second batch to separate old and new versions: a batch of its own
		if err := w.Batch(prelim); err != nil {
			closeW()
			return nil, "err:batch"
		}
		nprelim = 0
	}
	at := 0
	for bi, sz := range sizes {
		b := bluge.NewBatch()
		if bi == 0 && nprelim > 0 {
			b = prelim
		}
		for i := 0; i < sz && at < len(cs.docs); i++ {
			d := mkDoc(cs.docs[at])
			b.Update(d.ID(), d)
			at++
		}
		if err := w.Batch(b); err != nil {
			closeW()
			return nil, "err:batch"
		}
	}
	if at != len(cs.docs) {
		closeW()
		return nil, "bad-recipe:parts"
	}
	if junk > 0 {
		b := bluge.NewBatch()
		for i := 0; i < junk; i++ {
			b.Delete(bluge.Identifier(fmt.Sprintf("j%d", i)))
		}
		if err := w.Batch(b); err != nil {
			closeW()
			return nil, "err:batch"
		}
	}
	quiet := true
	if p["merge"] == "1" {
		quiet = quiesce(4 * time.Second)
	} else if junk > 0 || upd > 0 {
		_ = quiesce(400 * time.Millisecond) // a fully dead segment is dropped by the merger even with merging off
	}
	segs, del, merged := rec.phys()
	bt := &built{phys: fmt.Sprintf("segs=%d merged=%v del=%d", segs, merged, del)}
	if !quiet {
		bt.phys += " no-quiescence"
	}
	bt.simple = !merged && del == 0 && junk == 0 && upd == 0 && p["merge"] != "1"
	switch {
	case p["score"] == "none":
		bt.scores = "-"
	case !merged && del == 0 && p["merge"] != "1":
		bt.scores = "sc"
	case merged && del == 0:
		bt.scores = "scm"
	default:
		bt.scores = "-"
	}
	var rd, rdHist *bluge.Reader
	if p["reopen"] == "1" {
		closeW()
		rec.reset(false)
		rd, err = bluge.OpenReader(cfg)
		if err != nil {
			return nil, "err:open-reader"
		}
	} else {
		rd, err = w.Reader()
		if err != nil {
			closeW()
			return nil, "err:reader"
		}
		// The digest is taken from `rd` AFTER the root has moved on (a batch that deletes an id nobody has):
		// a snapshot that is no longer the current root does not recycle term field readers, so its answers
		// do not depend on the searches run before (see the history probe in runRecipe).
		bump := bluge.NewBatch()
		bump.Delete(bluge.Identifier("never-indexed"))
		if err := w.Batch(bump); err != nil {
			_ = rd.Close()
			closeW()
			return nil, "err:batch"
		}
		rdHist, err = w.Reader()
		if err != nil {
			_ = rd.Close()
			closeW()
			return nil, "err:reader"
		}
	}
	closers := []func(){func() { _ = rd.Close() }, func() {
		if rdHist != nil {
			_ = rdHist.Close()
		}
	}, closeW}
	if p["backup"] == "1" {
		bdir := newDir(work, "bk")
		fail := func(code string) (*built, string) {
			for _, c := range closers {
				c()
			}
			_ = os.RemoveAll(bdir)
			return nil, code
		}
		bcfg := tuneConfig(bluge.DefaultConfig(bdir), p)
		if p["bkfail"] != "" || p["bkcancel"] == "1" {
			// a backup that is cut short: which Persist fails is chosen here (bkfail, through the index-level API and a
			// Directory that wraps the real FileSystemDirectory of the target) or left to the real code (bkcancel: the
			// cancel channel of bluge.Reader.Backup is closed before the call). What the target then holds, whether a
			// reader can open it, and the backup run again into the same directory are printed as `bk=…`; the inputs
			// the model needs (mode, failing step, epoch, segment ids) go to the op line as `bkin=…`.
			snap := snapOf(rd)
			var ids []string
			for _, sg := range snap.Segments() {
				ids = append(ids, strconv.FormatUint(sg.ID(), 10))
			}
			n := len(ids)
			mode, kstr := "cancel", "-"
			var berr error
			if p["bkfail"] != "" {
				k, _ := strconv.Atoi(p["bkfail"])
				k %= n + 1
				mode = p["bkmode"]
				if mode != "c" {
					mode = "w"
				}
				fd := &faultDir{Directory: index.NewFileSystemDirectory(bdir), failAt: k, mode: mode, cancel: make(chan struct{})}
				berr = snap.Backup(fd, fd.cancel)
				kstr = strconv.Itoa(k)
			} else {
				cancel := make(chan struct{})
				close(cancel)
				berr = rd.Backup(bdir, cancel)
				if berr != nil {
					// the persists run in order and a failed one removes its file: the failing step = the segment files present
					segs, _, _ := listDir(bdir)
					kstr = strconv.Itoa(len(segs))
				}
			}
			segs, snps, oth := listDir(bdir)
			ret := "nil"
			if berr != nil {
				ret = "err"
			}
			open1 := "err"
			rd2, err := bluge.OpenReader(bcfg)
			if err == nil {
				open1 = "ok"
			}
			bt.phys += fmt.Sprintf(" bkin=%s:%s:%d:%s", mode, kstr, snap.VerifEpoch(), joinOrDash(ids, "+"))
			bt.prefix = fmt.Sprintf("bk=ret:%s;seg:%s;snp:%s;oth:%d;open:%s", ret, joinOrDash(segs, "+"), joinOrDash(snps, "+"), oth, open1)
			if berr != nil && err != nil {
				// run it again, through the public API, into what the failed one left behind
				if err := rd.Backup(bdir, nil); err != nil {
					return fail("err:backup-again")
				}
				rd2, err = bluge.OpenReader(bcfg)
				if err != nil {
					return fail("err:open-backup-again")
				}
				bt.prefix += ";redo:ok"
			} else {
				// either the backup completed, or a failed backup left something a reader opens: the digest below is
				// taken from exactly that reader (openable must mean equal)
				bt.prefix += ";redo:-"
				if err != nil {
					return fail("err:open-backup")
				}
			}
			rd = rd2
			closers = append([]func(){func() { _ = rd2.Close() }}, closers...)
			closers = append(closers, func() { _ = os.RemoveAll(bdir) })
		} else {
			if err := rd.Backup(bdir, nil); err != nil {
				return fail("err:backup")
			}
			rd2, err := bluge.OpenReader(bcfg)
			if err != nil {
				return fail("err:open-backup")
			}
			rd = rd2
			closers = append([]func(){func() { _ = rd2.Close() }}, closers...)
			closers = append(closers, func() { _ = os.RemoveAll(bdir) })
		}
	}
	if dir != "" {
		closers = append(closers, func() { _ = os.RemoveAll(dir) })
	}
	bt.searchFn = func(req bluge.SearchRequest) (search.DocumentMatchIterator, error) {
		return rd.Search(context.Background(), req)
	}
	if rdHist != nil {
		bt.histFn = func(req bluge.SearchRequest) (search.DocumentMatchIterator, error) {
			return rdHist.Search(context.Background(), req)
		}
	}
	bt.count = rd.Count
	bt.closeFn = func() {
		for _, c := range closers {
			c()
		}
		rec.reset(false)
	}
	return bt, ""
}

// ---------------------------------------------------------------- partial backups

// snapOf: the index.Snapshot behind a bluge.Reader (unexported field `reader`)
func snapOf(rd *bluge.Reader) *index.Snapshot {
	f := reflect.ValueOf(rd).Elem().FieldByName("reader")
	return reflect.NewAt(f.Type(), unsafe.Pointer(f.UnsafeAddr())).Elem().Interface().(*index.Snapshot)
}

// faultDir hands every Persist to the real directory; the failAt-th one (0-based) gets a WriterTo that stops half way:
// mode "w" = the write fails (disk full, I/O error), mode "c" = the cancel channel is closed and the WriterTo — unlike
// ice's Segment.WriteTo and Snapshot.WriteTo, which ignore it — honours it. The real FileSystemDirectory.Persist then
// runs its own cleanup.
type faultDir struct {
	index.Directory
	failAt int
	mode   string
	cancel chan struct{}
	n      int
}

func (d *faultDir) Persist(kind string, id uint64, w index.WriterTo, closeCh chan struct{}) error {
	i := d.n
	d.n++
	if i == d.failAt {
		if d.mode == "c" {
			close(d.cancel)
		}
		return d.Directory.Persist(kind, id, &failingWriterTo{inner: w, mode: d.mode}, closeCh)
	}
	return d.Directory.Persist(kind, id, w, closeCh)
}

type failingWriterTo struct {
	inner index.WriterTo
	mode  string
}

func (f *failingWriterTo) WriteTo(w io.Writer, closeCh chan struct{}) (int64, error) {
	var buf bytes.Buffer
	if _, err := f.inner.WriteTo(&buf, nil); err != nil {
		return 0, err
	}
	n, _ := w.Write(buf.Bytes()[:buf.Len()/2])
	if f.mode == "c" {
		select {
		case <-closeCh:
			return int64(n), fmt.Errorf("cancelled")
		default:
			return int64(n), fmt.Errorf("the cancel channel handed to Persist is not the one that was closed")
		}
	}
	return int64(n), fmt.Errorf("injected: write interrupted")
}

// listDir: the segment ids, snapshot epochs (decimal, ascending) and the number of other files (lock / pid files
// excluded) of an index directory
func listDir(dir string) (segs, snps []string, other int) {
	ents, _ := os.ReadDir(dir)
	var a, b []uint64
	for _, e := range ents {
		n := e.Name()
		switch {
		case strings.HasSuffix(n, ".seg") || strings.HasSuffix(n, ".snp"):
			id, err := strconv.ParseUint(n[:len(n)-4], 16, 64)
			if err != nil {
				other++
				continue
			}
			if strings.HasSuffix(n, ".seg") {
				a = append(a, id)
			} else {
				b = append(b, id)
			}
		case strings.HasSuffix(n, ".pid") || strings.HasSuffix(n, ".lock"):
		default:
			other++
		}
	}
	sort.Slice(a, func(i, j int) bool { return a[i] < a[j] })
	sort.Slice(b, func(i, j int) bool { return b[i] < b[j] })
	for _, x := range a {
		segs = append(segs, strconv.FormatUint(x, 10))
	}
	for _, x := range b {
		snps = append(snps, strconv.FormatUint(x, 10))
	}
	return
}

// buildTailMerge reaches the root [P, M]: P = the first batch's segment, NOT merged, with one pending
// deletion; M = the merge of the two later segments, introduced by introduceMerge BEHIND P. The answers are
// read from the Reader taken on exactly that root (no batch in between: introduceSegment would rebuild
// the offsets).
//
//	batch 1: old version of the last document, then documents 0..n-3   -> P
//	batch 2: document n-2                                            -> a
//	batch 3: Update(last document)                                   -> b, and P gets its deletion
func buildTailMerge(cs *caseState, p map[string]string, w *bluge.Writer, cfg bluge.Config, dir string, closeW func()) (*built, string) {
	n := len(cs.docs)
	if n < 4 {
		closeW()
		return nil, "bad-recipe:tailmerge-needs-4-docs"
	}
	protectedSeg.Store(^uint64(0))
	b := bluge.NewBatch()
	d := mkDoc(oldVersion(cs, n-1))
	b.Update(d.ID(), d)
	for i := 0; i <= n-3; i++ {
		d := mkDoc(cs.docs[i])
		b.Update(d.ID(), d)
	}
	if err := w.Batch(b); err != nil {
		closeW()
		return nil, "err:batch"
	}
	rec.mu.Lock()
	protectedSeg.Store(rec.firstSeg)
	rec.mu.Unlock()
	for _, i := range []int{n - 2, n - 1} {
		b := bluge.NewBatch()
		d := mkDoc(cs.docs[i])
		b.Update(d.ID(), d)
		if err := w.Batch(b); err != nil {
			closeW()
			return nil, "err:batch"
		}
	}
	// wait for the merge introduction (and for the writer to go quiet after it); if the merger did not plan
	// on the last epoch, a batch that changes nothing gives it another epoch to plan on (the root that
	// batch installs is rebuilt by introduceSegment, the merge is introduced after it)
	for attempt := 0; attempt < 4; attempt++ {
		t0 := time.Now()
		done := false
		for time.Since(t0) < 1500*time.Millisecond && !done {
			rec.mu.Lock()
			done = rec.tailMerge
			rec.mu.Unlock()
			time.Sleep(5 * time.Millisecond)
		}
		if done {
			break
		}
		nb := bluge.NewBatch()
		nb.Delete(bluge.Identifier("never-indexed"))
		if err := w.Batch(nb); err != nil {
			closeW()
			return nil, "err:batch"
		}
	}
	quiet := quiesce(3 * time.Second)
	segs, del, merged := rec.phys()
	rec.mu.Lock()
	tail := rec.tailMerge
	rec.mu.Unlock()
	bt := &built{phys: fmt.Sprintf("segs=%d merged=%v del=%d tail=%v", segs, merged, del, tail), scores: "-"}
	if !quiet {
		bt.phys += " no-quiescence"
	}
	if merged && del == 0 {
		bt.scores = "scm"
	}
	rd, err := w.Reader()
	if err != nil {
		closeW()
		return nil, "err:reader"
	}
	// (the root moves on only now, see buildStandard; `rd` keeps the offsets introduceMerge computed)
	bump := bluge.NewBatch()
	bump.Delete(bluge.Identifier("never-indexed"))
	if err := w.Batch(bump); err != nil {
		_ = rd.Close()
		closeW()
		return nil, "err:batch"
	}
	bt.searchFn = func(req bluge.SearchRequest) (search.DocumentMatchIterator, error) {
		return rd.Search(context.Background(), req)
	}
	bt.count = rd.Count
	bt.closeFn = func() {
		_ = rd.Close()
		closeW()
		if dir != "" {
			_ = os.RemoveAll(dir)
		}
		rec.reset(false)
	}
	return bt, ""
}

func buildOffline(cs *caseState, p map[string]string, work string) (*built, string) {
	bs, _ := strconv.Atoi(p["offline"])
	dir := newDir(work, "off")
	cfg := tuneConfig(bluge.DefaultConfig(dir), p)
	rec.reset(false)
	ow, err := bluge.OpenOfflineWriter(cfg, bs, 10)
	if err != nil {
		return nil, "err:open-offline"
	}
	for _, d := range cs.docs {
		if err := ow.Insert(mkDoc(d)); err != nil {
			return nil, "err:insert"
		}
	}
	if err := ow.Close(); err != nil {
		return nil, "err:offline-close"
	}
	// the directory as Close left it
	var snps, segsF []string
	ents, _ := os.ReadDir(dir)
	for _, e := range ents {
		nm := e.Name()
		switch {
		case strings.HasSuffix(nm, ".snp"):
			snps = append(snps, strings.TrimLeft(strings.TrimSuffix(nm, ".snp"), "0"))
		case strings.HasSuffix(nm, ".seg"):
			segsF = append(segsF, strings.TrimLeft(strings.TrimSuffix(nm, ".seg"), "0"))
		}
	}
	for i := range snps {
		if snps[i] == "" {
			snps[i] = "0"
		}
	}
	for i := range segsF {
		if segsF[i] == "" {
			segsF[i] = "0"
		}
	}
	sort.Strings(snps)
	sort.Strings(segsF)
	rd, err := bluge.OpenReader(cfg)
	if err != nil {
		_ = os.RemoveAll(dir)
		return nil, "err:open-reader"
	}
	// physical order of the final segment: match-all in hit order
	var order []string
	it, err := rd.Search(context.Background(), bluge.NewAllMatches(bluge.NewMatchAllQuery()))
	if err == nil {
		for m, e := it.Next(); e == nil && m != nil; m, e = it.Next() {
			id, _ := storedOf(m)
			order = append(order, id)
		}
	}
	nb := (len(cs.docs) + bs) / (bs + 1)
	bt := &built{phys: fmt.Sprintf("segs=1 merged=%v del=0", nb > 1)}
	bt.prefix = "phys=snp:" + joinOrDash(snps, ",") + ";seg:" + joinOrDash(segsF, ",") + ";ord:" + joinOrDash(order, ",")
	bt.scores = "sc"
	if nb > 1 {
		bt.scores = "scm"
	}
	if p["score"] == "none" {
		bt.scores = "-"
	}
	bt.searchFn = func(req bluge.SearchRequest) (search.DocumentMatchIterator, error) {
		return rd.Search(context.Background(), req)
	}
	bt.count = rd.Count
	bt.closeFn = func() { _ = rd.Close(); _ = os.RemoveAll(dir) }
	return bt, ""
}

func buildMulti(cs *caseState, p map[string]string, work string) (*built, string) {
	k, _ := strconv.Atoi(p["multi"])
	rec.reset(false)
	var writers []*bluge.Writer
	var readers, histReaders []*bluge.Reader
	closeAll := func() {
		for _, r := range readers {
			_ = r.Close()
		}
		for _, r := range histReaders {
			_ = r.Close()
		}
		for _, w := range writers {
			_ = w.Close()
		}
	}
	for j := 0; j < k; j++ {
		cfg := tuneConfig(bluge.InMemoryOnlyConfig(), p)
		w, err := bluge.OpenWriter(cfg)
		if err != nil {
			closeAll()
			return nil, "err:open-writer"
		}
		writers = append(writers, w)
		var mine []doc
		for i, d := range cs.docs {
			if i%k == j {
				mine = append(mine, d)
			}
		}
		at := 0
		sizes := []int{len(mine)}
		if p["parts"] == "1" { // one document per batch
			sizes = make([]int, len(mine))
			for i := range sizes {
				sizes[i] = 1
			}
		}
		for _, sz := range sizes {
			if sz == 0 {
				continue
			}
			b := bluge.NewBatch()
			for i := 0; i < sz; i++ {
				d := mkDoc(mine[at])
				b.Update(d.ID(), d)
				at++
			}
			if err := w.Batch(b); err != nil {
				closeAll()
				return nil, "err:batch"
			}
		}
		r, err := w.Reader()
		if err != nil {
			closeAll()
			return nil, "err:reader"
		}
		readers = append(readers, r)
		bump := bluge.NewBatch()
		bump.Delete(bluge.Identifier("never-indexed"))
		if err := w.Batch(bump); err != nil {
			closeAll()
			return nil, "err:batch"
		}
		rh, err := w.Reader()
		if err != nil {
			closeAll()
			return nil, "err:reader"
		}
		histReaders = append(histReaders, rh)
	}
	bt := &built{phys: fmt.Sprintf("segs=%d merged=false del=0", k), simple: true, scores: "-", perRdr: k}
	bt.searchFn = func(req bluge.SearchRequest) (search.DocumentMatchIterator, error) {
		return bluge.MultiSearch(context.Background(), req, readers...)
	}
	bt.histFn = func(req bluge.SearchRequest) (search.DocumentMatchIterator, error) {
		return bluge.MultiSearch(context.Background(), req, histReaders...)
	}
	bt.count = func() (uint64, error) {
		var t uint64
		for _, r := range readers {
			c, err := r.Count()
			if err != nil {
				return 0, err
			}
			t += c
		}
		return t, nil
	}
	bt.closeFn = closeAll
	return bt, ""
}

// ---------------------------------------------------------------- the digest

func storedOf(m *search.DocumentMatch) (id string, canon string) {
	fields := map[string]string{}
	_ = m.VisitStoredFields(func(field string, value []byte) bool {
		v := string(value)
		if field == "n" {
			f, err := bluge.DecodeNumericFloat64(value)
			if err != nil {
				v = "?"
			} else {
				v = strconv.FormatFloat(f, 'f', -1, 64)
			}
		}
		if old, dup := fields[field]; dup {
			v = old + "&" + v
		}
		fields[field] = v
		return true
	})
	id = fields["_id"]
	ks := make([]string, 0, len(fields))
	for k := range fields {
		ks = append(ks, k)
	}
	sort.Strings(ks)
	parts := make([]string, 0, len(ks))
	for _, k := range ks {
		parts = append(parts, k+"="+fields[k])
	}
	return id, id + "{" + strings.Join(parts, ",") + "}"
}

func fnv64(s string) uint64 {
	h := uint64(14695981039346656037)
	for i := 0; i < len(s); i++ {
		h ^= uint64(s[i])
		h *= 1099511628211
	}
	return h
}

func fmtNum(f float64) string {
	if math.IsInf(f, 1) {
		return "+Inf"
	}
	if math.IsInf(f, -1) {
		return "-Inf"
	}
	return strconv.FormatFloat(f, 'f', -1, 64)
}

func digestQuery(bt *built, cs *caseState, qs string, p map[string]string, total int) string {
	q, ok := parseQuery(qs)
	if !ok {
		return "bad-query"
	}
	var out []string
	// --- top-N request in the recipe's score mode, with aggregations
	req := bluge.NewTopNSearch(total+5, q)
	if p["score"] == "none" {
		req.SetScore("none")
	}
	req.AddAggregation("count", aggregations.CountMatches())
	req.AddAggregation("tk", aggregations.NewTermsAggregation(search.Field("k"), 1000))
	req.AddAggregation("sum", aggregations.Sum(search.Field("n")))
	// (one aggregation per field and request: a field needed twice by one request has its doc values
	// loaded twice and every aggregation on it counts double — not a layout matter, see the C08 report)
	it, err := bt.searchFn(req)
	if err != nil {
		return "err:search"
	}
	type hit struct {
		id, canon string
		score     float64
	}
	var hits []hit
	for m, e := it.Next(); m != nil || e != nil; m, e = it.Next() {
		if e != nil {
			return "err:iterate"
		}
		id, canon := storedOf(m)
		hits = append(hits, hit{id, canon, m.Score})
	}
	sort.SliceStable(hits, func(i, j int) bool {
		a, b := idNum(hits[i].id), idNum(hits[j].id)
		if a != b {
			return a < b
		}
		return hits[i].id < hits[j].id
	})
	ids := make([]string, len(hits))
	canons := make([]string, len(hits))
	for i, x := range hits {
		ids[i], canons[i] = x.id, x.canon
	}
	out = append(out, "ids="+joinOrDash(ids, ","))
	// --- the AllMatches collector (always scored)
	req2 := bluge.NewAllMatches(q)
	req2.AddAggregation("tk2", aggregations.NewTermsAggregation(search.Field("k"), 2))
	req2.AddAggregation("min", aggregations.Min(search.Field("n")))
	it2, err := bt.searchFn(req2)
	if err != nil {
		return "err:search-all"
	}
	var am []string
	for m, e := it2.Next(); m != nil || e != nil; m, e = it2.Next() {
		if e != nil {
			return "err:iterate-all"
		}
		id, _ := storedOf(m)
		am = append(am, id)
	}
	sortIDs(am)
	out = append(out, "am="+joinOrDash(am, ","))
	out = append(out, fmt.Sprintf("st=%016x", fnv64(strings.Join(canons, ";"))))
	// --- aggregations
	req3 := bluge.NewTopNSearch(1, q)
	if p["score"] == "none" {
		req3.SetScore("none")
	}
	req3.AddAggregation("max", aggregations.Max(search.Field("n")))
	it3, err := bt.searchFn(req3)
	if err != nil {
		return "err:search-max"
	}
	for m, e := it3.Next(); m != nil || e != nil; m, e = it3.Next() {
		if e != nil {
			return "err:iterate-max"
		}
	}
	ag := it.Aggregations()
	ag2 := it2.Aggregations()
	ag3 := it3.Aggregations()
	var tk []string
	for _, b := range ag.Buckets("tk") {
		tk = append(tk, fmt.Sprintf("%s:%d", b.Name(), b.Count()))
	}
	sort.Strings(tk)
	var tk2 []int
	for _, b := range ag2.Buckets("tk2") {
		tk2 = append(tk2, int(b.Count()))
	}
	sort.Sort(sort.Reverse(sort.IntSlice(tk2)))
	tk2s := make([]string, len(tk2))
	for i, c := range tk2 {
		tk2s[i] = strconv.Itoa(c)
	}
	other := -1
	if tc, ok := ag2.Aggregation("tk2").(interface{ Other() int }); ok {
		other = tc.Other()
	}
	out = append(out, fmt.Sprintf("ag=%d/%s/%s+%d/%s/%s/%s", ag.Count(), joinOrDash(tk, ","), joinOrDash(tk2s, ","), other,
		fmtNum(ag.Metric("sum")), fmtNum(ag2.Metric("min")), fmtNum(ag3.Metric("max"))))
	// --- field sorts: ties grouped (ids inside a group sorted); exact order where the layout is known
	for si, ss := range cs.sorts {
		sreq := bluge.NewTopNSearch(total+5, q).SortByCustom(parseSort(ss))
		if p["score"] == "none" {
			sreq.SetScore("none")
		}
		sit, err := bt.searchFn(sreq)
		if err != nil {
			return "err:search-sort"
		}
		var groups [][]string
		var exact []string
		lastKey := ""
		for m, e := sit.Next(); m != nil || e != nil; m, e = sit.Next() {
			if e != nil {
				return "err:iterate-sort"
			}
			id, _ := storedOf(m)
			key := ""
			for _, sv := range m.SortValue {
				key += hlib.Hex(sv) + "."
			}
			if len(groups) == 0 || key != lastKey {
				groups = append(groups, nil)
				lastKey = key
			}
			groups[len(groups)-1] = append(groups[len(groups)-1], id)
			exact = append(exact, id)
		}
		gs := make([]string, len(groups))
		for i, g := range groups {
			sortIDs(g)
			gs[i] = strings.Join(g, ",")
		}
		out = append(out, fmt.Sprintf("s%d=%s", si, joinOrDash(gs, "|")))
		if bt.simple {
			out = append(out, fmt.Sprintf("x%d=%s", si, joinOrDash(exact, ",")))
		}
	}
	// --- scores as bit patterns
	switch bt.scores {
	case "sc", "scm":
		parts := make([]string, len(hits))
		for i, x := range hits {
			parts[i] = fmt.Sprintf("%s:%016x", x.id, math.Float64bits(x.score))
		}
		out = append(out, bt.scores+"="+joinOrDash(parts, ","))
	default:
		out = append(out, "sc=-")
	}
	return strings.Join(out, " ")
}

// histIDs: the sorted ids of one top-N request (recipe's score mode) on the recycling reader
func histIDs(bt *built, qs string, p map[string]string, total int) string {
	q, ok := parseQuery(qs)
	if !ok {
		return "bad-query"
	}
	req := bluge.NewTopNSearch(total+5, q)
	if p["score"] == "none" {
		req.SetScore("none")
	}
	it, err := bt.histFn(req)
	if err != nil {
		return "err"
	}
	var ids []string
	for m, e := it.Next(); m != nil || e != nil; m, e = it.Next() {
		if e != nil {
			return "err"
		}
		id, _ := storedOf(m)
		ids = append(ids, id)
	}
	sortIDs(ids)
	return joinOrDash(ids, ",")
}

func runRecipe(cs *caseState, p map[string]string, work string) (phys string, result string) {
	type res struct{ phys, result string }
	ch := make(chan res, 1)
	go func() {
		defer func() {
			if e := recover(); e != nil {
				ch <- res{"", "panic"}
			}
		}()
		var bt *built
		var errs string
		switch {
		case p["offline"] != "" && p["offline"] != "-":
			bt, errs = buildOffline(cs, p, work)
		case p["multi"] != "" && p["multi"] != "0":
			bt, errs = buildMulti(cs, p, work)
		default:
			bt, errs = buildStandard(cs, p, work)
		}
		if bt == nil {
			ch <- res{"", errs}
			return
		}
		closed := false
		defer func() {
			if !closed {
				bt.closeFn()
			}
		}()
		var secs []string
		cnt, err := bt.count()
		if err != nil {
			secs = append(secs, "cnt=err")
		} else {
			secs = append(secs, fmt.Sprintf("cnt=%d", cnt))
		}
		if bt.prefix != "" {
			secs[0] += " " + bt.prefix
		}
		junk, _ := strconv.Atoi(p["junk"])
		total := len(cs.docs) + junk
		qsecs := make([]string, len(cs.queries))
		for i, qs := range cs.queries {
			qsecs[i] = digestQuery(bt, cs, qs, p, total)
		}
		// history probe: the same requests, three rounds, on the reader that recycles its term field readers;
		// every round must return what the history-free view returned
		hist := make([]string, len(cs.queries))
		for i := range hist {
			hist[i] = "-"
			if bt.histFn != nil {
				hist[i] = "ok"
			}
		}
		if bt.histFn != nil {
			for round := 0; round < 3; round++ {
				for i, qs := range cs.queries {
					if hist[i] != "ok" || !strings.HasPrefix(qsecs[i], "ids=") {
						continue
					}
					want := strings.TrimPrefix(strings.Fields(qsecs[i])[0], "ids=")
					got := histIDs(bt, qs, p, total)
					if got != want {
						hist[i] = fmt.Sprintf("DIFF@round%d:%s", round, got)
					}
				}
			}
		}
		for i := range cs.queries {
			secs = append(secs, fmt.Sprintf("q%d ", i)+qsecs[i]+" hist="+hist[i])
		}
		closed = true
		bt.closeFn() // before the result is handed over: the next recipe must not overlap with this one
		ch <- res{bt.phys, strings.Join(secs, " ;; ")}
	}()
	select {
	case r := <-ch:
		return r.phys, r.result
	case <-time.After(60 * time.Second):
		return "", "timeout"
	}
}

// ---------------------------------------------------------------- the opt stream (physical level)

func shapeOf(it segment.PostingsIterator) string {
	if it.Empty() {
		return "E"
	}
	o, ok := it.(segment.OptimizablePostingsIterator)
	if !ok {
		return "X"
	}
	if d, ok := o.DocNum1Hit(); ok {
		return fmt.Sprintf("H%d", d)
	}
	bm := o.ActualBitmap()
	if bm == nil {
		return "N"
	}
	arr := bm.ToArray()
	s := make([]string, len(arr))
	for i, v := range arr {
		s[i] = strconv.Itoa(int(v))
	}
	return "B" + strings.Join(s, ",")
}

func drain(s search.Searcher) string {
	ctx := search.NewSearchContext(64+s.DocumentMatchPoolSize(), 0)
	var nums []string
	for {
		m, err := s.Next(ctx)
		if err != nil {
			return "err"
		}
		if m == nil {
			break
		}
		nums = append(nums, strconv.FormatUint(m.Number, 10))
		ctx.DocumentMatchPool.Put(m)
		if len(nums) > 100000 {
			return "runaway"
		}
	}
	return joinOrDash(nums, ",")
}

// rewritten: did an unadorned rewrite replace the composite searcher? The replacement is a TermSearcher,
// wrapped in the unexported minSearcher when a minimum has to stay visible.
func rewritten(s search.Searcher) string {
	switch fmt.Sprintf("%T", s) {
	case "*searcher.TermSearcher", "*searcher.minSearcher":
		return "T"
	}
	return "F"
}

func execOpt(line string, out func(string, string), st *hlib.Stats) {
	p := kv(strings.Fields(line))
	res := hlib.Catch(func() string {
		cfg := tuneConfig(bluge.InMemoryOnlyConfig(), map[string]string{"ver": p["ver"]})
		ic := cfg.VerifIndexConfig()
		// the first m batches are merged into one segment (merged segments are where ice uses the 1-hit
		// encoding); the planner's budget function is switched at run time
		var mergeOn atomic.Bool
		ic.MergePlanOptions.FloorSegmentSize = 1
		ic.MergePlanOptions.SegmentsPerMergeTask = 10
		ic.MergePlanOptions.CalcBudget = func(int64, int64, *mergeplan.Options) int {
			if mergeOn.Load() {
				return 1
			}
			return 1 << 30
		}
		m, _ := strconv.Atoi(p["m"])
		rec.reset(true)
		defer rec.reset(false)
		w, err := index.OpenWriter(ic)
		if err != nil {
			return "err:open"
		}
		defer w.Close()
		for si, sg := range strings.Split(p["segs"], "/") {
			mergeOn.Store(si < m)
			b := index.NewBatch()
			for _, ds := range strings.Split(sg, ",") {
				f := strings.SplitN(ds, ":", 2)
				if len(f) != 2 {
					continue
				}
				// no term positions: a term that occurs once in a MERGED segment gets the 1-hit encoding
				d := bluge.NewDocument(f[0]).AddField(bluge.NewTextField("t", strings.Join(strings.Split(f[1], "+"), " ")).StoreValue())
				b.Update(d.ID(), d)
			}
			if err := w.Batch(b); err != nil {
				return "err:batch"
			}
			if si+1 == m && m >= 2 {
				if !quiesce(3 * time.Second) {
					st.Count("opt:no-quiescence")
				}
				mergeOn.Store(false)
				time.Sleep(5 * time.Millisecond)
			}
		}
		mergeOn.Store(false)
		if p["del"] != "" && p["del"] != "-" {
			b := index.NewBatch()
			for _, id := range strings.Split(p["del"], ",") {
				b.Delete(bluge.Identifier(id))
			}
			if err := w.Batch(b); err != nil {
				return "err:batch"
			}
		}
		snap, err := w.Reader()
		if err != nil {
			return "err:reader"
		}
		defer snap.Close()
		terms := strings.Split(p["terms"], ",")
		// observed physical layout: segment sizes and the shape of every term's iterator per segment
		var sizes []string
		shapes := make([][]string, len(terms))
		for _, ss := range snap.Segments() {
			sg, ok := ss.(interface{ Segment() segment.Segment })
			if !ok {
				return "err:no-segment-accessor"
			}
			seg := sg.Segment()
			sizes = append(sizes, strconv.FormatUint(seg.Count(), 10))
			dict, err := seg.Dictionary("t")
			if err != nil {
				return "err:dict"
			}
			for ti, t := range terms {
				pl, err := dict.PostingsList([]byte(t), ss.Deleted(), nil)
				if err != nil {
					return "err:postings"
				}
				it, err := pl.Iterator(false, false, false, nil)
				if err != nil {
					return "err:iterator"
				}
				shapes[ti] = append(shapes[ti], shapeOf(it))
			}
		}
		tsh := make([]string, len(terms))
		for i := range terms {
			tsh[i] = joinOrDash(shapes[i], "/")
		}
		op := "opt sizes=" + joinOrDash(sizes, ",") + " T=" + strings.Join(tsh, ";")
		// the real searchers
		sim := similarity.NewBM25Similarity()
		optsNone := search.SearcherOptions{Score: "none", SimilarityForField: func(string) search.Similarity { return sim }}
		optsStd := search.SearcherOptions{SimilarityForField: func(string) search.Similarity { return sim }}
		mk := func(o search.SearcherOptions, ts []string) ([]search.Searcher, bool) {
			var rv []search.Searcher
			for _, t := range ts {
				s, err := searcher.NewTermSearcher(snap, t, "t", 1.0, nil, o)
				if err != nil {
					return nil, false
				}
				rv = append(rv, s)
			}
			return rv, true
		}
		var parts []string
		add := func(tag string, build func() (search.Searcher, error), withMin bool) {
			s, err := build()
			if err != nil || s == nil {
				parts = append(parts, tag+"=err")
				return
			}
			v := rewritten(s)
			if withMin {
				v += ":" + strconv.Itoa(s.Min())
			}
			parts = append(parts, tag+"="+v+":"+drain(s))
			// not closed on purpose: Close recycles the term field readers, and a recycled posting list
			// of a missing term shows an empty non-nil bitmap instead of nil — the shapes observed above
			// (fresh iterators) would no longer be the ones the next searcher sees
		}
		cs := similarity.NewCompositeSumScorer()
		add("cU", func() (search.Searcher, error) {
			ss, _ := mk(optsNone, terms)
			return searcher.NewConjunctionSearcher(snap, ss, cs, optsNone)
		}, false)
		add("dU0", func() (search.Searcher, error) {
			ss, _ := mk(optsNone, terms)
			return searcher.NewDisjunctionSearcher(snap, ss, 0, cs, optsNone)
		}, true)
		add("dU1", func() (search.Searcher, error) {
			ss, _ := mk(optsNone, terms)
			return searcher.NewDisjunctionSearcher(snap, ss, 1, cs, optsNone)
		}, true)
		add("cS", func() (search.Searcher, error) {
			ss, _ := mk(optsStd, terms)
			return searcher.NewConjunctionSearcher(snap, ss, cs, optsStd)
		}, false)
		add("dS1", func() (search.Searcher, error) {
			ss, _ := mk(optsStd, terms)
			return searcher.NewDisjunctionSearcher(snap, ss, 1, cs, optsStd)
		}, true)
		if len(terms) >= 3 {
			// nested: the rewritten conjunction of the first two terms as a child of an outer rewrite with the third
			add("nC", func() (search.Searcher, error) {
				in, _ := mk(optsNone, terms[:2])
				inner, err := searcher.NewConjunctionSearcher(snap, in, cs, optsNone)
				if err != nil {
					return nil, err
				}
				t3, _ := mk(optsNone, terms[2:3])
				return searcher.NewConjunctionSearcher(snap, []search.Searcher{inner, t3[0]}, cs, optsNone)
			}, false)
			add("nD", func() (search.Searcher, error) {
				in, _ := mk(optsNone, terms[:2])
				inner, err := searcher.NewConjunctionSearcher(snap, in, cs, optsNone)
				if err != nil {
					return nil, err
				}
				t3, _ := mk(optsNone, terms[2:3])
				return searcher.NewDisjunctionSearcher(snap, []search.Searcher{inner, t3[0]}, 1, cs, optsNone)
			}, true)
		}
		st.Count("op:opt")
		for _, sh := range tsh {
			for _, x := range strings.Split(sh, "/") {
				if x != "" {
					st.Count("shape:" + x[:1])
				}
			}
		}
		st.Case(line, len(sizes) > 0)
		out(op, strings.Join(parts, " "))
		return ""
	})
	if res != "" {
		out(line, res)
	}
}

// ---------------------------------------------------------------- Exec

func (h) Exec(line string, out func(string, string), st *hlib.Stats, work string) {
	f := strings.Fields(line)
	if len(f) == 0 {
		return
	}
	switch f[0] {
	case "case":
		if len(f) > 1 && f[1] == "opt" {
			cur = nil
			out(line, "case")
			execOpt(line, out, st)
			return
		}
		cs := &caseState{name: f[1]}
		// D=… Q=… S=… ; Q contains spaces: cut by markers
		iD, iQ, iS := strings.Index(line, " D="), strings.Index(line, " Q="), strings.Index(line, " S=")
		if iD < 0 || iQ < iD || iS < iQ {
			out(line, "bad-case")
			cur = nil
			return
		}
		cs.docs = parseDocs(strings.TrimSpace(line[iD+3 : iQ]))
		for _, q := range strings.Split(line[iQ+3:iS], "|") {
			if q = strings.TrimSpace(q); q != "" {
				cs.queries = append(cs.queries, q)
			}
		}
		for _, s := range strings.Split(strings.TrimSpace(line[iS+3:]), ",") {
			if s != "" && s != "-" {
				cs.sorts = append(cs.sorts, s)
			}
		}
		cur = cs
		st.Count(fmt.Sprintf("corpus:docs=%s", sizeBucket(len(cs.docs))))
		for _, q := range cs.queries {
			st.Count("query:" + strings.Fields(q)[0])
		}
		out(line, "case")
	case "recipe":
		if cur == nil {
			out(line, "no-case")
			return
		}
		p := kv(f[2:])
		phys, res := runRecipe(cur, p, work)
		op := line
		if phys != "" {
			op += " @ " + phys
		}
		st.Count("recipe:" + recipeKind(p))
		if strings.Contains(phys, "merged=true") {
			st.Count("phys:merged-segment")
		}
		if strings.Contains(phys, "tail=true") {
			st.Count("phys:merge-behind-deletions")
		}
		if strings.Contains(phys, "no-quiescence") {
			st.Count("phys:no-quiescence")
		}
		if !strings.Contains(phys, "del=0") && phys != "" {
			st.Count("phys:pending-deletions")
		}
		if m := strings.Index(phys, "segs="); m >= 0 {
			if n, _ := strconv.Atoi(strings.Fields(phys[m+5:])[0]); n > 1 {
				st.Count("phys:multi-segment")
			}
		}
		st.Count("res:" + classify(res))
		st.Case(cur.name+"|"+line, len(cur.docs) > 0 || (p["offline"] != "" && p["offline"] != "-"))
		out(op, res)
	default:
		out(line, "bad-op")
	}
}

func recipeKind(p map[string]string) string {
	switch {
	case p["offline"] != "" && p["offline"] != "-":
		return "offline"
	case p["multi"] != "" && p["multi"] != "0":
		return "multisearch"
	case p["tailmerge"] == "1":
		return "tail-merge"
	case p["backup"] == "1" && p["bkfail"] != "":
		return "backup-partial"
	case p["backup"] == "1" && p["bkcancel"] == "1":
		return "backup-cancel"
	case p["backup"] == "1":
		return "backup"
	case p["reopen"] == "1":
		return "reopen"
	case p["score"] == "none":
		return "score-none"
	case p["noopt"] != "" && p["noopt"] != "-":
		return "noopt"
	case p["merge"] == "1":
		return "merge"
	case p["ver"] == "2":
		return "v2"
	case p["dir"] == "fs":
		return "fs"
	}
	return "mem"
}

func classify(res string) string {
	switch {
	case res == "panic", res == "timeout":
		return res
	case strings.HasPrefix(res, "err"), strings.HasPrefix(res, "bad"):
		return "error"
	}
	return "digest"
}

func sizeBucket(n int) string {
	switch {
	case n == 0:
		return "0"
	case n <= 2:
		return "1-2"
	case n <= 8:
		return "3-8"
	case n <= 16:
		return "9-16"
	}
	return "17+"
}

func main() { hlib.Main(h{}) }

// Correspondence harness for C11 (no needed file is ever removed; handles and the lock are
// released): stream `dirtrace` with more readers, second writers and reopen operations.
package main

import (
	"os"

	"verif/harness/hlib"
	"verif/harness/persistlib"
)

func main() {
	if len(os.Args) > 1 && os.Args[1] == "child" {
		persistlib.ChildMain(os.Args[2:])
		return
	}
	hlib.Main(&persistlib.H{Mode: persistlib.Mode{Name: "c11", Images: false, Readers: 8}})
}

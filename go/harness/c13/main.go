// Correspondence harness for C13: the real index.FileSystemDirectory.Persist / Remove on a real
// directory, scenario by scenario (stream `fs`).
//
// Script lines (one independent scenario each; see lean/Drv/C13.lean for the model side):
//
//	prog
//	persist  kind=seg|snp id=N data=SPEC prior=absent|SPEC chunks=-|n,n,… fault=none|wfail:K|cancel:K|syncfail|closefail|lockbusy|noent
//	tpersist …same…   the scenario runs in a child process under strace; the result carries the system calls
//	remove   kind=… id=N prior=absent|SPEC lock=none|shared|exclusive
//	pid      steps=A:lock,B:lock,A:unlock,…      FileSystemDirectory.Lock / Unlock, one object per actor, one directory
//	tpid     steps=A:lock,A:unlock               the same under strace (the system calls on bluge.pid, in order)
//	writers  steps=1:open,2:open,1:close,…       the real index.OpenWriter / Writer.Close over FileSystemDirectory
//	load     kind=… id=N prior=SPEC mode=mm|nm steps=load,remove,load2,persist,close,close2,…
//	                                             a reader object Loads the item (LoadMMapAlways | LoadMMapNever); `remove` / `persist`
//	                                             are done by ANOTHER object; `close` runs the closer Load returned
//	tload    (same, steps=load,close)            under strace
//	SPEC = hex:HEX | pat:SEED:LEN     (byte i = (SEED + 7i + 13(i/251)) mod 256)
//
// pid / writers: after every step `<ok|err|panic>/<absent|pid|empty|other>` (the content of bluge.pid: `pid` = this
// process's pid line). load: after every step `<ok|err|panic>[:LEN:HEX|#FNV of the loaded data]/<file as below>`.
//
// Observed per scenario: the return value (ok/err), the bytes of the item's file afterwards
// (absent | LEN:HEX for ≤ 40 bytes | LEN:#FNV64), every other file of the directory (a bystander item
// id+1 is planted first), and for tpersist the open/flock/ftruncate/write/fsync/close/unlink calls
// that Persist made on the item's path, in order.
package main

import (
	"errors"
	"fmt"
	"io"
	"os"
	"os/exec"
	"path/filepath"
	"reflect"
	"regexp"
	"sort"
	"strconv"
	"strings"
	"unsafe"

	"github.com/blugelabs/bluge/index"
	"github.com/blugelabs/bluge/index/lock"

	"verif/harness/hlib"
)

type h struct{}

func (h) Rule() string {
	return "every combination of item size {0,1,4095,4096,4097,196609} × prior file {absent, shorter, equal, longer by 1/18/4096} × chunking {one write, boundary chunks} without fault; writer failure and cancellation after k bytes for k in {0,1,size/2,size-1,size,4096,65536}, Sync failure, Close failure (an injected LockedFile whose Close reports an error), busy lock, missing directory; both item kinds; Remove with and without a lock held by a reader; a traced subset (strace) for the system-call order; seeded random scenarios; Lock/Unlock sequences of three directory objects on one directory and OpenWriter/Close sequences of three real writers (pid file state after every step); Load through both loaders against Remove/Persist by another object and the closers, with traced subsets. A case is non-trivial when a prior file exists or a fault is injected or the writer uses more than one write; distinct by op line without the id"
}

// ---------------------------------------------------------------- scenario description

func pat(seed, n int) []byte {
	b := make([]byte, n)
	for i := range b {
		b[i] = byte(seed + 7*i + 13*(i/251))
	}
	return b
}

func unhex(s string) []byte {
	if s == "-" {
		return nil
	}
	b := make([]byte, len(s)/2)
	for i := range b {
		v, _ := strconv.ParseUint(s[2*i:2*i+2], 16, 8)
		b[i] = byte(v)
	}
	return b
}

func parseSpec(s string) ([]byte, bool) {
	w := strings.Split(s, ":")
	switch {
	case len(w) == 2 && w[0] == "hex":
		return unhex(w[1]), true
	case len(w) == 3 && w[0] == "pat":
		a, e1 := strconv.Atoi(w[1])
		n, e2 := strconv.Atoi(w[2])
		if e1 != nil || e2 != nil {
			return nil, false
		}
		return pat(a, n), true
	}
	return nil, false
}

func kvs(ws []string) map[string]string {
	m := map[string]string{}
	for _, w := range ws {
		if i := strings.Index(w, "="); i > 0 {
			m[w[:i]] = w[i+1:]
		}
	}
	return m
}

func fnv(b []byte) uint64 {
	hh := uint64(14695981039346656037)
	for _, x := range b {
		hh = (hh ^ uint64(x)) * 1099511628211
	}
	return hh
}

func render(b []byte) string {
	if len(b) <= 40 {
		return fmt.Sprintf("%d:%s", len(b), hlib.Hex(b))
	}
	return fmt.Sprintf("%d:#%016x", len(b), fnv(b))
}

func kindExt(k string) string {
	if k == "snp" {
		return index.ItemKindSnapshot
	}
	return index.ItemKindSegment
}

// ---------------------------------------------------------------- the writer

var errWriter = errors.New("verif: writer fails")
var errCancelled = errors.New("verif: cancelled")

type writer struct {
	data      []byte
	chunks    []int
	stop      int  // -1: never
	cancel    bool // at `stop` bytes the close channel is closed (and noticed), instead of a plain error
	closeFile bool // close the *os.File after the last byte (makes the following Sync fail)
}

func (w *writer) WriteTo(out io.Writer, closeCh chan struct{}) (int64, error) {
	var n int64
	data := w.data
	if w.stop >= 0 && w.stop < len(data) {
		data = data[:w.stop]
	}
	ci := 0
	for len(data) > 0 {
		select {
		case <-closeCh:
			return n, errCancelled
		default:
		}
		c := len(data)
		if ci < len(w.chunks) {
			if w.chunks[ci] < c {
				c = w.chunks[ci]
			}
			ci++
		}
		if c == 0 {
			continue
		}
		k, err := out.Write(data[:c])
		n += int64(k)
		if err != nil {
			return n, err
		}
		data = data[c:]
	}
	if w.stop >= 0 {
		if w.cancel {
			select {
			case <-closeCh:
			default:
				close(closeCh)
			}
			<-closeCh
			return n, errCancelled
		}
		return n, errWriter
	}
	if w.closeFile {
		if f, ok := out.(*os.File); ok {
			_ = f.Close()
		}
	}
	return n, nil
}

// ---------------------------------------------------------------- Close failure

var errClose = errors.New("verif: close fails")

// failingClose wraps the LockedFile Persist works on: the first Close releases the real handle and REPORTS an
// error (what a delayed write error at close(2) looks like); later calls behave like the real thing.
type failingClose struct {
	lock.LockedFile
	done bool
}

func (f *failingClose) Close() error {
	err := f.LockedFile.Close()
	if !f.done {
		f.done = true
		return errClose
	}
	return err
}

// injectCloseFailure replaces the unexported field `openExclusive` of the directory (no hook in /repo is needed
// for this: the field is a function value; work/C13/hook.diff proposes an accessor instead of the reflection).
func injectCloseFailure(d *index.FileSystemDirectory) bool {
	fv := reflect.ValueOf(d).Elem().FieldByName("openExclusive")
	if !fv.IsValid() || fv.Kind() != reflect.Func {
		return false
	}
	orig, ok := reflect.NewAt(fv.Type(), unsafe.Pointer(fv.UnsafeAddr())).Elem().Interface().(func(string, int, os.FileMode) (lock.LockedFile, error))
	if !ok || orig == nil {
		return false
	}
	wrapped := func(path string, flag int, perm os.FileMode) (lock.LockedFile, error) {
		f, err := orig(path, flag, perm)
		if err != nil {
			return nil, err
		}
		return &failingClose{LockedFile: f}, nil
	}
	reflect.NewAt(fv.Type(), unsafe.Pointer(fv.UnsafeAddr())).Elem().Set(reflect.ValueOf(wrapped))
	return true
}

// ---------------------------------------------------------------- one scenario on the real code

const beginMark = "/nonexistent-verif/C13-BEGIN"
const endMark = "/nonexistent-verif/C13-END"

func observe(dir, name string, res string) string {
	file := "absent"
	if b, err := os.ReadFile(filepath.Join(dir, name)); err == nil {
		file = render(b)
	}
	var others []string
	if ents, err := os.ReadDir(dir); err == nil {
		for _, e := range ents {
			if e.Name() == name {
				continue
			}
			label := e.Name()
			base := strings.TrimSuffix(e.Name(), filepath.Ext(e.Name()))
			if v, err := strconv.ParseUint(base, 16, 64); err == nil {
				label = strconv.FormatUint(v, 10)
			}
			b, _ := os.ReadFile(filepath.Join(dir, e.Name()))
			others = append(others, label+":"+render(b))
		}
	}
	sort.Strings(others)
	o := "-"
	if len(others) > 0 {
		o = strings.Join(others, ",")
	}
	return res + " file=" + file + " others=" + o
}

// runScenario executes a persist/remove scenario in `dir` (fresh) and returns the canonical observation.
func runScenario(op string, m map[string]string, dir string) string {
	return hlib.Catch(func() string {
		id, _ := strconv.ParseUint(m["id"], 10, 64)
		ext := kindExt(m["kind"])
		name := fmt.Sprintf("%012x", id) + ext
		fault := m["fault"]
		if fault == "" {
			fault = "none"
		}
		_ = os.RemoveAll(dir)
		target := dir
		if fault == "noent" {
			// the directory the FileSystemDirectory points at does not exist: OpenFile itself fails
			if err := os.MkdirAll(filepath.Dir(dir), 0o755); err != nil {
				return "harness-error"
			}
		} else {
			if err := os.MkdirAll(dir, 0o755); err != nil {
				return "harness-error"
			}
			by := fmt.Sprintf("%012x", id+1) + ext
			if err := os.WriteFile(filepath.Join(dir, by), []byte{0xbb, 0xbb, 0xbb}, 0o600); err != nil {
				return "harness-error"
			}
			if p := m["prior"]; p != "" && p != "absent" {
				b, ok := parseSpec(p)
				if !ok {
					return "harness-error"
				}
				if err := os.WriteFile(filepath.Join(dir, name), b, 0o600); err != nil {
					return "harness-error"
				}
			}
		}
		defer os.RemoveAll(dir)
		d := index.NewFileSystemDirectory(target)
		if fault == "closefail" && !injectCloseFailure(d) {
			return "harness-error:inject"
		}

		// a lock held by somebody else (another open file description, as another process or an open reader has)
		var held lock.LockedFile
		lk := m["lock"]
		if fault == "lockbusy" {
			lk = "exclusive"
		}
		switch lk {
		case "exclusive":
			f, err := lock.OpenExclusive(filepath.Join(dir, name), os.O_RDWR, 0)
			if err != nil {
				return "harness-error"
			}
			held = f
		case "shared":
			f, err := lock.OpenShared(filepath.Join(dir, name), os.O_RDONLY, 0)
			if err != nil {
				return "harness-error"
			}
			held = f
		}
		var err error
		if op == "remove" {
			_ = os.Remove(beginMark)
			err = d.Remove(ext, id)
			_ = os.Remove(endMark)
		} else {
			data, ok := parseSpec(m["data"])
			if !ok {
				return "harness-error"
			}
			w := &writer{data: data, stop: -1}
			if c := m["chunks"]; c != "" && c != "-" {
				for _, x := range strings.Split(c, ",") {
					v, _ := strconv.Atoi(x)
					w.chunks = append(w.chunks, v)
				}
			}
			closeCh := make(chan struct{})
			fw := strings.Split(fault, ":")
			switch fw[0] {
			case "wfail":
				w.stop, _ = strconv.Atoi(fw[1])
			case "cancel":
				w.stop, _ = strconv.Atoi(fw[1])
				w.cancel = true
				if w.stop == 0 {
					close(closeCh) // cancelled before the call
				}
			case "syncfail":
				w.closeFile = true
			}
			_ = os.Remove(beginMark)
			err = d.Persist(ext, id, w, closeCh)
			_ = os.Remove(endMark)
		}
		if held != nil {
			_ = held.Close()
		}
		res := "ok"
		if err != nil {
			res = "err"
		}
		return observe(dir, name, res)
	})
}

// ---------------------------------------------------------------- Lock / Unlock, OpenWriter / Close, Load

func pidState(dir string) string {
	b, err := os.ReadFile(filepath.Join(dir, "bluge.pid"))
	if err != nil {
		if os.IsNotExist(err) {
			return "absent"
		}
		return "unreadable"
	}
	switch {
	case string(b) == fmt.Sprintf("%d\n", os.Getpid()):
		return "pid"
	case len(b) == 0:
		return "empty"
	}
	return "other"
}

func okErr(err error) string {
	if err != nil {
		return "err"
	}
	return "ok"
}

// runPid: FileSystemDirectory.Lock / Unlock by several directory objects on one directory.
func runPid(m map[string]string, dir string, marks bool) string {
	_ = os.RemoveAll(dir)
	if err := os.MkdirAll(dir, 0o755); err != nil {
		return "harness-error"
	}
	defer os.RemoveAll(dir)
	actors := map[string]*index.FileSystemDirectory{}
	var order []string
	var out []string
	if marks {
		_ = os.Remove(beginMark)
	}
	for _, st := range strings.Split(m["steps"], ",") {
		w := strings.SplitN(st, ":", 2)
		if len(w) != 2 {
			return "harness-error"
		}
		d := actors[w[0]]
		if d == nil {
			d = index.NewFileSystemDirectory(dir)
			actors[w[0]] = d
			order = append(order, w[0])
		}
		res := hlib.Catch(func() string {
			switch w[1] {
			case "lock":
				return okErr(d.Lock())
			case "unlock":
				return okErr(d.Unlock())
			}
			return "bad-step"
		})
		if marks {
			out = append(out, res+"/-") // no read of the pid file while the system calls are being recorded
		} else {
			out = append(out, res+"/"+pidState(dir))
		}
	}
	if marks {
		_ = os.Remove(endMark)
	}
	for _, a := range order { // release whatever is still held
		d := actors[a]
		_ = hlib.Catch(func() string { _ = d.Unlock(); return "" })
	}
	return strings.Join(out, ",")
}

// runWriters: the real OpenWriter / Close, several writers on one directory.
func runWriters(m map[string]string, dir string) string {
	_ = os.RemoveAll(dir)
	if err := os.MkdirAll(dir, 0o755); err != nil {
		return "harness-error"
	}
	defer os.RemoveAll(dir)
	writers := map[string]*index.Writer{}
	var out []string
	for _, st := range strings.Split(m["steps"], ",") {
		w := strings.SplitN(st, ":", 2)
		if len(w) != 2 {
			return "harness-error"
		}
		res := hlib.Catch(func() string {
			switch w[1] {
			case "open":
				wr, err := index.OpenWriter(index.DefaultConfig(dir))
				if err == nil {
					writers[w[0]] = wr
				}
				return okErr(err)
			case "close":
				wr := writers[w[0]]
				if wr == nil {
					return "not-open"
				}
				delete(writers, w[0])
				return okErr(wr.Close())
			}
			return "bad-step"
		})
		out = append(out, res+"/"+pidState(dir))
	}
	for _, wr := range writers {
		wr := wr
		_ = hlib.Catch(func() string { _ = wr.Close(); return "" })
	}
	return strings.Join(out, ",")
}

type closerLike interface{ Close() error }

// runLoad: Load through a reader object, Remove / Persist through another one, the closers.
func runLoad(m map[string]string, dir string, marks bool) string {
	id, _ := strconv.ParseUint(m["id"], 10, 64)
	ext := kindExt(m["kind"])
	name := fmt.Sprintf("%012x", id) + ext
	_ = os.RemoveAll(dir)
	if err := os.MkdirAll(dir, 0o755); err != nil {
		return "harness-error"
	}
	defer os.RemoveAll(dir)
	if p := m["prior"]; p != "" && p != "absent" {
		b, ok := parseSpec(p)
		if !ok {
			return "harness-error"
		}
		if err := os.WriteFile(filepath.Join(dir, name), b, 0o600); err != nil {
			return "harness-error"
		}
	}
	mk := func() *index.FileSystemDirectory {
		d := index.NewFileSystemDirectory(dir)
		if m["mode"] == "nm" {
			d.SetLoadMMapFunc(index.LoadMMapNever)
		} else {
			d.SetLoadMMapFunc(index.LoadMMapAlways)
		}
		return d
	}
	readers := map[string]*index.FileSystemDirectory{"": mk(), "2": mk()}
	other := index.NewFileSystemDirectory(dir)
	closers := map[string]closerLike{}
	fileNow := func() string {
		if b, err := os.ReadFile(filepath.Join(dir, name)); err == nil {
			return render(b)
		}
		return "absent"
	}
	var out []string
	if marks {
		_ = os.Remove(beginMark)
	}
	for _, st := range strings.Split(m["steps"], ",") {
		res := hlib.Catch(func() string {
			switch st {
			case "load", "load2":
				k := strings.TrimPrefix(st, "load")
				if closers[k] != nil {
					return "already-loaded"
				}
				data, cl, err := readers[k].Load(ext, id)
				if err != nil {
					return "err"
				}
				closers[k] = cl
				b, err := data.Read(0, data.Len())
				if err != nil {
					return "ok:unreadable"
				}
				return "ok:" + render(b)
			case "close", "close2":
				k := strings.TrimPrefix(st, "close")
				cl := closers[k]
				if cl == nil {
					return "not-loaded"
				}
				delete(closers, k)
				return okErr(cl.Close())
			case "remove":
				return okErr(other.Remove(ext, id))
			case "persist":
				return okErr(other.Persist(ext, id, &writer{data: []byte("NEW!"), stop: -1}, make(chan struct{})))
			}
			return "bad-step"
		})
		if marks {
			out = append(out, res+"/-")
		} else {
			out = append(out, res+"/"+fileNow())
		}
	}
	if marks {
		_ = os.Remove(endMark)
	}
	for _, cl := range closers {
		cl := cl
		_ = hlib.Catch(func() string { _ = cl.Close(); return "" })
	}
	return strings.Join(out, ",")
}

// runLine executes one script line of any kind in `dir` (used by the strace child).
func runLine(line string, dir string) string {
	ws := strings.Split(line, " ")
	m := kvs(ws[1:])
	switch ws[0] {
	case "persist", "tpersist":
		return runScenario("persist", m, dir)
	case "tpid":
		return runPid(m, dir, true)
	case "tload":
		return runLoad(m, dir, true)
	}
	return "bad-op"
}

// ---------------------------------------------------------------- strace

var reLine = regexp.MustCompile(`^(\d+)\s+(.*)$`)
var reCall = regexp.MustCompile(`^(\w+)\((.*)\)\s+=\s+(0x[0-9a-f]+|-?\d+|\?)(.*)$`)

// traceOf runs the scenario in a child under strace and returns (observation, system calls on the item's path).
func traceOf(line string, dir string, work string) string {
	self, err := os.Executable()
	if err != nil {
		return "harness-error:self"
	}
	tf := filepath.Join(work, "strace.txt")
	_ = os.Remove(tf)
	cmd := exec.Command("strace", "-f", "-qq", "-o", tf,
		"-e", "trace=openat,open,flock,ftruncate,write,pwrite64,writev,fsync,fdatasync,sync_file_range,close,unlink,unlinkat,rename,renameat,renameat2,mmap,munmap",
		self, "child", dir, line)
	outb, err := cmd.Output()
	if err != nil {
		return "harness-error:strace:" + strings.ReplaceAll(err.Error(), " ", "_")
	}
	obs := strings.TrimSpace(string(outb))
	raw, err := os.ReadFile(tf)
	if err != nil {
		return "harness-error:tracefile"
	}
	m := kvs(strings.Split(line, " "))
	id, _ := strconv.ParseUint(m["id"], 10, 64)
	path := filepath.Join(dir, fmt.Sprintf("%012x", id)+kindExt(m["kind"]))
	if strings.HasPrefix(line, "tpid ") {
		path = filepath.Join(dir, "bluge.pid")
	}
	mapped := "" // address of the mapping of our descriptor
	// join "<unfinished ...>" with "<... resumed>"
	pending := map[string]string{}
	var calls []string
	for _, l := range strings.Split(string(raw), "\n") {
		mm := reLine.FindStringSubmatch(l)
		if mm == nil {
			continue
		}
		pid, rest := mm[1], mm[2]
		if strings.HasSuffix(rest, "<unfinished ...>") {
			pending[pid] = strings.TrimSuffix(rest, "<unfinished ...>")
			continue
		}
		if strings.HasPrefix(rest, "<... ") {
			if i := strings.Index(rest, "resumed>"); i >= 0 {
				rest = pending[pid] + rest[i+len("resumed>"):]
				delete(pending, pid)
			}
		}
		calls = append(calls, rest)
	}
	in := false
	fds := map[string]bool{} // descriptors open on the path
	last := ""               // the most recent of them
	var evs []string
	errs := func(ret string) string {
		if strings.HasPrefix(ret, "-") {
			return "=err"
		}
		return ""
	}
	for _, c := range calls {
		cm := reCall.FindStringSubmatch(c)
		if cm == nil {
			continue
		}
		name, args, ret := cm[1], cm[2], cm[3]
		if strings.Contains(args, beginMark) {
			in = true
			continue
		}
		if strings.Contains(args, endMark) {
			in = false
			continue
		}
		if !in {
			continue
		}
		a := strings.Split(args, ", ")
		onPath := strings.Contains(args, `"`+path+`"`)
		onFd := len(a) > 0 && fds[a[0]]
		_ = last
		switch name {
		case "openat", "open":
			if !onPath {
				continue
			}
			fi := 2
			if name == "open" {
				fi = 1
			}
			var fl []string
			for _, f := range strings.Split(a[fi], "|") {
				switch f {
				case "O_CLOEXEC", "O_LARGEFILE":
				case "O_CREAT":
					fl = append(fl, "O_CREATE")
				default:
					fl = append(fl, f)
				}
			}
			sort.Strings(fl)
			mode := "0"
			if len(a) > fi+1 {
				mode = strings.TrimLeft(a[fi+1], "0")
			}
			evs = append(evs, "open["+strings.Join(fl, "|")+"]:"+mode+errs(ret))
			if !strings.HasPrefix(ret, "-") {
				fds[ret] = true
				last = ret
			}
		case "flock":
			if onFd && len(a) > 1 {
				how := "?"
				switch a[1] {
				case "LOCK_EX|LOCK_NB":
					how = "ex"
				case "LOCK_SH|LOCK_NB":
					how = "sh"
				default:
					how = strings.ToLower(a[1])
				}
				evs = append(evs, "flock:"+how+errs(ret))
			}
		case "ftruncate":
			if onFd && len(a) > 1 {
				evs = append(evs, "trunc:"+a[1]+errs(ret))
			}
		case "write", "pwrite64", "writev":
			if onFd {
				if strings.HasPrefix(ret, "-") {
					evs = append(evs, "write=err")
				} else if strings.HasPrefix(line, "tpid ") {
					evs = append(evs, "write:pid") // the pid line: its length depends on the child's pid
				} else {
					evs = append(evs, "write:"+ret)
				}
			}
		case "fsync":
			if onFd && !strings.HasPrefix(ret, "-") {
				evs = append(evs, "fsync")
			}
		case "fdatasync", "sync_file_range":
			if onFd {
				evs = append(evs, name)
			}
		case "close":
			if onFd && !strings.HasPrefix(ret, "-") {
				evs = append(evs, "close")
				delete(fds, a[0])
			}
		case "unlink", "unlinkat":
			if onPath {
				evs = append(evs, "unlink"+errs(ret))
			}
		case "mmap":
			// mmap(NULL, len, PROT_READ, MAP_SHARED, fd, 0) = addr
			if len(a) >= 5 && fds[a[4]] {
				if strings.HasPrefix(ret, "-") {
					evs = append(evs, "mmap=err")
				} else {
					evs = append(evs, "mmap")
					mapped = ret
				}
			}
		case "munmap":
			if mapped != "" && len(a) >= 1 && a[0] == mapped {
				evs = append(evs, "munmap")
				mapped = ""
			}
		case "rename", "renameat", "renameat2":
			if onPath {
				evs = append(evs, "rename")
			}
		}
	}
	if strings.HasPrefix(line, "tpersist ") {
		r := "ret:ok"
		if !strings.HasPrefix(obs, "ok") {
			r = "ret:err"
		}
		evs = append(evs, r)
	}
	return obs + " trace=" + strings.Join(evs, ",")
}

// ---------------------------------------------------------------- generator

func specOf(seed, n int) string { return fmt.Sprintf("pat:%d:%d", seed%256, n) }

type gen struct {
	emit func(string)
	id   uint64
	r    *hlib.Rand
}

func (g *gen) nextID() uint64 {
	g.id += 2 + uint64(g.r.Intn(5)) // leave room for the bystander id+1
	if g.r.Chance(5) {
		return g.id + 1<<40
	}
	return g.id
}

func (g *gen) persist(op string, kind string, size int, prior string, chunks string, fault string) {
	id := g.nextID()
	g.emit(fmt.Sprintf("%s kind=%s id=%d data=%s prior=%s chunks=%s fault=%s", op, kind, id, specOf(int(id)*3+1, size), prior, chunks, fault))
}

func priorsFor(size int, seed int) []string {
	ps := []string{"absent"}
	if size > 0 {
		ps = append(ps, specOf(seed+101, size/2)) // shorter (an empty file when size = 1)
		if size > 1 {
			ps = append(ps, specOf(seed+102, size-1))
		}
	}
	ps = append(ps, specOf(seed+103, size)) // equal length, different bytes
	for _, d := range []int{1, 18, 4096} {
		ps = append(ps, specOf(seed+104+d, size+d)) // longer
	}
	return ps
}

func chunkingsFor(size int) []string {
	cs := []string{"-"}
	switch {
	case size <= 1:
	case size <= 16:
		cs = append(cs, "1", "1,1,1,1")
	case size <= 5000:
		cs = append(cs, "1", "4095,1", "4096", "7,4089,1", "1000,1000,1000,1000")
	default:
		cs = append(cs, "4096", "65536,65536,65536", "1,65535,65536", "100000")
	}
	return cs
}

func stopsFor(size int) []int {
	set := map[int]bool{}
	for _, k := range []int{0, 1, size / 2, size - 1, size, 4095, 4096, 4097, 65536} {
		if k >= 0 && k <= size {
			set[k] = true
		}
	}
	var ks []int
	for k := range set {
		ks = append(ks, k)
	}
	sort.Ints(ks)
	return ks
}

var sizes = []int{0, 1, 4095, 4096, 4097, 3*65536 + 1}

func (h) Gen(r *hlib.Rand, tier string, scale int, emit func(string)) {
	g := &gen{emit: emit, id: 100, r: r}
	kinds := []string{"seg", "snp"}
	emit("prog")
	// the Lean witness (BlugeProofs.C13.persist_no_truncate_counterexample), verbatim
	emit("persist kind=seg id=10 data=hex:6e6577 prior=hex:4f4c444f4c444f4c444f4c444f4c444f4c444f4c44 chunks=- fault=none")
	emit("persist kind=snp id=10 data=hex:6e6577 prior=hex:4f4c444f4c444f4c444f4c444f4c444f4c444f4c44 chunks=1,1 fault=none")
	// 1. no fault: size × prior × chunking, kinds alternating (thorough: both)
	n := 0
	for _, size := range sizes {
		for _, p := range priorsFor(size, size) {
			for _, c := range chunkingsFor(size) {
				for ki, k := range kinds {
					if tier != "thorough" && (n+ki)%2 == 1 {
						continue
					}
					g.persist("persist", k, size, p, c, "none")
				}
				n++
			}
		}
	}
	// 2. writer failure / cancellation after k bytes, Sync failure
	for _, size := range sizes {
		ps := priorsFor(size, size+7)
		pick := []string{ps[0], ps[len(ps)-2], ps[len(ps)-4]} // absent, longer by 18, equal
		if size > 0 {
			pick = append(pick, ps[1]) // shorter
		}
		cks := chunkingsFor(size)
		for _, k := range stopsFor(size) {
			for pi, p := range pick {
				c := cks[(k+pi)%len(cks)]
				g.persist("persist", kinds[(k+pi)%2], size, p, c, fmt.Sprintf("wfail:%d", k))
				g.persist("persist", kinds[(k+pi+1)%2], size, p, c, fmt.Sprintf("cancel:%d", k))
			}
		}
		for pi, p := range pick {
			g.persist("persist", kinds[pi%2], size, p, cks[pi%len(cks)], "syncfail")
			g.persist("persist", kinds[(pi+1)%2], size, p, cks[(pi+1)%len(cks)], "closefail")
		}
		// 3. the open fails: directory missing; lock held by somebody else (needs an existing file)
		g.persist("persist", "seg", size, "absent", "-", "noent")
		for _, p := range ps[1:] {
			g.persist("persist", kinds[size%2], size, p, "-", "lockbusy")
		}
	}
	// 4. remove
	for _, k := range kinds {
		for _, p := range []string{"absent", specOf(5, 0), specOf(6, 10), specOf(7, 5000)} {
			id := g.nextID()
			emit(fmt.Sprintf("remove kind=%s id=%d prior=%s lock=none", k, id, p))
			if p != "absent" {
				id = g.nextID()
				emit(fmt.Sprintf("remove kind=%s id=%d prior=%s lock=shared", k, id, p))
				id = g.nextID()
				emit(fmt.Sprintf("remove kind=%s id=%d prior=%s lock=exclusive", k, id, p))
			}
		}
	}
	// 5. traced subset: the system calls Persist makes, in order
	for _, size := range []int{0, 3, 4097} {
		ps := priorsFor(size, size+3)
		for _, p := range []string{ps[0], ps[len(ps)-2]} {
			for _, c := range []string{"-", "2,1"} {
				if size == 0 && c != "-" {
					continue
				}
				g.persist("tpersist", kinds[size%2], size, p, c, "none")
			}
			g.persist("tpersist", "seg", size, p, "-", "wfail:1")
			g.persist("tpersist", "snp", size, p, "-", "cancel:0")
		}
	}
	g.persist("tpersist", "seg", 5, specOf(1, 9), "-", "lockbusy")
	if tier == "thorough" {
		for _, size := range []int{1, 4096, 3*65536 + 1} {
			for _, p := range priorsFor(size, size+5) {
				g.persist("tpersist", kinds[size%2], size, p, chunkingsFor(size)[1%len(chunkingsFor(size))], "none")
			}
		}
	}
	// 7. Lock / Unlock: several directory objects on one directory
	for _, steps := range []string{
		"A:lock", "A:lock,A:unlock", "A:lock,B:lock", "A:lock,B:lock,C:lock", "A:lock,B:lock,A:unlock,B:lock",
		"A:lock,A:unlock,B:lock,B:unlock,A:lock", "A:lock,B:lock,B:lock,A:unlock,B:lock,C:lock",
		"A:lock,A:unlock,A:unlock", "A:lock,A:lock", "A:lock,B:lock,C:lock,A:unlock,C:lock,B:lock,C:unlock,B:lock",
	} {
		emit("pid steps=" + steps)
	}
	emit("tpid steps=A:lock,A:unlock")
	emit("tpid steps=A:lock,B:lock,A:unlock")
	// the same through the real writer: a refused OpenWriter must leave the first writer's lock file alone
	for _, steps := range []string{
		"1:open,1:close", "1:open,2:open", "1:open,2:open,3:open", "1:open,2:open,3:open,1:close,2:open",
		"1:open,1:close,2:open,2:close,1:open", "1:open,2:open,2:open,1:close,3:open,2:open",
	} {
		emit("writers steps=" + steps)
	}
	pn := 40 * scale
	if tier == "thorough" {
		pn = 600 * scale
	}
	for i := 0; i < pn; i++ {
		var st []string
		acts := []string{"A", "B", "C"}
		held := map[string]bool{}
		for j := r.Range(2, 9); j > 0; j-- {
			a := acts[r.Intn(3)]
			op := "lock"
			// mostly sensible (unlock what is held), sometimes not (double lock, unlock of a failed lock)
			if held[a] && r.Chance(70) {
				op = "unlock"
			} else if !held[a] && r.Chance(8) {
				op = "unlock"
			}
			if op == "lock" {
				free := true
				for _, v := range held {
					if v {
						free = false
					}
				}
				if free {
					held[a] = true
				}
			} else if held[a] {
				held[a] = false
			}
			st = append(st, a+":"+op)
		}
		if i%5 == 4 {
			// writer level: open / close only for writers that are open (Close of a refused writer does not exist)
			var ws []string
			open := map[string]bool{}
			anyOpen := false
			for j := r.Range(2, 7); j > 0; j-- {
				a := []string{"1", "2", "3"}[r.Intn(3)]
				if open[a] && r.Chance(60) {
					ws = append(ws, a+":close")
					open[a] = false
					anyOpen = false
				} else if !open[a] {
					ws = append(ws, a+":open")
					if !anyOpen {
						open[a] = true
						anyOpen = true
					}
				}
			}
			if len(ws) > 0 {
				emit("writers steps=" + strings.Join(ws, ","))
			}
			continue
		}
		emit("pid steps=" + strings.Join(st, ","))
	}
	// 8. Load and its closer against Remove / Persist by somebody else
	for _, mode := range []string{"mm", "nm"} {
		for ki, k := range kinds {
			for _, p := range []string{specOf(9, 10), specOf(11, 5000), specOf(12, 0), "absent"} {
				for si, steps := range []string{
					"load,remove,close,remove", "load,load2,remove,close,remove,close2,remove", "load,persist,close,persist",
					"load,close,close", "remove,load", "load,load2,close,persist,close2,remove",
				} {
					if tier != "thorough" && (si+ki)%2 == 1 && p != specOf(9, 10) {
						continue
					}
					id := g.nextID()
					emit(fmt.Sprintf("load kind=%s id=%d prior=%s mode=%s steps=%s", k, id, p, mode, steps))
				}
			}
		}
		id := g.nextID()
		emit(fmt.Sprintf("tload kind=seg id=%d prior=%s mode=%s steps=load,close", id, specOf(3, 100), mode))
		id = g.nextID()
		emit(fmt.Sprintf("tload kind=snp id=%d prior=%s mode=%s steps=load,remove,close,remove", id, specOf(4, 4097), mode))
	}
	// 6. seeded random scenarios
	cnt := 150 * scale
	if tier == "thorough" {
		cnt = 4000 * scale
	}
	for i := 0; i < cnt; i++ {
		size := 0
		switch r.Weighted(2, 4, 3, 1) {
		case 0:
			size = r.Intn(4)
		case 1:
			size = r.Intn(300)
		case 2:
			size = 4096*r.Range(1, 3) + r.Intn(5) - 2
		default:
			size = r.Intn(140000)
		}
		prior := "absent"
		switch r.Weighted(2, 2, 1, 4) {
		case 1:
			prior = specOf(r.Intn(256), r.Intn(size+1))
		case 2:
			prior = specOf(r.Intn(256), size)
		case 3:
			prior = specOf(r.Intn(256), size+1+r.Intn(5000))
		}
		var cs []string
		if r.Chance(60) {
			for j := r.Range(1, 6); j > 0; j-- {
				lo := 1
				if size > 20000 {
					lo = 2000
				}
				cs = append(cs, strconv.Itoa(r.Range(lo, lo+size/2+1)))
			}
		}
		ch := "-"
		if len(cs) > 0 {
			ch = strings.Join(cs, ",")
		}
		fault := "none"
		switch r.Weighted(10, 4, 4, 2, 1) {
		case 1:
			fault = fmt.Sprintf("wfail:%d", r.Intn(size+1))
		case 2:
			fault = fmt.Sprintf("cancel:%d", r.Intn(size+1))
		case 3:
			fault = "syncfail"
		case 4:
			fault = "closefail"
		}
		g.persist("persist", kinds[r.Intn(2)], size, prior, ch, fault)
	}
}

// ---------------------------------------------------------------- exec

var scn int

func (h) Exec(line string, out func(string, string), st *hlib.Stats, work string) {
	ws := strings.Split(line, " ")
	scn++
	dir := filepath.Join(work, "fs", strconv.Itoa(scn), "d")
	switch ws[0] {
	case "prog":
		out(line, "-")
		return
	case "case":
		out(line, "case")
		return
	case "persist", "remove", "tpersist":
		m := kvs(ws[1:])
		var res string
		if ws[0] == "tpersist" {
			res = traceOf(line, dir, work)
			if strings.HasPrefix(res, "harness-error:strace") {
				// no strace / no ptrace here: run the scenario untraced and say so; REQUIRED_BRANCHES
				// ("traced") then reports the run as inadequate instead of inventing a disagreement
				st.Count("strace-unavailable")
				line = "persist" + strings.TrimPrefix(line, "tpersist")
				ws[0] = "persist"
				res = runScenario("persist", m, dir)
			}
		} else {
			res = runScenario(ws[0], m, dir)
		}
		_ = os.RemoveAll(filepath.Dir(dir))
		// statistics
		key := ws[0]
		for _, w := range ws[1:] {
			if !strings.HasPrefix(w, "id=") {
				key += " " + w
			}
		}
		nontrivial := (m["prior"] != "absent") || (m["fault"] != "none" && m["fault"] != "") || (m["chunks"] != "-" && m["chunks"] != "")
		st.Case(key, nontrivial)
		st.Count("op:" + ws[0])
		st.Count("kind:" + m["kind"])
		if f := m["fault"]; f != "" {
			st.Count("fault:" + strings.Split(f, ":")[0])
		}
		if d, ok := parseSpec(m["data"]); ok {
			switch {
			case len(d) == 0:
				st.Count("size:0")
			case len(d) < 4096:
				st.Count("size:<4096")
			case len(d) <= 4097:
				st.Count("size:4096..4097")
			default:
				st.Count("size:>4097")
			}
		}
		st.Count("res:" + strings.Split(res, " ")[0])
		out(line, res)
	case "pid", "writers", "load", "tpid", "tload":
		m := kvs(ws[1:])
		var res string
		switch ws[0] {
		case "pid":
			res = runPid(m, dir, false)
		case "writers":
			res = runWriters(m, dir)
		case "load":
			res = runLoad(m, dir, false)
		default:
			res = traceOf(line, dir, work)
			if strings.HasPrefix(res, "harness-error:strace") {
				st.Count("strace-unavailable")
				line = strings.TrimPrefix(line, "t")
				if ws[0] == "tpid" {
					res = runPid(m, dir, false)
				} else {
					res = runLoad(m, dir, false)
				}
			}
		}
		_ = os.RemoveAll(filepath.Dir(dir))
		key := ws[0]
		for _, w := range ws[1:] {
			if !strings.HasPrefix(w, "id=") {
				key += " " + w
			}
		}
		st.Case(key, strings.Count(m["steps"], ",") >= 1)
		st.Count("op:" + ws[0])
		for _, r := range strings.Split(strings.Split(res, " ")[0], ",") {
			st.Count("step-res:" + strings.Split(strings.Split(r, "/")[0], ":")[0])
		}
		out(line, res)
	default:
		out(line, "bad-op")
	}
}

func main() {
	if len(os.Args) >= 4 && os.Args[1] == "child" {
		fmt.Println(runLine(os.Args[3], os.Args[2]))
		return
	}
	hlib.Main(h{})
}

// Correspondence / validation harness for C15: Writer and Reader are safe for concurrent use and
// Close terminates.
//
// For this property the tie is Gen (the extracted lock-set / channel tables, see go/extract/c15.go);
// this harness VALIDATES the tables: it runs mixed concurrent use of the real bluge code
//   - W goroutines doing batches (inserts, updates, deletes of their own ids),
//   - R goroutines acquiring Readers and running S parallel searches on ONE reader (term, scored
//     conjunction, conjunction/disjunction with SetScore("none") so that the unadorned optimised paths
//     run, phrase), stored-field loads, Count, Fields, DictionaryIterator,
//   - a goroutine reading MemoryUsed()/Stats() of the index.Writer (reached through Event.Chill),
//   - Close after the callers have returned, at a seeded moment while merges/persists are in flight,
//     bounded by a generous timeout with a goroutine dump on expiry,
//   - seeded schedule perturbation: GOMAXPROCS sweep, runtime.Gosched / short sleeps injected at the
//     Directory, segment-plugin and event-callback seams,
//   - re-open afterwards and check that every acknowledged batch is there,
//
// once in a plain child process and once in a child built with -race (mode=race). A
// `WARNING: DATA RACE` report or a Close timeout is printed as the implementation result and the
// Lean driver turns it into a `bad:` verdict; the seed + the stacks are the replay.
package main

import (
	"bytes"
	"context"
	"encoding/json"
	"fmt"
	"math"
	"os"
	"os/exec"
	"path/filepath"
	"regexp"
	"runtime"
	"sort"
	"strconv"
	"strings"
	"sync"
	"sync/atomic"
	"time"

	"github.com/RoaringBitmap/roaring"
	"github.com/blugelabs/bluge"
	"github.com/blugelabs/bluge/analysis/analyzer"
	"github.com/blugelabs/bluge/analysis/lang/en"
	"github.com/blugelabs/bluge/index"
	"github.com/blugelabs/bluge/index/mergeplan"
	"github.com/blugelabs/bluge/search"
	"github.com/blugelabs/bluge/search/aggregations"
	segment "github.com/blugelabs/bluge_segment_api"
	iceV1 "github.com/blugelabs/ice"
	iceV2 "github.com/blugelabs/ice/v2"

	"verif/harness/hlib"
)

type h struct{}

func (h) Rule() string {
	return "one case = one seeded concurrent scenario (shape: writers x batches x docs, reader goroutines x parallel searches per reader, GOMAXPROCS, fs|mem directory, safe|unsafe batches, ice v1|v2, yield percentage at the seams, stats reader on/off, searches across Close on/off, persister nap, in-memory merge threshold, close delay), executed in a child process, mode=plain or mode=race (-race build); non-trivial when at least 2 API goroutines ran concurrently with the background loops; distinct by shape line"
}

// ---------------------------------------------------------------------------------------------
// shapes

type shape struct {
	Kind       string // "run": the mixed scenario through the bluge API; "probe-recycle": backward Advance on index.Snapshot postings iterators
	Mode       string
	Seed       uint64
	W, B, D    int // writer goroutines, batches each, docs per batch
	R, S, Q    int // reader goroutines, parallel searches per reader, rounds per reader goroutine
	P          int // GOMAXPROCS
	Dir        string
	Unsafe     bool
	Ver        int
	Yield      int // percent of seam crossings that yield
	Stats      int // 0 none, 1 MemoryUsed only, 2 MemoryUsed + Stats()
	Across     bool
	Nap        int
	MinMerge   int
	CloseDelay int // microseconds between "callers returned" and Close
	Share      int // probe-shared-requests: 1 standard aggregations, 2 one SortOrder value, 4 aggregation definitions, 8 term query objects, 16 a boolean query object shared by the parallel requests
	SlowRoot   int // microseconds slept in the verifTrace "root" seam (inside replaceRoot, i.e. inside every introduction)
}

func (s shape) line() string {
	b := func(x bool) int {
		if x {
			return 1
		}
		return 0
	}
	kind := s.Kind
	if kind == "" {
		kind = "run"
	}
	return fmt.Sprintf(kind+" mode=%s seed=%d w=%d b=%d d=%d r=%d s=%d q=%d p=%d dir=%s unsafe=%d ver=%d yield=%d stats=%d across=%d nap=%d minmerge=%d closedelay=%d slowroot=%d share=%d",
		s.Mode, s.Seed, s.W, s.B, s.D, s.R, s.S, s.Q, s.P, s.Dir, b(s.Unsafe), s.Ver, s.Yield, s.Stats, b(s.Across), s.Nap, s.MinMerge, s.CloseDelay, s.SlowRoot, s.Share)
}

func parseShape(line string) (shape, error) {
	var s shape
	ws := strings.Fields(line)
	if len(ws) < 2 || (ws[0] != "run" && ws[0] != "probe-recycle" && ws[0] != "probe-persist-close" && ws[0] != "probe-pause-close" && ws[0] != "probe-shared-requests" && ws[0] != "probe-cold-start") {
		return s, fmt.Errorf("not a run line")
	}
	s.Kind = ws[0]
	for _, w := range ws[1:] {
		kv := strings.SplitN(w, "=", 2)
		if len(kv) != 2 {
			return s, fmt.Errorf("bad token %q", w)
		}
		n, _ := strconv.ParseUint(kv[1], 10, 64)
		switch kv[0] {
		case "mode":
			s.Mode = kv[1]
		case "seed":
			s.Seed = n
		case "w":
			s.W = int(n)
		case "b":
			s.B = int(n)
		case "d":
			s.D = int(n)
		case "r":
			s.R = int(n)
		case "s":
			s.S = int(n)
		case "q":
			s.Q = int(n)
		case "p":
			s.P = int(n)
		case "dir":
			s.Dir = kv[1]
		case "unsafe":
			s.Unsafe = n == 1
		case "ver":
			s.Ver = int(n)
		case "yield":
			s.Yield = int(n)
		case "stats":
			s.Stats = int(n)
		case "across":
			s.Across = n == 1
		case "nap":
			s.Nap = int(n)
		case "minmerge":
			s.MinMerge = int(n)
		case "closedelay":
			s.CloseDelay = int(n)
		case "slowroot":
			s.SlowRoot = int(n)
		case "share":
			s.Share = int(n)
		default:
			return s, fmt.Errorf("unknown key %q", kv[0])
		}
	}
	if s.Mode != "plain" && s.Mode != "race" {
		return s, fmt.Errorf("bad mode")
	}
	if s.W < 1 || s.W > 16 || s.B < 1 || s.D < 1 || s.P < 1 || (s.Dir != "fs" && s.Dir != "mem") || (s.Ver != 1 && s.Ver != 2) {
		return s, fmt.Errorf("bad shape")
	}
	return s, nil
}

func (h) Gen(r *hlib.Rand, tier string, scale int, emit func(string)) {
	nPlain, nRace := 10*scale, 12*scale
	if tier == "thorough" {
		nPlain, nRace = 120*scale, 160*scale
	}
	mk := func(mode string, k int) shape {
		s := shape{Mode: mode, Seed: r.U64() % 1000000007}
		s.W = r.Range(2, 8)
		s.B = r.Range(3, 7)
		s.D = r.Range(1, 4)
		s.R = r.Range(1, 3)
		s.S = r.Range(2, 4)
		s.Q = r.Range(2, 4)
		s.P = []int{1, 2, 3, 4, 8}[r.Intn(5)]
		s.Dir = "fs"
		if r.Chance(15) {
			s.Dir = "mem"
		}
		s.Unsafe = r.Chance(40)
		s.Ver = 1 + r.Intn(2)
		s.Yield = []int{0, 10, 30, 60}[r.Intn(4)]
		s.Stats = 1 // MemoryUsed (atomic loads + root snapshot)
		s.Across = r.Chance(50)
		s.Nap = []int{0, 0, 1, 3}[r.Intn(4)]
		s.MinMerge = []int{2, 2, 3, 100}[r.Intn(4)]
		s.CloseDelay = []int{0, 0, 50, 500, 3000}[r.Intn(5)]
		s.SlowRoot = []int{0, 0, 200, 2000}[r.Intn(4)]
		if s.SlowRoot > 0 && s.Unsafe {
			// aim Close at the introductions that follow the last batch
			s.CloseDelay = r.Intn(4 * s.SlowRoot)
		}
		if tier == "thorough" && r.Chance(30) {
			s.B = r.Range(6, 14)
		}
		// a fixed fraction of runs also calls index.Writer.Stats() concurrently (struct copy of the counters)
		if k%4 == 3 {
			s.Stats = 2
			s.Ver = 1 // keep the two known race classes (Stats copy, ice v2 stored-field buffer) in separate runs
		}
		return s
	}
	for k := 0; k < nPlain; k++ {
		emit(mk("plain", k).line())
	}
	// the recycling hand-off of postings iterators, driven directly through index.Snapshot: one goroutine
	// seeks backwards (postingsIterator.Advance re-initialises itself after handing itself to the
	// recycling list), the others allocate iterators of the same field from that list
	// Close arriving while the persister sits in the catch-up loop of pausePersisterForMergerCatchUp
	// (PersisterNapUnderNumFiles = 1, the merger held behind in its progress event)
	for k := 0; k < 1+nPlain/40; k++ {
		s := mk("plain", 0)
		s.Kind, s.Dir, s.Ver, s.Stats, s.P, s.Unsafe, s.Across = "probe-pause-close", "fs", 1, 0, 4, false, false
		emit(s.line())
	}
	// Close arriving while the introducer is inside introducePersist (gated through the verifTrace seam):
	// the persister leaves prepareIntroducePersist through its `<-closeCh` case and cleans up the map it
	// handed to the introducer
	for k := 0; k < 1+nRace/40; k++ {
		s := mk("race", 0)
		s.Kind, s.Dir, s.Ver, s.Stats, s.P, s.Unsafe = "probe-persist-close", "fs", 1, 0, 4, true
		emit(s.line())
	}
	for k := 0; k < 1+nRace/40; k++ {
		s := mk("race", 0)
		s.Kind, s.Dir, s.Ver, s.Stats, s.P = "probe-recycle", "mem", 1, 0, 4
		s.Across = false // control: the same workload without the backward seek
		emit(s.line())
		s.Across = true
		emit(s.line())
	}
	for k := 0; k < nRace; k++ {
		emit(mk("race", k).line())
	}
	// cold start: the FIRST use of every lazily usable feature of the search path is concurrent. The child
	// process is fresh (nothing warmed up); after one sequential batch, goroutines released by a barrier each
	// issue a different kind of query as their first search.
	for k := 0; k < 1+nRace/40; k++ {
		for _, mode := range []string{"race", "plain"} {
			s := mk(mode, 0)
			s.Kind, s.Dir, s.Ver, s.Stats, s.P, s.Across, s.Unsafe = "probe-cold-start", "mem", 1, 0, 8, false, false
			emit(s.line())
		}
	}
	// parallel searches whose requests share objects by construction: the package-level standard
	// aggregations, one SortOrder value, aggregation definitions, query objects. Oracle: every concurrent
	// result equals the solo result of the same request. share=15: everything but a shared boolean query;
	// share=17: the standard aggregations plus ONE BooleanQuery object used by all goroutines.
	for k := 0; k < 1+nRace/40; k++ {
		for _, mode := range []string{"plain", "race"} {
			for _, share := range []int{15, 17} {
				if share == 17 && mode == "race" && !findingListed("race-shared-query-lazy-scorer") {
					// four query types fill in q.scorer lazily in Searcher(): under -race this line reports that
					// (real) race every time. As with the other finding-reproducing lines of this repository it
					// is emitted once known_findings.json lists the finding (any status) or when
					// VERIF_C15_ALL_FINDINGS=1; the plain line with the same sharing always runs.
					continue
				}
				s := mk(mode, 0)
				s.Kind, s.Dir, s.Ver, s.Stats, s.P, s.Across, s.Share = "probe-shared-requests", "mem", 1, 0, 4, false, share
				emit(s.line())
			}
		}
	}
}

// ---------------------------------------------------------------------------------------------
// parent side: one child process per run line

var lineNo int

func raceExe() string {
	if p := os.Getenv("VERIF_C15_RACE_EXE"); p != "" {
		return p
	}
	self, err := os.Executable()
	if err != nil {
		return ""
	}
	base := filepath.Base(self)
	if strings.HasPrefix(base, "h_c15") && !strings.HasPrefix(base, "h_c15_race") {
		return filepath.Join(filepath.Dir(self), "h_c15_race"+strings.TrimPrefix(base, "h_c15"))
	}
	return ""
}

type lineResult struct {
	res    string
	cstats map[string]int
	dt     time.Duration
	races  bool
	done   chan struct{}
}

// The children of a script run PAR at a time: on the first Exec the whole script (path from our own
// command line) is handed to a worker pool; Exec then only waits for the result of its own line.
const PAR = 4

var (
	prefetch     map[string]*lineResult // key = "<lineNo>|<line>"
	prefetchOnce sync.Once
)

func startPrefetch(work string) {
	prefetch = map[string]*lineResult{}
	script := ""
	for i, a := range os.Args {
		if (a == "-script" || a == "--script") && i+1 < len(os.Args) {
			script = os.Args[i+1]
		} else if strings.HasPrefix(a, "-script=") {
			script = strings.TrimPrefix(a, "-script=")
		}
	}
	b, err := os.ReadFile(script)
	if script == "" || err != nil {
		return
	}
	type job struct {
		n    int
		line string
		r    *lineResult
	}
	var jobs []job
	n := 0
	for _, l := range strings.Split(string(b), "\n") {
		if l == "" {
			continue
		}
		n++
		r := &lineResult{done: make(chan struct{})}
		prefetch[fmt.Sprintf("%d|%s", n, l)] = r
		jobs = append(jobs, job{n, l, r})
	}
	ch := make(chan job)
	for k := 0; k < PAR; k++ {
		go func() {
			for j := range ch {
				runLine(j.line, j.n, work, j.r)
				close(j.r.done)
			}
		}()
	}
	go func() {
		for _, j := range jobs {
			ch <- j
		}
		close(ch)
	}()
}

func (h) Exec(line string, out func(string, string), st *hlib.Stats, work string) {
	lineNo++
	prefetchOnce.Do(func() { startPrefetch(work) })
	sh, err := parseShape(line)
	if err != nil {
		out(line, "bad-op")
		return
	}
	r := prefetch[fmt.Sprintf("%d|%s", lineNo, line)]
	if r == nil {
		r = &lineResult{done: make(chan struct{})}
		runLine(line, lineNo, work, r)
	} else {
		<-r.done
	}
	res, cstats, dt := r.res, r.cstats, r.dt
	if r.races {
		st.Count("res:race")
	}
	conc := cstats["api_goroutines"] >= 2
	st.Case(line, conc)
	st.Count("mode:" + sh.Mode)
	st.Count("dir:" + sh.Dir)
	st.Count(fmt.Sprintf("gomaxprocs:%d", sh.P))
	st.Count(fmt.Sprintf("writers:%d", sh.W))
	st.Count(fmt.Sprintf("segver:%d", sh.Ver))
	if sh.Unsafe {
		st.Count("unsafe-batch")
	}
	if sh.Across {
		st.Count("search-across-close")
	}
	if sh.Stats == 2 {
		st.Count("stats-copy")
	}
	st.Count("res:" + strings.Fields(res)[0])
	for k, v := range cstats {
		st.CountN("obs:"+k, v)
	}
	st.CountN("wall_ms:"+sh.Mode, int(dt.Milliseconds()))
	out(line, res)
}

func runLine(line string, lineNo int, work string, r *lineResult) {
	r.cstats = map[string]int{}
	sh, err := parseShape(line)
	if err != nil {
		r.res = "bad-op"
		return
	}
	exe, _ := os.Executable()
	limit := 120 * time.Second
	if sh.Mode == "race" {
		exe = raceExe()
		limit = 300 * time.Second
		if exe == "" {
			r.res = "no-race-binary"
			return
		}
		if _, err := os.Stat(exe); err != nil {
			r.res = "no-race-binary"
			return
		}
	}
	rdir := filepath.Join(work, "runs", fmt.Sprintf("%04d", lineNo))
	_ = os.RemoveAll(rdir)
	_ = os.MkdirAll(rdir, 0o755)
	logPrefix := filepath.Join(rdir, "race")
	ctx, cancel := context.WithTimeout(context.Background(), limit)
	defer cancel()
	cmd := exec.CommandContext(ctx, exe, "child", line, rdir)
	cmd.Env = append(os.Environ(), "GORACE=halt_on_error=0 exitcode=0 atexit_sleep_ms=0 history_size=3 log_path="+logPrefix)
	var so, se bytes.Buffer
	cmd.Stdout, cmd.Stderr = &so, &se
	t0 := time.Now()
	runErr := cmd.Run()
	r.dt = time.Since(t0)
	res, cstats := "", r.cstats
	for _, l := range strings.Split(so.String(), "\n") {
		if strings.HasPrefix(l, "RESULT ") {
			res = strings.TrimPrefix(l, "RESULT ")
		}
		if strings.HasPrefix(l, "STATS ") {
			_ = json.Unmarshal([]byte(strings.TrimPrefix(l, "STATS ")), &cstats)
		}
	}
	if res == "" {
		// the child died (fatal error such as "concurrent map iteration and map write", SIGSEGV, timeout)
		_ = os.WriteFile(filepath.Join(rdir, "stderr.txt"), se.Bytes(), 0o644)
		kind := "crash"
		if ctx.Err() != nil {
			kind = "child-timeout"
		}
		res = kind + " " + condenseCrash(se.String()) + " err=" + strings.ReplaceAll(fmt.Sprint(runErr), " ", "_") + " stderr=" + filepath.Join(rdir, "stderr.txt")
	}
	// race reports (files race.<pid>)
	var reports []string
	files, _ := filepath.Glob(logPrefix + ".*")
	sort.Strings(files)
	for _, f := range files {
		b, _ := os.ReadFile(f)
		reports = append(reports, splitReports(string(b))...)
	}
	reports = append(reports, splitReports(se.String())...)
	if len(reports) > 0 {
		sigs := map[string]bool{}
		for _, r := range reports {
			sigs[raceSignature(r)] = true
		}
		var ss []string
		for s := range sigs {
			ss = append(ss, s)
		}
		sort.Strings(ss)
		_ = os.WriteFile(filepath.Join(rdir, "race_reports.txt"), []byte(strings.Join(reports, "\n\n")), 0o644)
		if len(ss) > 24 {
			ss = append(ss[:24], "...")
		}
		res = fmt.Sprintf("race reports=%d pairs=%d %s [then: %s] offtable=%s file=%s", len(reports), len(sigs), strings.Join(ss, " ; "), res, offTable(reports), filepath.Join(rdir, "race_reports.txt"))
		r.races = true
	} else if strings.HasPrefix(res, "ok ") {
		_ = os.RemoveAll(rdir)
	}
	r.res = res
}

var reHex = regexp.MustCompile(`0x[0-9a-f]+`)

func splitReports(s string) []string {
	var out []string
	parts := strings.Split(s, "WARNING: DATA RACE")
	for _, p := range parts[1:] {
		if i := strings.Index(p, "=================="); i >= 0 {
			p = p[:i]
		}
		out = append(out, "WARNING: DATA RACE"+p)
	}
	return out
}

// raceSignature: for each of the two conflicting accesses the innermost frame that lies in
// github.com/blugelabs/... (bluge or its segment plugins; library and runtime frames below it are
// skipped), as "<read|write|atomic>:<func>", the two sorted.
func raceSignature(rep string) string {
	var tops []string
	lines := strings.Split(rep, "\n")
	for i := 0; i < len(lines); i++ {
		l := strings.TrimSpace(lines[i])
		isAcc := strings.HasPrefix(l, "Read at") || strings.HasPrefix(l, "Write at") || strings.HasPrefix(l, "Previous read at") ||
			strings.HasPrefix(l, "Previous write at") || strings.HasPrefix(l, "Atomic") || strings.HasPrefix(l, "Previous atomic")
		if !isAcc {
			continue
		}
		kind := strings.ToLower(strings.Fields(strings.TrimPrefix(l, "Previous "))[0])
		top, first := "", ""
		for j := i + 1; j < len(lines) && strings.TrimSpace(lines[j]) != ""; j += 2 {
			fn := strings.TrimSuffix(strings.TrimSpace(lines[j]), "()")
			if first == "" && !strings.HasPrefix(fn, "runtime.") && !strings.HasPrefix(fn, "sync/atomic.") {
				first = fn
			}
			if strings.HasPrefix(fn, "github.com/blugelabs/") {
				top = strings.TrimPrefix(strings.TrimPrefix(fn, "github.com/blugelabs/"), "bluge/")
				break
			}
		}
		if top == "" {
			top = first
		}
		tops = append(tops, kind+":"+top)
	}
	sort.Strings(tops)
	return strings.Join(tops, "<>")
}

var (
	sitesOnce sync.Once
	sites     map[string]bool
)

var reIndexFrame = regexp.MustCompile(`/index/([a-z_]+\.go):(\d+)`)

// offTable: access frames of the reports that lie in package index (…/index/<file>.go:<line>, innermost
// frame of an access) but are not a site of the extracted lock-set table (lean/BlugeGen/C15.sites.txt,
// path in VERIF_C15_SITES): accesses the table does not cover.
func offTable(reports []string) string {
	sitesOnce.Do(func() {
		if p := os.Getenv("VERIF_C15_SITES"); p != "" {
			if b, err := os.ReadFile(p); err == nil {
				sites = map[string]bool{}
				for _, l := range strings.Split(string(b), "\n") {
					if l != "" {
						sites[l] = true
					}
				}
			}
		}
	})
	if sites == nil {
		return "unknown"
	}
	miss := map[string]bool{}
	for _, rep := range reports {
		lines := strings.Split(rep, "\n")
		for i := 0; i < len(lines); i++ {
			l := strings.TrimSpace(lines[i])
			if !(strings.HasPrefix(l, "Read at") || strings.HasPrefix(l, "Write at") || strings.HasPrefix(l, "Previous read at") || strings.HasPrefix(l, "Previous write at")) {
				continue
			}
			// innermost non-runtime frame
			for j := i + 1; j+1 < len(lines) && strings.TrimSpace(lines[j]) != ""; j += 2 {
				fn := strings.TrimSpace(lines[j])
				if strings.HasPrefix(fn, "runtime.") || strings.HasPrefix(fn, "sync/atomic.") {
					continue
				}
				if strings.HasPrefix(fn, "github.com/blugelabs/bluge/index.") {
					if m := reIndexFrame.FindStringSubmatch(lines[j+1]); m != nil {
						if k := m[1] + ":" + m[2]; !sites[k] {
							miss[k] = true
						}
					}
				}
				break
			}
		}
	}
	if len(miss) == 0 {
		return "none"
	}
	var ks []string
	for k := range miss {
		ks = append(ks, k)
	}
	sort.Strings(ks)
	return strings.Join(ks, ",")
}

func condenseCrash(s string) string {
	s = reHex.ReplaceAllString(s, "0x")
	for _, l := range strings.Split(s, "\n") {
		if strings.HasPrefix(l, "fatal error:") || strings.HasPrefix(l, "panic:") || strings.Contains(l, "SIGSEGV") {
			if len(l) > 160 {
				l = l[:160]
			}
			return strings.ReplaceAll(l, " ", "_")
		}
	}
	return "no-message"
}

// ---------------------------------------------------------------------------------------------
// child side: the scenario on the real code

var vocab = []string{"alpha", "beta", "gamma", "delta", "eps", "zeta", "eta", "theta"}

// seams: seeded yield injection
type seams struct {
	seed uint64
	pct  int
	ctr  uint64
	hits uint64
}

func (s *seams) yield() {
	if s.pct == 0 {
		return
	}
	n := atomic.AddUint64(&s.ctr, 1)
	z := (n + s.seed) * 0x9E3779B97F4A7C15
	z = (z ^ (z >> 30)) * 0xBF58476D1CE4E5B9
	z ^= z >> 27
	if int(z%100) < s.pct {
		atomic.AddUint64(&s.hits, 1)
		switch (z >> 8) % 4 {
		case 0:
			time.Sleep(time.Duration(50+(z>>16)%400) * time.Microsecond)
		default:
			runtime.Gosched()
		}
	}
}

type yieldDir struct {
	index.Directory
	sm *seams
}

func (d *yieldDir) List(kind string) ([]uint64, error) { d.sm.yield(); return d.Directory.List(kind) }
func (d *yieldDir) Persist(kind string, id uint64, w index.WriterTo, closeCh chan struct{}) error {
	d.sm.yield()
	err := d.Directory.Persist(kind, id, w, closeCh)
	d.sm.yield()
	return err
}
func (d *yieldDir) Remove(kind string, id uint64) error {
	d.sm.yield()
	return d.Directory.Remove(kind, id)
}
func (d *yieldDir) Stats() (uint64, uint64) { d.sm.yield(); return d.Directory.Stats() }

type result struct {
	text  string
	stats map[string]int
}

func childMain(line, rdir string) {
	sh, err := parseShape(line)
	if err != nil {
		fmt.Println("RESULT bad-op")
		return
	}
	runtime.GOMAXPROCS(sh.P)
	var res result
	if sh.Kind == "probe-recycle" {
		res = probeRecycle(sh, rdir)
	} else if sh.Kind == "probe-persist-close" {
		res = probePersistClose(sh, rdir)
	} else if sh.Kind == "probe-pause-close" {
		res = probePauseClose(sh, rdir)
	} else if sh.Kind == "probe-shared-requests" {
		res = probeSharedRequests(sh, rdir)
	} else if sh.Kind == "probe-cold-start" {
		res = probeColdStart(sh, rdir)
	} else {
		res = scenario(sh, rdir)
	}
	js, _ := json.Marshal(res.stats)
	fmt.Println("STATS " + string(js))
	fmt.Println("RESULT " + res.text)
}

type writerLog struct {
	// per writer goroutine: the batches in order, and which were acknowledged
	ops   [][]op // ops[k] = operations of batch k
	acked []bool // acked[k]: Batch returned nil (safe) / persisted callback got nil (unsafe)
	sent  []bool // Batch returned nil (applied)
}
type op struct {
	del bool
	id  string
	ver int
}

func scenario(sh shape, rdir string) result {
	stats := map[string]int{}
	rnd := hlib.NewRand(sh.Seed)
	sm := &seams{seed: sh.Seed, pct: sh.Yield}
	path := filepath.Join(rdir, "idx")
	var cfg bluge.Config
	var memDir *index.InMemoryDirectory
	if sh.Dir == "fs" {
		cfg = bluge.DefaultConfig(path)
	} else {
		memDir = index.NewInMemoryDirectory()
		cfg = bluge.InMemoryOnlyConfig()
	}
	ic := cfg.VerifIndexConfig()
	innerDirFunc := ic.DirectoryFunc
	ic.DirectoryFunc = func() index.Directory {
		if memDir != nil {
			return &yieldDir{Directory: memDir, sm: sm}
		}
		return &yieldDir{Directory: innerDirFunc(), sm: sm}
	}
	if sh.SlowRoot > 0 {
		index.SetVerifTrace(func(w *index.Writer, kind string, snap *index.Snapshot, x uint64) {
			if kind == "root" {
				time.Sleep(time.Duration(sh.SlowRoot) * time.Microsecond)
			}
		})
	}
	var chill atomic.Value // *index.Writer
	var evCount [16]uint64
	ic.EventCallback = func(e index.Event) {
		if e.Kind >= 0 && e.Kind < len(evCount) {
			atomic.AddUint64(&evCount[e.Kind], 1)
		}
		if chill.Load() == nil && e.Chill != nil {
			chill.Store(e.Chill)
		}
		sm.yield()
	}
	var asyncErrs uint64
	ic.AsyncError = func(err error) { atomic.AddUint64(&asyncErrs, 1) }
	ic.UnsafeBatch = sh.Unsafe
	ic.PersisterNapTimeMSec = sh.Nap
	ic.MinSegmentsForInMemoryMerge = sh.MinMerge
	ic.MergePlanOptions = mergeplan.Options{
		MaxSegmentsPerTier: 2, MaxSegmentSize: 5000000, TierGrowth: 2.0, SegmentsPerMergeTask: 2,
		FloorSegmentSize: 1, ReclaimDeletesWeight: 2.0,
	}
	// the segment plugin seam: same type/version, wrapped New/Load/Merge
	ic = ic.WithSegmentVersion(uint32(sh.Ver))
	cfg = cfg.VerifWithIndexConfig(ic)
	wrapPlugin(&cfg, sh.Ver, sm)

	w, err := bluge.OpenWriter(cfg)
	if err != nil {
		return result{"open-error " + strings.ReplaceAll(err.Error(), " ", "_"), stats}
	}

	logs := make([]*writerLog, sh.W)
	var wgWriters, wgReaders, wgStats sync.WaitGroup
	var stopReaders, stopStats, closing int32
	var apiPanics uint64
	var firstPanic atomic.Value
	guard := func(f func()) {
		defer func() {
			if e := recover(); e != nil {
				atomic.AddUint64(&apiPanics, 1)
				if firstPanic.Load() == nil {
					buf := make([]byte, 4096)
					n := runtime.Stack(buf, false)
					firstPanic.Store(fmt.Sprint(e) + " :: " + string(buf[:n]))
				}
			}
		}()
		f()
	}
	// ---- writers
	for g := 0; g < sh.W; g++ {
		g := g
		lg := &writerLog{ops: make([][]op, sh.B), acked: make([]bool, sh.B), sent: make([]bool, sh.B)}
		logs[g] = lg
		r := hlib.NewRand(sh.Seed*131 + uint64(g))
		wgWriters.Add(1)
		go guard(func() {
			defer wgWriters.Done()
			live := []string{}
			next := 0
			for k := 0; k < sh.B; k++ {
				b := bluge.NewBatch()
				var ops []op
				named := map[string]bool{} // a batch never names an id twice (that is C01's known finding, not ours)
				for j := 0; j < sh.D; j++ {
					var cand []int
					for i, id := range live {
						if !named[id] {
							cand = append(cand, i)
						}
					}
					switch {
					case len(cand) > 0 && r.Chance(15):
						i := cand[r.Intn(len(cand))]
						id := live[i]
						named[id] = true
						live = append(live[:i], live[i+1:]...)
						b.Delete(bluge.Identifier(id))
						ops = append(ops, op{del: true, id: id})
					case len(cand) > 0 && r.Chance(20):
						id := live[cand[r.Intn(len(cand))]]
						named[id] = true
						b.Update(bluge.Identifier(id), mkDoc(id, k*100+j, r))
						ops = append(ops, op{id: id, ver: k*100 + j})
					default:
						id := fmt.Sprintf("w%d-%d", g, next)
						next++
						named[id] = true
						live = append(live, id)
						// Update (not Insert) so that a batch is idempotent on its own ids
						b.Update(bluge.Identifier(id), mkDoc(id, k*100+j, r))
						ops = append(ops, op{id: id, ver: k*100 + j})
					}
				}
				lg.ops[k] = ops
				k := k
				var cbMu sync.Mutex
				if sh.Unsafe {
					b.SetPersistedCallback(func(err error) {
						cbMu.Lock()
						if err == nil {
							lg.acked[k] = true
						}
						cbMu.Unlock()
					})
				}
				err := w.Batch(b)
				if err == nil {
					lg.sent[k] = true
					if !sh.Unsafe {
						lg.acked[k] = true
					}
				}
				if r.Chance(sh.Yield) {
					runtime.Gosched()
				}
			}
		})
	}
	// ---- readers
	var searches, hitsSeen, storedLoads, readersOpened uint64
	var heldMu sync.Mutex
	var held []*bluge.Reader
	for g := 0; g < sh.R; g++ {
		r := hlib.NewRand(sh.Seed*733 + uint64(g))
		wgReaders.Add(1)
		go guard(func() {
			defer wgReaders.Done()
			for round := 0; round < sh.Q || atomic.LoadInt32(&stopReaders) == 0; round++ {
				if atomic.LoadInt32(&stopReaders) != 0 && round >= sh.Q {
					break
				}
				if atomic.LoadInt32(&closing) != 0 {
					break
				}
				rd, err := w.Reader()
				if err != nil || rd == nil {
					break
				}
				atomic.AddUint64(&readersOpened, 1)
				var wgS sync.WaitGroup
				for s := 0; s < sh.S; s++ {
					qs := r.U64()
					wgS.Add(1)
					go guard(func() {
						defer wgS.Done()
						n, st := searchOnce(rd, qs)
						atomic.AddUint64(&searches, 1)
						atomic.AddUint64(&hitsSeen, uint64(n))
						atomic.AddUint64(&storedLoads, uint64(st))
					})
				}
				wgS.Wait()
				if sh.Across && r.Chance(50) {
					heldMu.Lock()
					if len(held) < 4 {
						held = append(held, rd)
						rd = nil
					}
					heldMu.Unlock()
				}
				if rd != nil {
					_ = rd.Close()
				}
				if round > 200 {
					break
				}
			}
		})
	}
	// ---- stats reader (index.Writer reached through Event.Chill)
	var memUsedCalls, statsCalls uint64
	if sh.Stats > 0 {
		wgStats.Add(1)
		go guard(func() {
			defer wgStats.Done()
			for atomic.LoadInt32(&stopStats) == 0 {
				if c, ok := chill.Load().(*index.Writer); ok && c != nil {
					_ = c.MemoryUsed()
					atomic.AddUint64(&memUsedCalls, 1)
					if sh.Stats == 2 {
						st := c.Stats()
						_ = st.TotBatches
						atomic.AddUint64(&statsCalls, 1)
					}
				}
				runtime.Gosched()
				time.Sleep(100 * time.Microsecond)
			}
		})
	}

	wgWriters.Wait()
	atomic.StoreInt32(&stopReaders, 1)
	atomic.StoreInt32(&closing, 1)
	// Writer API callers must have returned before Close: wait for the acquisitions and the stats reader
	atomic.StoreInt32(&stopStats, 1)
	wgStats.Wait()
	wgReaders.Wait()

	// searches that continue across Close on readers acquired before
	var wgAcross sync.WaitGroup
	var acrossSearches uint64
	heldMu.Lock()
	hr := held
	heldMu.Unlock()
	for i, rd := range hr {
		rd := rd
		qs := rnd.U64() + uint64(i)
		wgAcross.Add(1)
		go guard(func() {
			defer wgAcross.Done()
			for k := 0; k < 6; k++ {
				searchOnce(rd, qs+uint64(k))
				atomic.AddUint64(&acrossSearches, 1)
			}
			_ = rd.Close()
		})
	}
	if sh.CloseDelay > 0 {
		time.Sleep(time.Duration(sh.CloseDelay) * time.Microsecond)
	}

	// what the background loops are doing at the moment of Close
	busyAtClose := 0
	if c, ok := chill.Load().(*index.Writer); ok && c != nil {
		st := c.MemoryUsed() // harmless API call; returns before Close
		_ = st
	}
	evBefore := atomic.LoadUint64(&evCount[index.EventKindPersisterProgress]) + atomic.LoadUint64(&evCount[index.EventKindMergerProgress])

	// ---- Close, bounded
	closeLimit := 30 * time.Second
	if sh.Mode == "race" {
		closeLimit = 90 * time.Second
	}
	done := make(chan error, 1)
	t0 := time.Now()
	go func() { done <- w.Close() }()
	var closeErr error
	select {
	case closeErr = <-done:
	case <-time.After(closeLimit):
		buf := make([]byte, 1<<20)
		n := runtime.Stack(buf, true)
		_ = os.WriteFile(filepath.Join(rdir, "close_timeout_goroutines.txt"), buf[:n], 0o644)
		return result{"close-timeout " + stuckSummary(string(buf[:n])) + " dump=" + filepath.Join(rdir, "close_timeout_goroutines.txt"), stats}
	}
	closeMs := time.Since(t0).Milliseconds()
	wgAcross.Wait()
	evAfter := atomic.LoadUint64(&evCount[index.EventKindPersisterProgress]) + atomic.LoadUint64(&evCount[index.EventKindMergerProgress])
	if evAfter > evBefore {
		busyAtClose = 1
	}
	stats["api_goroutines"] = sh.W + sh.R
	stats["searches"] = int(searches)
	stats["across_searches"] = int(acrossSearches)
	stats["hits"] = int(hitsSeen)
	stats["stored_loads"] = int(storedLoads)
	stats["readers"] = int(readersOpened)
	stats["memused_calls"] = int(memUsedCalls)
	stats["stats_calls"] = int(statsCalls)
	stats["yields"] = int(atomic.LoadUint64(&sm.hits))
	stats["persist_rounds"] = int(atomic.LoadUint64(&evCount[index.EventKindPersisterProgress]))
	stats["merge_rounds"] = int(atomic.LoadUint64(&evCount[index.EventKindMergerProgress]))
	stats["merge_tasks"] = int(atomic.LoadUint64(&evCount[index.EventKindMergeTaskIntroduction]))
	stats["loops_progressed_during_close"] = busyAtClose
	stats["async_errors"] = int(atomic.LoadUint64(&asyncErrs))
	stats["close_ms"] = int(closeMs)
	if p := atomic.LoadUint64(&apiPanics); p > 0 {
		msg, _ := firstPanic.Load().(string)
		_ = os.WriteFile(filepath.Join(rdir, "panic.txt"), []byte(msg), 0o644)
		if len(msg) > 200 {
			msg = msg[:200]
		}
		return result{"panic " + strings.ReplaceAll(strings.ReplaceAll(msg, "\n", "|"), " ", "_"), stats}
	}
	if closeErr != nil {
		return result{"close-error " + strings.ReplaceAll(closeErr.Error(), " ", "_"), stats}
	}
	nAcked, nBatches := 0, 0
	for _, lg := range logs {
		for k := range lg.ops {
			nBatches++
			if lg.acked[k] {
				nAcked++
			}
		}
	}
	stats["batches"] = nBatches
	stats["acked"] = nAcked
	if sh.Dir == "mem" {
		return result{"ok closed mem-noreopen", stats}
	}
	// ---- re-open and compare with the acknowledged history
	rcfg := bluge.DefaultConfig(path)
	rd, err := bluge.OpenReader(rcfg)
	if err != nil {
		if nAcked == 0 {
			return result{"ok closed reopened acked_present", stats} // nothing was acknowledged, nothing need exist
		}
		return result{"reopen-error " + strings.ReplaceAll(err.Error(), " ", "_"), stats}
	}
	defer rd.Close()
	present, err := loadAll(rd)
	if err != nil {
		return result{"reopen-read-error " + strings.ReplaceAll(err.Error(), " ", "_"), stats}
	}
	for g, lg := range logs {
		// batches of one goroutine are sequential: the recovered state must be the state after some
		// prefix of its batches that includes every acknowledged one
		lastAck := 0
		for k := range lg.ops {
			if lg.acked[k] {
				lastAck = k + 1
			}
		}
		okPrefix := -1
		for L := lastAck; L <= len(lg.ops); L++ {
			want := map[string]int{}
			for k := 0; k < L; k++ {
				for _, o := range lg.ops[k] {
					if o.del {
						delete(want, o.id)
					} else {
						want[o.id] = o.ver
					}
				}
			}
			if sameState(want, present, fmt.Sprintf("w%d-", g)) {
				okPrefix = L
				break
			}
		}
		if okPrefix < 0 {
			return result{fmt.Sprintf("lost writer=%d acked_prefix=%d of=%d", g, lastAck, len(lg.ops)), stats}
		}
	}
	return result{"ok closed reopened acked_present", stats}
}

// probeRecycle: index.Snapshot.PostingsIterator / Advance / Close from several goroutines on ONE current
// snapshot. Goroutine 0 performs backward seeks; the others allocate and release iterators of the same
// field. Every goroutine only ever touches iterators it obtained itself.
func probeRecycle(sh shape, rdir string) result {
	stats := map[string]int{}
	cfg := bluge.InMemoryOnlyConfig()
	ic := cfg.VerifIndexConfig()
	iw, err := index.OpenWriter(ic)
	if err != nil {
		return result{"open-error", stats}
	}
	r := hlib.NewRand(sh.Seed)
	b := index.NewBatch()
	for k := 0; k < 300; k++ {
		id := fmt.Sprintf("d%d", k)
		b.Update(bluge.Identifier(id), mkDoc(id, k, r))
	}
	if err := iw.Batch(b); err != nil {
		return result{"batch-error", stats}
	}
	// recycling only happens on the CURRENT root: wait until persister and merger have settled (the root
	// epoch unchanged over 8 looks, 50 ms apart), then check that an iterator really comes back from the list
	var snap *index.Snapshot
	stable, last := 0, uint64(0)
	for tries := 0; tries < 400 && stable < 8; tries++ {
		time.Sleep(50 * time.Millisecond)
		c, _ := iw.Reader()
		if c == nil {
			continue
		}
		if e := c.VerifEpoch(); e == last {
			stable++
		} else {
			stable, last = 0, e
		}
		_ = c.Close()
	}
	snap, _ = iw.Reader()
	if snap == nil {
		return result{"reader-error", stats}
	}
	it1, err1 := snap.PostingsIterator([]byte(vocab[0]), "body", true, true, true)
	if err1 != nil {
		return result{"probe-inadequate postings-iterator-error", stats}
	}
	_ = it1.Close()
	it2, _ := snap.PostingsIterator([]byte(vocab[0]), "body", true, true, true)
	if it2 != it1 {
		return result{"probe-inadequate iterator-not-recycled (the snapshot is not the current root)", stats}
	}
	_ = it2.Close()
	var wg sync.WaitGroup
	var backward, allocs, shared uint64
	var panics uint64
	var g0cur atomic.Value // the iterator goroutine 0 is using right now (after its backward seek)
	for g := 0; g < 4; g++ {
		g := g
		wg.Add(1)
		go func() {
			defer wg.Done()
			defer func() {
				if e := recover(); e != nil {
					atomic.AddUint64(&panics, 1)
				}
			}()
			for round := 0; round < 300; round++ {
				term := vocab[(round+g)%len(vocab)]
				it, err := snap.PostingsIterator([]byte(term), "body", true, true, true)
				if err != nil {
					return
				}
				atomic.AddUint64(&allocs, 1)
				if g != 0 {
					// double ownership, observed directly: we were handed the very iterator goroutine 0 is using
					if cur, ok := g0cur.Load().(*segment.PostingsIterator); ok && cur != nil && *cur == it {
						atomic.AddUint64(&shared, 1)
					}
				}
				first, _ := it.Next()
				for k := 0; k < 5; k++ {
					if p, _ := it.Next(); p == nil {
						break
					}
				}
				if g == 0 && first != nil && sh.Across {
					// seek backwards: the implementation restarts from the beginning
					if _, err := it.Advance(first.Number()); err == nil {
						atomic.AddUint64(&backward, 1)
					}
					held := it
					g0cur.Store(&held)
					for k := 0; k < 5; k++ {
						if p, _ := it.Next(); p == nil {
							break
						}
						runtime.Gosched()
					}
					g0cur.Store((*segment.PostingsIterator)(nil))
				}
				_ = it.Close()
			}
		}()
	}
	wg.Wait()
	_ = snap.Close()
	done := make(chan error, 1)
	go func() { done <- iw.Close() }()
	select {
	case <-done:
	case <-time.After(60 * time.Second):
		return result{"close-timeout probe", stats}
	}
	stats["api_goroutines"] = 4
	stats["probe_backward_seeks"] = int(backward)
	stats["probe_iterators"] = int(allocs)
	stats["probe_iterator_shared_with_user"] = int(shared)
	if panics > 0 {
		return result{"panic probe-recycle", stats}
	}
	return result{"ok closed mem-noreopen", stats}
}

// probePersistClose: one unsafe batch; the first introducePersist is held inside replaceRoot (verifTrace
// "root" seam) until Close has closed closeCh; then everything is released. All API callers have returned
// before Close is called.
func probePersistClose(sh shape, rdir string) result {
	stats := map[string]int{}
	path := filepath.Join(rdir, "idx")
	cfg := bluge.DefaultConfig(path)
	ic := cfg.VerifIndexConfig()
	ic.UnsafeBatch = true
	ic.MinSegmentsForInMemoryMerge = 100
	// The gate must not synchronise with the test (that would itself order the accesses): the seam only
	// SLEEPS inside the first introducePersist, and Close is called at a fixed time that falls into that sleep.
	var gated int32
	index.SetVerifTrace(func(w *index.Writer, kind string, snap *index.Snapshot, x uint64) {
		if kind == "root" && snap != nil && snap.VerifCreator() == "introducePersist" {
			if atomic.AddInt32(&gated, 1) == 1 {
				time.Sleep(1500 * time.Millisecond)
			}
		}
	})
	defer index.SetVerifTrace(nil)
	iw, err := index.OpenWriter(ic)
	if err != nil {
		return result{"open-error", stats}
	}
	r := hlib.NewRand(sh.Seed)
	b := index.NewBatch()
	for k := 0; k < 20; k++ {
		id := fmt.Sprintf("d%d", k)
		b.Update(bluge.Identifier(id), mkDoc(id, k, r))
	}
	if err := iw.Batch(b); err != nil { // unsafe batch: returns once applied
		return result{"batch-error", stats}
	}
	time.Sleep(700 * time.Millisecond) // the segment file is written and the persist handed over well within this
	done := make(chan error, 1)
	t0 := time.Now()
	go func() { done <- iw.Close() }()
	select {
	case <-done:
	case <-time.After(60 * time.Second):
		buf := make([]byte, 1<<20)
		n := runtime.Stack(buf, true)
		_ = os.WriteFile(filepath.Join(rdir, "close_timeout_goroutines.txt"), buf[:n], 0o644)
		return result{"close-timeout " + stuckSummary(string(buf[:n])), stats}
	}
	stats["probe_close_ms"] = int(time.Since(t0).Milliseconds())
	stats["api_goroutines"] = 2
	stats["probe_gated"] = int(atomic.LoadInt32(&gated))
	return result{"ok closed reopened acked_present", stats}
}

// probePauseClose: Close while the persister waits for the merger inside the `for` of
// pausePersisterForMergerCatchUp. PersisterNapUnderNumFiles = 1 makes every pause after the first persisted
// segment enter that loop until the merger has reported an epoch >= the last persisted one; the merger is
// held in its EventKindMergerProgress callback (before it re-registers with the persister). The caller's
// Batch has returned before Close. The `<-closeCh` case of that loop must leave the loop.
func probePauseClose(sh shape, rdir string) result {
	stats := map[string]int{}
	path := filepath.Join(rdir, "idx")
	cfg := bluge.DefaultConfig(path)
	ic := cfg.VerifIndexConfig()
	ic.PersisterNapUnderNumFiles = 1
	ic.PersisterNapTimeMSec = 0
	var held int32
	release := make(chan struct{})
	ic.EventCallback = func(e index.Event) {
		if e.Kind == index.EventKindMergerProgress && atomic.AddInt32(&held, 1) == 1 {
			select {
			case <-release:
			case <-time.After(15 * time.Second):
			}
		}
	}
	// the catch-up loop asks the directory for its file count once per iteration: count those calls
	var dirStats uint64
	innerDir := ic.DirectoryFunc
	ic.DirectoryFunc = func() index.Directory { return &countDir{Directory: innerDir(), n: &dirStats} }
	iw, err := index.OpenWriter(ic)
	if err != nil {
		return result{"open-error", stats}
	}
	r := hlib.NewRand(sh.Seed)
	b := index.NewBatch()
	for k := 0; k < 10; k++ {
		id := fmt.Sprintf("d%d", k)
		b.Update(bluge.Identifier(id), mkDoc(id, k, r))
	}
	if err := iw.Batch(b); err != nil { // safe batch: returns once persisted
		return result{"batch-error", stats}
	}
	// wait until the persister is inside the catch-up loop: more pauses entered than resumed
	inPause := false
	for tries := 0; tries < 200 && !inPause; tries++ {
		time.Sleep(10 * time.Millisecond)
		st := iw.Stats()
		inPause = atomic.LoadInt32(&held) >= 1 && st.TotPersisterSlowMergerPause > st.TotPersisterSlowMergerResume
	}
	if !inPause {
		close(release)
		_ = iw.Close()
		return result{"probe-inadequate persister-not-in-catch-up-loop", stats}
	}
	done := make(chan error, 1)
	t0 := time.Now()
	go func() { done <- iw.Close() }()
	// closeCh is closed now and the merger is still held, so nothing can satisfy the loop's own exit
	// condition: the persister must leave the loop through the `<-closeCh` case. If it does, the directory
	// is asked for its file count a few more times at most; if the case does not leave the loop the
	// persister spins through select and Stats() for as long as the merger stays away.
	time.Sleep(150 * time.Millisecond)
	c0 := atomic.LoadUint64(&dirStats)
	time.Sleep(150 * time.Millisecond)
	spins := int(atomic.LoadUint64(&dirStats) - c0)
	stats["probe_pause_dirstats_after_close"] = spins
	// the merger is let go (it then leaves through its own close cases; whether it first hands the
	// persister a new watcher — which would end a spinning loop by luck — is a coin toss of its select)
	close(release)
	select {
	case <-done:
	case <-time.After(20 * time.Second):
		buf := make([]byte, 1<<20)
		n := runtime.Stack(buf, true)
		_ = os.WriteFile(filepath.Join(rdir, "close_timeout_goroutines.txt"), buf[:n], 0o644)
		return result{fmt.Sprintf("close-timeout spins_after_close=%d ", spins) + stuckSummary(string(buf[:n])) + " dump=" + filepath.Join(rdir, "close_timeout_goroutines.txt"), stats}
	}
	if spins > 20 {
		return result{fmt.Sprintf("close-spin the persister stayed in the catch-up loop of pausePersisterForMergerCatchUp after closeCh was closed: %d loop iterations in 150ms; Close returned only because the merger happened to hand over a new watcher", spins), stats}
	}
	stats["api_goroutines"] = 2
	stats["probe_pause_close_ms"] = int(time.Since(t0).Milliseconds())
	stats["probe_pause_reached"] = 1
	rd, err := bluge.OpenReader(bluge.DefaultConfig(path))
	if err != nil {
		return result{"reopen-error " + strings.ReplaceAll(err.Error(), " ", "_"), stats}
	}
	defer rd.Close()
	if n, _ := rd.Count(); n != 10 {
		return result{fmt.Sprintf("lost writer=0 acked_docs=10 found=%d", n), stats}
	}
	return result{"ok closed reopened acked_present", stats}
}

// probeColdStart: see Gen. Every goroutine's first search is a different query kind; each result must be
// error-free and equal to what the same query returns afterwards, when everything has been used before.
func probeColdStart(sh shape, rdir string) result {
	stats := map[string]int{}
	w, err := bluge.OpenWriter(bluge.InMemoryOnlyConfig())
	if err != nil {
		return result{"open-error", stats}
	}
	defer w.Close()
	r := hlib.NewRand(sh.Seed)
	b := bluge.NewBatch()
	t0 := time.Date(2020, 1, 1, 0, 0, 0, 0, time.UTC)
	for i := 0; i < 400; i++ {
		id := fmt.Sprintf("d%04d", i)
		b.Insert(bluge.NewDocument(id).
			AddField(bluge.NewTextField("body", "common words here "+vocab[r.Intn(len(vocab))]+" "+vocab[i%len(vocab)]).SearchTermPositions()).
			AddField(bluge.NewKeywordField("tag", vocab[i%5])).
			AddField(bluge.NewNumericField("n", float64(i%17))).
			AddField(bluge.NewDateTimeField("when", t0.Add(time.Duration(i)*time.Hour))).
			AddField(bluge.NewGeoPointField("loc", float64(i%40)-20, float64(i%30)-15)))
	}
	if err := w.Batch(b); err != nil {
		return result{"batch-error", stats}
	}
	rd, err := w.Reader()
	if err != nil {
		return result{"reader-error", stats}
	}
	defer rd.Close()
	type kind struct {
		name string
		mk   func() bluge.Query
	}
	kinds := []kind{
		{"fuzzy1", func() bluge.Query { return bluge.NewFuzzyQuery("alpho").SetField("body").SetFuzziness(1) }},
		{"fuzzy2", func() bluge.Query { return bluge.NewFuzzyQuery("gamnna").SetField("body").SetFuzziness(2) }},
		{"match-fuzzy1", func() bluge.Query { return bluge.NewMatchQuery("betta").SetField("body").SetFuzziness(1) }},
		{"regexp", func() bluge.Query { return bluge.NewRegexpQuery("al.*a").SetField("body") }},
		{"wildcard", func() bluge.Query { return bluge.NewWildcardQuery("de?t*").SetField("body") }},
		{"prefix", func() bluge.Query { return bluge.NewPrefixQuery("ga").SetField("body") }},
		{"geo-distance", func() bluge.Query { return bluge.NewGeoDistanceQuery(0, 0, "1500km").SetField("loc") }},
		{"geo-box", func() bluge.Query { return bluge.NewGeoBoundingBoxQuery(-10, 10, 10, -10).SetField("loc") }},
		{"numeric-range", func() bluge.Query { return bluge.NewNumericRangeQuery(3, 9).SetField("n") }},
		{"date-range", func() bluge.Query {
			return bluge.NewDateRangeQuery(t0.Add(24*time.Hour), t0.Add(96*time.Hour)).SetField("when")
		}},
		{"term-range", func() bluge.Query { return bluge.NewTermRangeQuery("b", "e").SetField("tag") }},
		{"phrase", func() bluge.Query { return bluge.NewMatchPhraseQuery("common words").SetField("body") }},
		{"match-standard", func() bluge.Query { return bluge.NewMatchQuery("Common HERE").SetField("body") }},
		{"match-simple", func() bluge.Query {
			return bluge.NewMatchQuery("Common").SetField("body").SetAnalyzer(analyzer.NewSimpleAnalyzer())
		}},
		{"match-web", func() bluge.Query {
			return bluge.NewMatchQuery("words").SetField("body").SetAnalyzer(analyzer.NewWebAnalyzer())
		}},
		{"match-en", func() bluge.Query { return bluge.NewMatchQuery("common").SetField("body").SetAnalyzer(en.NewAnalyzer()) }},
		{"match-keyword", func() bluge.Query {
			return bluge.NewMatchQuery("alpha").SetField("tag").SetAnalyzer(analyzer.NewKeywordAnalyzer())
		}},
		{"boolean", func() bluge.Query {
			return bluge.NewBooleanQuery().AddMust(bluge.NewTermQuery("common").SetField("body")).AddMustNot(bluge.NewTermQuery("alpha").SetField("body"))
		}},
	}
	run := func(q bluge.Query) string {
		it, err := rd.Search(context.Background(), bluge.NewTopNSearch(5, q).WithStandardAggregations())
		if err != nil {
			return "err:" + strings.ReplaceAll(err.Error(), " ", "_")
		}
		var sb strings.Builder
		for {
			m, err := it.Next()
			if err != nil {
				return "err:" + strings.ReplaceAll(err.Error(), " ", "_")
			}
			if m == nil {
				break
			}
			fmt.Fprintf(&sb, "%d:%016x,", m.Number, math.Float64bits(m.Score))
		}
		fmt.Fprintf(&sb, " count=%d", it.Aggregations().Count())
		return sb.String()
	}
	start := make(chan struct{})
	first := make([]string, len(kinds))
	var wg sync.WaitGroup
	var panics uint64
	for i := range kinds {
		i := i
		wg.Add(1)
		go func() {
			defer wg.Done()
			defer func() {
				if e := recover(); e != nil {
					atomic.AddUint64(&panics, 1)
					first[i] = fmt.Sprintf("panic:%v", e)
				}
			}()
			<-start
			first[i] = run(kinds[i].mk())
			for k := 0; k < 2; k++ {
				_ = run(kinds[(i+k+1)%len(kinds)].mk())
			}
		}()
	}
	close(start)
	wg.Wait()
	stats["api_goroutines"] = len(kinds)
	stats["cold_start_first_uses"] = len(kinds)
	empty := 0
	for i, k := range kinds {
		warm := run(k.mk())
		if first[i] != warm || strings.HasPrefix(warm, "err:") {
			return result{fmt.Sprintf("concurrent-differs-from-solo cold-start kind=%s first=[%s] warm=[%s]", k.name, first[i], warm), stats}
		}
		if strings.HasSuffix(warm, " count=0") {
			empty++
			stats["cold_start_empty:"+k.name] = 1
		}
	}
	stats["cold_start_empty_results"] = empty
	if empty > 0 {
		return result{fmt.Sprintf("probe-inadequate %d query kinds matched nothing", empty), stats}
	}
	return result{"ok closed mem-noreopen", stats}
}

// findingListed: does /verif/known_findings.json (next to the bin directory of this executable) have an
// entry for property C15 with this signature?
func findingListed(sig string) bool {
	if os.Getenv("VERIF_C15_ALL_FINDINGS") == "1" {
		return true
	}
	self, err := os.Executable()
	if err != nil {
		return false
	}
	b, err := os.ReadFile(filepath.Join(filepath.Dir(filepath.Dir(self)), "known_findings.json"))
	if err != nil {
		return false
	}
	var kf struct {
		Findings []struct {
			Property  string `json:"property"`
			Signature string `json:"signature"`
		} `json:"findings"`
	}
	if json.Unmarshal(b, &kf) != nil {
		return false
	}
	for _, f := range kf.Findings {
		if f.Property == "C15" && f.Signature == sig {
			return true
		}
	}
	return false
}

// probeSharedRequests: parallel searches on ONE reader and on a second reader of the same writer, built
// from objects that several requests share. Each of K request kinds (different terms and boosts, so that
// their scores differ by orders of magnitude) is first run alone; then G goroutines run them concurrently
// and every result must equal the solo result: hit count, max_score, the top hits with their scores, the
// term buckets with their nested metric.
func probeSharedRequests(sh shape, rdir string) result {
	stats := map[string]int{}
	w, err := bluge.OpenWriter(bluge.InMemoryOnlyConfig())
	if err != nil {
		return result{"open-error", stats}
	}
	r := hlib.NewRand(sh.Seed)
	const numDocs = 2500
	b := bluge.NewBatch()
	for i := 0; i < numDocs; i++ {
		id := fmt.Sprintf("d%05d", i)
		body := "common words here"
		if i%3 == 0 {
			body += " " + vocab[r.Intn(len(vocab))]
		}
		b.Insert(bluge.NewDocument(id).
			AddField(bluge.NewTextField("body", body)).
			AddField(bluge.NewKeywordField("tag", vocab[i%5]).Aggregatable().Sortable()).
			AddField(bluge.NewNumericField("n", float64(i%17)).Aggregatable()))
	}
	if err := w.Batch(b); err != nil {
		return result{"batch-error", stats}
	}
	time.Sleep(100 * time.Millisecond)
	rd1, err1 := w.Reader()
	rd2, err2 := w.Reader()
	if err1 != nil || err2 != nil {
		return result{"reader-error", stats}
	}
	defer func() { _ = rd1.Close(); _ = rd2.Close(); _ = w.Close() }()

	// ---- the objects of a request: either private to the request (solo baseline) or ONE set shared by all
	// concurrent requests; the shared set is created after the solo runs, so its first use is concurrent
	type kind struct {
		term  string
		boost float64
	}
	kinds := []kind{{"common", 1}, {"words", 50}, {"here", 2500}, {"common", 0.02}}
	type objs struct {
		order search.SortOrder
		terms *aggregations.TermsAggregation
		sum   search.Aggregation
		termQ []bluge.Query
		boolQ []bluge.Query
	}
	mkObjs := func() *objs {
		o := &objs{}
		o.order = search.SortOrder{search.SortBy(search.Field("tag")), search.SortBy(search.DocumentScore()).Desc(), search.SortBy(search.Field("_id"))}
		o.terms = aggregations.NewTermsAggregation(search.Field("tag"), 5)
		o.terms.AddAggregation("top", aggregations.Max(search.DocumentScore()))
		o.sum = aggregations.Sum(search.Field("n"))
		for _, k := range kinds {
			o.termQ = append(o.termQ, bluge.NewTermQuery(k.term).SetField("body").SetBoost(k.boost))
			o.boolQ = append(o.boolQ, bluge.NewBooleanQuery().AddMust(bluge.NewTermQuery(k.term).SetField("body")).AddShould(bluge.NewTermQuery("alpha").SetField("body")).SetBoost(k.boost))
		}
		return o
	}
	var shared *objs
	// a request of kind k: always its own request object; with o == nil everything it is made of is private
	// to it (except the package-level standard aggregations, which are shared by construction)
	mkReq := func(k int, o *objs) bluge.SearchRequest {
		if o == nil {
			o = mkObjs()
		}
		var q bluge.Query
		switch {
		case sh.Share&16 != 0:
			q = o.boolQ[k]
		default:
			q = o.termQ[k]
		}
		req := bluge.NewTopNSearch(4, q)
		if sh.Share&1 != 0 {
			req.WithStandardAggregations()
		}
		if sh.Share&2 != 0 && k%2 == 1 {
			req.SortByCustom(o.order)
		}
		if sh.Share&4 != 0 {
			req.AddAggregation("tags", o.terms)
			req.AddAggregation("sum", o.sum)
		}
		return req
	}
	run := func(rd *bluge.Reader, k int, o *objs) string {
		it, err := rd.Search(context.Background(), mkReq(k, o))
		if err != nil {
			return "err:" + err.Error()
		}
		var sb strings.Builder
		for {
			m, err := it.Next()
			if err != nil {
				return "err:" + err.Error()
			}
			if m == nil {
				break
			}
			fmt.Fprintf(&sb, "%d:%016x,", m.Number, math.Float64bits(m.Score))
		}
		ag := it.Aggregations()
		if sh.Share&1 != 0 {
			fmt.Fprintf(&sb, " count=%d max=%016x", ag.Count(), math.Float64bits(ag.Metric("max_score")))
		}
		if sh.Share&4 != 0 {
			fmt.Fprintf(&sb, " sum=%016x tags=", math.Float64bits(ag.Metric("sum")))
			for _, bk := range ag.Buckets("tags") {
				fmt.Fprintf(&sb, "%s:%d:%016x,", bk.Name(), bk.Count(), math.Float64bits(bk.Metric("top")))
			}
		}
		return sb.String()
	}
	solo := make([]string, len(kinds))
	for k := range kinds {
		solo[k] = run(rd1, k, nil)
		if strings.HasPrefix(solo[k], "err:") {
			return result{"solo-search-error " + strings.ReplaceAll(solo[k], " ", "_"), stats}
		}
		if again := run(rd2, k, nil); again != solo[k] {
			return result{fmt.Sprintf("probe-inadequate solo result of request %d is not reproducible", k), stats}
		}
	}
	shared = mkObjs()
	if sh.Share&(2|4|8|16) == 0 {
		shared = nil
	}
	const G, rounds = 8, 60
	var wg sync.WaitGroup
	var mism uint64
	var first atomic.Value
	for g := 0; g < G; g++ {
		g := g
		wg.Add(1)
		go func() {
			defer wg.Done()
			defer func() {
				if e := recover(); e != nil {
					atomic.AddUint64(&mism, 1)
					if first.Load() == nil {
						first.Store(fmt.Sprintf("panic in concurrent search: %v", e))
					}
				}
			}()
			for i := 0; i < rounds; i++ {
				k := (g + i) % len(kinds)
				rd := rd1
				if g%4 == 3 { // most goroutines share ONE reader, some use a second one
					rd = rd2
				}
				if got := run(rd, k, shared); got != solo[k] {
					atomic.AddUint64(&mism, 1)
					if first.Load() == nil {
						first.Store(fmt.Sprintf("request=%d term=%s boost=%v want=[%s] got=[%s]", k, kinds[k].term, kinds[k].boost, solo[k], got))
					}
				}
			}
		}()
	}
	wg.Wait()
	stats["api_goroutines"] = G
	stats["shared_parallel_searches"] = G * rounds
	stats["shared_mismatches"] = int(mism)
	if mism > 0 {
		msg, _ := first.Load().(string)
		if len(msg) > 900 {
			msg = msg[:900] + "…"
		}
		return result{fmt.Sprintf("concurrent-differs-from-solo n=%d of=%d first: %s", mism, G*rounds, msg), stats}
	}
	return result{"ok closed mem-noreopen", stats}
}

type countDir struct {
	index.Directory
	n *uint64
}

func (d *countDir) Stats() (uint64, uint64) {
	atomic.AddUint64(d.n, 1)
	return d.Directory.Stats()
}

func sameState(want map[string]int, present map[string][]int, prefix string) bool {
	n := 0
	for id, vs := range present {
		if !strings.HasPrefix(id, prefix) {
			continue
		}
		n++
		v, ok := want[id]
		if !ok || len(vs) != 1 || vs[0] != v {
			return false
		}
	}
	return n == len(want)
}

func loadAll(rd *bluge.Reader) (map[string][]int, error) {
	out := map[string][]int{}
	req := bluge.NewAllMatches(bluge.NewMatchAllQuery())
	it, err := rd.Search(context.Background(), req)
	if err != nil {
		return nil, err
	}
	for {
		m, err := it.Next()
		if err != nil {
			return nil, err
		}
		if m == nil {
			break
		}
		id, ver := "", -1
		err = m.VisitStoredFields(func(field string, value []byte) bool {
			switch field {
			case "_id":
				id = string(value)
			case "ver":
				ver, _ = strconv.Atoi(string(value))
			}
			return true
		})
		if err != nil {
			return nil, err
		}
		out[id] = append(out[id], ver)
	}
	return out, nil
}

func mkDoc(id string, ver int, r *hlib.Rand) *bluge.Document {
	d := bluge.NewDocument(id)
	n := 2 + r.Intn(4)
	ws := make([]string, n)
	for i := range ws {
		ws[i] = vocab[r.Intn(len(vocab))]
	}
	d.AddField(bluge.NewTextField("body", strings.Join(ws, " ")).SearchTermPositions())
	d.AddField(bluge.NewKeywordField("tag", vocab[r.Intn(3)]).Aggregatable())
	d.AddField(bluge.NewKeywordField("ver", strconv.Itoa(ver)).StoreValue())
	d.AddField(bluge.NewNumericField("n", float64(ver%17)))
	return d
}

// searchOnce runs one query (kind chosen from qs) on rd, iterates all hits, loads stored fields of some.
func searchOnce(rd *bluge.Reader, qs uint64) (hits, stored int) {
	a := vocab[qs%8]
	b := vocab[(qs>>3)%8]
	c := vocab[(qs>>6)%8]
	var q bluge.Query
	scoreNone := false
	switch (qs >> 9) % 9 {
	case 0:
		q = bluge.NewTermQuery(a).SetField("body")
	case 1: // conjunction, unadorned optimisation
		q = bluge.NewBooleanQuery().AddMust(bluge.NewTermQuery(a).SetField("body"), bluge.NewTermQuery(b).SetField("body"))
		scoreNone = true
	case 2: // disjunction, unadorned optimisation
		q = bluge.NewBooleanQuery().AddShould(bluge.NewTermQuery(a).SetField("body"), bluge.NewTermQuery(b).SetField("body"), bluge.NewTermQuery(c).SetField("body"))
		scoreNone = true
	case 3: // scored conjunction (optimizeConjunction: shared AND-ed bitmap)
		q = bluge.NewBooleanQuery().AddMust(bluge.NewTermQuery(a).SetField("body"), bluge.NewTermQuery(b).SetField("body"), bluge.NewTermQuery(c).SetField("body"))
	case 4:
		q = bluge.NewBooleanQuery().AddShould(bluge.NewTermQuery(a).SetField("body"), bluge.NewTermQuery(b).SetField("body"))
	case 5:
		q = bluge.NewMatchPhraseQuery(a + " " + b).SetField("body")
	case 6: // conjunction of keyword + text with score none
		q = bluge.NewBooleanQuery().AddMust(bluge.NewTermQuery(vocab[qs%3]).SetField("tag"), bluge.NewTermQuery(b).SetField("body"))
		scoreNone = true
	case 7:
		q = bluge.NewNumericRangeQuery(2, 9).SetField("n")
	default:
		q = bluge.NewPrefixQuery(a[:2]).SetField("body")
	}
	req := bluge.NewTopNSearch(1000, q)
	if scoreNone {
		req.SetScore("none")
	}
	it, err := rd.Search(context.Background(), req)
	if err != nil {
		return 0, 0
	}
	for {
		m, err := it.Next()
		if err != nil || m == nil {
			break
		}
		hits++
		if hits%3 == 0 {
			_ = rd.VisitStoredFields(m.Number, func(field string, value []byte) bool { return true })
			stored++
		}
	}
	if qs%5 == 0 {
		_, _ = rd.Count()
		_, _ = rd.Fields()
		if di, err := rd.DictionaryIterator("body", nil, nil, nil); err == nil {
			for {
				e, err := di.Next()
				if err != nil || e == nil {
					break
				}
			}
			_ = di.Close()
		}
	}
	return hits, stored
}

// stuckSummary names the blocked bluge goroutines in a dump: "<wait reason>@<first bluge frame>".
func stuckSummary(dump string) string {
	var out []string
	for _, g := range strings.Split(dump, "\n\n") {
		if !strings.Contains(g, "blugelabs/bluge/index.") {
			continue
		}
		ls := strings.Split(g, "\n")
		reason := ""
		if i := strings.Index(ls[0], "["); i >= 0 {
			reason = strings.TrimSuffix(ls[0][i+1:], "]:")
		}
		frame := ""
		for _, l := range ls[1:] {
			if strings.HasPrefix(l, "github.com/blugelabs/bluge/index.") {
				frame = strings.TrimPrefix(l, "github.com/blugelabs/bluge/")
				if k := strings.Index(frame, "(0x"); k > 0 {
					frame = frame[:k]
				}
				break
			}
		}
		out = append(out, strings.ReplaceAll(reason, " ", "_")+"@"+frame)
	}
	sort.Strings(out)
	return strings.Join(out, ",")
}

// wrapPlugin registers a wrapper of the ice plugin of the chosen version whose New/Load/Merge yield.
func wrapPlugin(cfg *bluge.Config, ver int, sm *seams) {
	ic := cfg.VerifIndexConfig()
	base := pluginFor(ver)
	p := &index.SegmentPlugin{
		Type:    base.Type,
		Version: base.Version,
		New: func(results []segment.Document, normCalc func(string, int) float32) (segment.Segment, uint64, error) {
			sm.yield()
			return base.New(results, normCalc)
		},
		Load: func(d *segment.Data) (segment.Segment, error) {
			sm.yield()
			return base.Load(d)
		},
		Merge: func(segs []segment.Segment, drops []*roaring.Bitmap, n int) segment.Merger {
			sm.yield()
			return base.Merge(segs, drops, n)
		},
	}
	ic = ic.WithSegmentPlugin(p)
	*cfg = cfg.VerifWithIndexConfig(ic)
}

func pluginFor(ver int) *index.SegmentPlugin {
	if ver == 2 {
		return &index.SegmentPlugin{Type: iceV2.Type, Version: iceV2.Version, New: iceV2.New, Load: iceV2.Load, Merge: iceV2.Merge}
	}
	return &index.SegmentPlugin{Type: iceV1.Type, Version: iceV1.Version, New: iceV1.New, Load: iceV1.Load, Merge: iceV1.Merge}
}

func main() {
	if len(os.Args) >= 4 && os.Args[1] == "child" {
		childMain(os.Args[2], os.Args[3])
		return
	}
	hlib.Main(h{})
}

// Correspondence harness for C10: numeric coding and range decomposition.
package main

import (
	"bytes"
	"context"
	"fmt"
	"math"
	"sort"
	"strconv"
	"strings"
	"time"

	"github.com/blugelabs/bluge"

	"github.com/blugelabs/bluge/numeric"
	"github.com/blugelabs/bluge/search/searcher"

	"verif/harness/hlib"
)

type h struct{}

func (h) Rule() string {
	return "values from structure boundaries (sign change, ±0 neighbours, subnormals, powers of two ±1, every 4-bit step and 7-bit byte boundary, int64 extremes) and seeded random values; all pairs of a boundary subset; a case is non-trivial when its operands are not all equal and distinct when its op line is new"
}

func hx(v uint64) string { return fmt.Sprintf("%016x", v) }

// boundary set of int64 values (as uint64 bit patterns)
func boundaries() []uint64 {
	set := map[uint64]bool{}
	add := func(v uint64) { set[v] = true }
	for _, v := range []uint64{0, 1, 2, math.MaxUint64, math.MaxUint64 - 1, 1 << 63, 1<<63 - 1, 1<<63 + 1} {
		add(v)
	}
	for k := uint(0); k < 64; k++ {
		p := uint64(1) << k
		add(p)
		add(p - 1)
		add(p + 1)
		add(-p)
		add(-p - 1)
		add(-p + 1)
	}
	for k := uint(0); k < 64; k += 4 { // precision step boundaries
		m := (uint64(1)<<4 - 1) << k
		add(m)
		add(^m)
		add(m | 1<<63)
	}
	for k := uint(0); k < 64; k += 7 { // byte boundaries of the prefix coding
		m := uint64(0x7f) << k
		add(m)
		add(m + 1)
		add(^m)
	}
	out := make([]uint64, 0, len(set))
	for v := range set {
		out = append(out, v)
	}
	sort.Slice(out, func(i, j int) bool { return out[i] < out[j] })
	return out
}

func floatBoundaries() []uint64 {
	fs := []float64{0, math.Copysign(0, -1), math.SmallestNonzeroFloat64, -math.SmallestNonzeroFloat64,
		math.MaxFloat64, -math.MaxFloat64, 1, -1, 0.5, -0.5, 2, -2, 1e-308, -1e-308, 2.2250738585072014e-308, -2.2250738585072014e-308,
		math.Nextafter(1, 2), math.Nextafter(1, 0), math.Nextafter(-1, 0), math.Nextafter(-1, -2), 1e300, -1e300, 3.5, -3.5, 1024, -1024}
	out := []uint64{}
	for _, f := range fs {
		out = append(out, math.Float64bits(f))
	}
	for k := 0; k < 2047; k += 93 { // exponents
		out = append(out, uint64(k)<<52, uint64(k)<<52|1<<63, uint64(k)<<52|1, uint64(k)<<52|(1<<52-1))
	}
	return out
}

func (h) Gen(r *hlib.Rand, tier string, scale int, emit func(string)) {
	bs := boundaries()
	fb := floatBoundaries()
	n := 400 * scale
	if tier == "thorough" {
		n = 6000 * scale
	}
	pick := func() uint64 {
		switch r.Weighted(5, 3, 2) {
		case 0:
			return bs[r.Intn(len(bs))]
		case 1:
			return r.U64()
		default: // near a boundary
			return bs[r.Intn(len(bs))] + uint64(r.Intn(33)) - 16
		}
	}
	for _, v := range bs {
		emit("f2i " + hx(v))
		emit("i2f " + hx(v))
	}
	for _, v := range fb {
		emit("f2i " + hx(v))
	}
	shifts := []int{0, 1, 3, 4, 7, 8, 12, 13, 14, 20, 28, 32, 48, 56, 60, 62, 63, 64, 70}
	for _, v := range bs {
		for _, s := range shifts {
			emit(fmt.Sprintf("enc %s %d", hx(v), s))
		}
	}
	// decode: encodings of boundaries (valid), then malformed
	for i := 0; i < n; i++ {
		v := pick()
		s := uint(r.Intn(64))
		if s == 63 && r.Bool() {
			s = 62
		}
		pc, err := numeric.NewPrefixCodedInt64(int64(v), s)
		if err != nil {
			continue
		}
		b := []byte(pc)
		if r.Chance(25) { // malformed stream
			switch r.Intn(4) {
			case 0:
				b = b[:r.Intn(len(b))]
			case 1:
				b = append(b, byte(r.Intn(256)))
			case 2:
				b[r.Intn(len(b))] = byte(r.Intn(256))
			case 3:
				b[0] = byte(r.Intn(256))
			}
		}
		emit("dec " + hlib.Hex(b))
		emit("valid " + hlib.Hex(b))
	}
	// order: all pairs of a boundary subset at several shifts, plus random pairs
	sub := []uint64{}
	for i, v := range bs {
		if i%7 == 0 || v < 3 || v > math.MaxUint64-3 || v>>62 == 1 || v>>62 == 2 {
			sub = append(sub, v)
		}
	}
	if tier != "thorough" && len(sub) > 40 {
		sub = sub[:40]
	}
	for _, a := range sub {
		for _, b := range sub {
			emit(fmt.Sprintf("cmp %s %s %d", hx(a), hx(b), []int{0, 4, 16, 60}[r.Intn(4)]))
		}
	}
	for i := 0; i < n; i++ {
		a := pick()
		b := pick()
		if r.Chance(30) {
			b = a + uint64(r.Intn(5)) - 2
		}
		emit(fmt.Sprintf("cmp %s %s %d", hx(a), hx(b), 4*r.Intn(16)))
	}
	for _, a := range fb {
		for _, b := range fb[:20] {
			emit("fcmp " + hx(a) + " " + hx(b))
		}
	}
	// range decomposition
	for i := 0; i < n; i++ {
		lo, hi := pick(), pick()
		if r.Chance(70) && int64(lo) > int64(hi) {
			lo, hi = hi, lo
		}
		if r.Chance(30) {
			hi = lo + uint64(r.Intn(70000))
		}
		emit("split " + hx(lo) + " " + hx(hi))
		for j := 0; j < 3; j++ {
			var v uint64
			switch r.Intn(6) {
			case 0:
				v = lo
			case 1:
				v = hi
			case 2:
				v = lo - 1
			case 3:
				v = hi + 1
			case 4:
				v = lo + (hi-lo)/2
			default:
				v = pick()
			}
			emit("member " + hx(lo) + " " + hx(hi) + " " + hx(v))
		}
	}
	// maximal exit ranges: a range that cannot be lifted to the next precision spans the tail of one digit and the
	// head of the following one (up to 30 terms); members in its FIRST and LAST terms, at every level
	for s := uint(0); s <= 56; s += 4 {
		for _, base := range []int64{0, -(int64(64) << s), int64(r.U64()>>8) &^ (int64(32)<<s - 1), -(int64(r.U64()>>8) &^ (int64(32)<<s - 1))} {
			if s >= 52 && base != 0 {
				continue
			}
			lo := base + int64(1)<<s
			hi := base + int64(30)<<s + (int64(1)<<s - 1)
			for _, v := range []int64{lo, hi, base + int64(30)<<s, base + int64(29)<<s, base + int64(15)<<s, base + int64(16)<<s, lo - 1, hi + 1} {
				emit("member " + hx(uint64(lo)) + " " + hx(uint64(hi)) + " " + hx(uint64(v)))
			}
			// and shorter tails / heads around it
			lo2 := base + int64(1+r.Intn(14))<<s
			hi2 := base + int64(16+r.Intn(15))<<s + (int64(1)<<s - 1)
			for _, v := range []int64{lo2, hi2, hi2 - (int64(1)<<s - 1), lo2 + (int64(1)<<s - 1)} {
				emit("member " + hx(uint64(lo2)) + " " + hx(uint64(hi2)) + " " + hx(uint64(v)))
			}
		}
	}
	// incrementBytes and the float end-point handling of NewNumericRangeSearcher
	for i := 0; i < n/2; i++ {
		l := r.Intn(6)
		b := make([]byte, l)
		for j := range b {
			switch r.Intn(4) {
			case 0:
				b[j] = 0xff
			case 1:
				b[j] = 0x7f
			default:
				b[j] = byte(r.Intn(256))
			}
		}
		emit("inc " + hlib.Hex(b))
		emit("incpc " + hlib.Hex(b))
	}
	// end-to-end: a real index with one document per value, searched with NumericRangeQuery
	vals := []uint64{}
	for i, f := range fb {
		if f&0x7ff0000000000000 != 0x7ff0000000000000 && i%2 == 0 { // finite
			vals = append(vals, f)
		}
	}
	vals = append(vals, math.Float64bits(math.Inf(1)), math.Float64bits(math.Inf(-1)), math.Float64bits(math.Copysign(0, -1)), 0,
		math.Float64bits(-math.SmallestNonzeroFloat64), math.Float64bits(-5), math.Float64bits(-1e10))
	vs := make([]string, len(vals))
	for i, v := range vals {
		vs[i] = hx(v)
	}
	vlist := strings.Join(vs, ",")
	ends := append(append([]uint64{}, vals...), math.Float64bits(2.5), math.Float64bits(-2.5), math.Float64bits(1e-300))
	for i := 0; i < n/2; i++ {
		a, b := ends[r.Intn(len(ends))], ends[r.Intn(len(ends))]
		fa, fb2 := math.Float64frombits(a), math.Float64frombits(b)
		if r.Chance(75) && fa > fb2 {
			a, b, fa, fb2 = b, a, fb2, fa
		}
		// the known finding (range straddling zero at tiny magnitude never returns) is left to the probe below
		if fa < 0 && fb2 > 0 && math.Abs(fa) < 1e-290 && math.Abs(fb2) < 1e-290 {
			continue
		}
		if (fa <= 0 && fb2 >= 0) && (math.Abs(fa) < 1e-290 || math.Abs(fb2) < 1e-290) && !(fa == 0 && fb2 == 0) {
			// one end is ±0 or tiny: the int64 images straddle or touch zero; keep only the safe shapes
			if !(fa == 0 && math.Signbit(fa) == false) && !(fb2 == 0 && math.Signbit(fb2)) {
				continue
			}
		}
		emit(fmt.Sprintf("rangeq %s %s %v %v %s", hx(a), hx(b), r.Bool(), r.Bool(), vlist))
	}
	emit(fmt.Sprintf("rangeq %s %s true true %s", hx(math.Float64bits(-1e-320)), hx(math.Float64bits(1e-320)), vlist))
	// end-to-end: date fields (int64 nanoseconds) searched with DateRangeQuery; the end points go through
	// Int64ToFloat64 / Float64ToInt64, every open/closed/unbounded combination, documents ON the end points
	dn := []int64{math.MinInt64, math.MinInt64 + 1, -1e18, -86400e9, -2, -1, 0, 1, 2, 1e9, 86400e9, 1600000000e9, 1600000000e9 + 1, 1e18,
		math.MaxInt64 - 1, math.MaxInt64, 0x7fefffffffffffff, -0x7ff0000000000000, 0x7ff8000000000001, -0x7ff8000000000002}
	for i := 0; i < 12; i++ {
		dn = append(dn, int64(r.U64()))
	}
	ds := make([]string, len(dn))
	for i, v := range dn {
		ds[i] = hx(uint64(v))
	}
	dlist := strings.Join(ds, ",")
	dends := append(append([]int64{}, dn...), 5, -5, 1600000000e9-1, 3e18, -3e18)
	for i := 0; i < n/2; i++ {
		a, b := dends[r.Intn(len(dends))], dends[r.Intn(len(dends))]
		if r.Chance(80) && a > b {
			a, b = b, a
		}
		as, bs := hx(uint64(a)), hx(uint64(b))
		switch r.Intn(8) {
		case 0:
			as = "-"
		case 1:
			bs = "-"
		}
		emit(fmt.Sprintf("dateq %s %s %v %v %s", as, bs, r.Bool(), r.Bool(), dlist))
	}
	// every inclusion combination with documents exactly on both end points, and the default constructor's [start,end)
	for _, c := range [][2]bool{{true, true}, {true, false}, {false, true}, {false, false}} {
		emit(fmt.Sprintf("dateq %s %s %v %v %s", hx(uint64(1e9)), hx(uint64(1600000000e9)), c[0], c[1], dlist))
		emit(fmt.Sprintf("dateq %s %s %v %v %s", hx(^uint64(0)), hx(0), c[0], c[1], dlist))
		emit(fmt.Sprintf("dateq %s - %v %v %s", hx(uint64(1e9)), c[0], c[1], dlist))
		emit(fmt.Sprintf("dateq - %s %v %v %s", hx(uint64(1e9)), c[0], c[1], dlist))
	}
	// probe: an end point whose float image is an infinity (see known_findings.json)
	emit(fmt.Sprintf("dateq %s %s false true %s", hx(uint64(0x800fffffffffffff)), hx(0), dlist))
	emit(fmt.Sprintf("dateq %s %s true false %s", hx(0), hx(uint64(0x7ff0000000000000)), dlist))
	for i := 0; i < n/4; i++ {
		a, b := r.U64()&0xffffffff, r.U64()&0xffffffff
		emit("il " + hx(a) + " " + hx(b))
		emit("dil " + hx(r.U64()))
	}
}

func p64(s string) uint64 { v, _ := strconv.ParseUint(s, 16, 64); return v }

func unhex(s string) []byte {
	if s == "-" {
		return nil
	}
	b := make([]byte, len(s)/2)
	for i := range b {
		v, _ := strconv.ParseUint(s[2*i:2*i+2], 16, 8)
		b[i] = byte(v)
	}
	return b
}

func (h) Exec(line string, out func(string, string), st *hlib.Stats, work string) {
	w := strings.Split(line, " ")
	res := hlib.Catch(func() string {
		switch w[0] {
		case "f2i":
			return hx(uint64(numeric.Float64ToInt64(math.Float64frombits(p64(w[1])))))
		case "i2f":
			return hx(math.Float64bits(numeric.Int64ToFloat64(int64(p64(w[1])))))
		case "enc":
			s, _ := strconv.Atoi(w[2])
			pc, err := numeric.NewPrefixCodedInt64(int64(p64(w[1])), uint(s))
			if err != nil {
				return "err"
			}
			return hlib.Hex(pc)
		case "dec":
			p := numeric.PrefixCoded(unhex(w[1]))
			v, err := p.Int64()
			if err != nil {
				return "err"
			}
			s, err := p.Shift()
			if err != nil {
				return "err"
			}
			return hx(uint64(v)) + " " + strconv.Itoa(int(s))
		case "valid":
			ok, s := numeric.ValidPrefixCodedTermBytes(unhex(w[1]))
			return fmt.Sprintf("%v %d", ok, s)
		case "cmp":
			s, _ := strconv.Atoi(w[3])
			a := numeric.MustNewPrefixCodedInt64(int64(p64(w[1])), uint(s))
			b := numeric.MustNewPrefixCodedInt64(int64(p64(w[2])), uint(s))
			return strconv.Itoa(bytes.Compare(a, b))
		case "fcmp":
			a := numeric.MustNewPrefixCodedInt64(numeric.Float64ToInt64(math.Float64frombits(p64(w[1]))), 0)
			b := numeric.MustNewPrefixCodedInt64(numeric.Float64ToInt64(math.Float64frombits(p64(w[2]))), 0)
			return strconv.Itoa(bytes.Compare(a, b))
		case "split":
			rs := searcher.VerifSplitInt64Range(int64(p64(w[1])), int64(p64(w[2])), 4)
			if len(rs) == 0 {
				return "-"
			}
			parts := make([]string, len(rs))
			for i, r := range rs {
				parts[i] = hlib.Hex(r[0]) + ":" + hlib.Hex(r[1])
			}
			return strings.Join(parts, ",")
		case "member":
			v := int64(p64(w[3]))
			want := map[string]bool{}
			for s := uint(0); s < 64; s += 4 {
				want[string(numeric.MustNewPrefixCodedInt64(v, s))] = true
			}
			steps, hit, diverged := 0, false, false
			func() {
				defer func() {
					if e := recover(); e != nil {
						if e == "cap" {
							diverged = true
							return
						}
						panic(e)
					}
				}()
				searcher.VerifEnumerateFilter(int64(p64(w[1])), int64(p64(w[2])), 4, func(t []byte) bool {
					steps++
					if steps > 2000000 {
						panic("cap")
					}
					if want[string(t)] {
						hit = true
					}
					return false
				})
			}()
			if diverged {
				return "diverges"
			}
			return strconv.FormatBool(hit)
		case "inc":
			return hlib.Hex(searcher.VerifIncrementBytes(unhex(w[1])))
		case "incpc":
			return hlib.Hex(searcher.VerifIncrementPrefixCoded(unhex(w[1])))
		case "rangeq":
			return rangeq(w)
		case "dateq":
			return dateq(w)
		case "il":
			return hx(numeric.Interleave(p64(w[1]), p64(w[2])))
		case "dil":
			return hx(numeric.Deinterleave(p64(w[1])))
		}
		return "bad-op"
	})
	st.Count("op:" + w[0])
	st.Count("res:" + classify(res))
	nontrivial := len(w) < 3 || w[1] != w[2]
	st.Case(line, nontrivial)
	out(line, res)
}

var idxCache = map[string]*bluge.Reader{}

// rangeq runs a real NumericRangeQuery against an in-memory index holding one document per value.
func rangeq(w []string) string {
	rd, ok := idxCache[w[5]]
	vals := strings.Split(w[5], ",")
	if !ok {
		wr, err := bluge.OpenWriter(bluge.InMemoryOnlyConfig())
		if err != nil {
			return "err"
		}
		b := bluge.NewBatch()
		for i, v := range vals {
			d := bluge.NewDocument(strconv.Itoa(i)).AddField(bluge.NewNumericField("n", math.Float64frombits(p64(v))))
			b.Update(d.ID(), d)
		}
		if err := wr.Batch(b); err != nil {
			return "err"
		}
		rd, err = wr.Reader()
		if err != nil {
			return "err"
		}
		idxCache[w[5]] = rd
	}
	type out struct {
		s string
	}
	ch := make(chan out, 1)
	go func() {
		defer func() {
			if recover() != nil {
				ch <- out{"panic"}
			}
		}()
		q := bluge.NewNumericRangeInclusiveQuery(math.Float64frombits(p64(w[1])), math.Float64frombits(p64(w[2])), w[3] == "true", w[4] == "true").SetField("n")
		it, err := rd.Search(context.Background(), bluge.NewAllMatches(q))
		if err != nil {
			ch <- out{"err"}
			return
		}
		hit := make([]byte, len(vals))
		for i := range hit {
			hit[i] = '0'
		}
		for m, err := it.Next(); m != nil && err == nil; m, err = it.Next() {
			_ = m.VisitStoredFields(func(field string, value []byte) bool {
				if field == "_id" {
					i, _ := strconv.Atoi(string(value))
					hit[i] = '1'
				}
				return true
			})
		}
		ch <- out{string(hit)}
	}()
	select {
	case o := <-ch:
		return o.s
	case <-time.After(3 * time.Second):
		return "diverges" // the goroutine keeps walking; the harness goes on
	}
}

// dateq runs a real DateRangeQuery against an in-memory index holding one document per instant (int64 nanoseconds).
func dateq(w []string) string {
	key := "d:" + w[5]
	rd, ok := idxCache[key]
	vals := strings.Split(w[5], ",")
	if !ok {
		wr, err := bluge.OpenWriter(bluge.InMemoryOnlyConfig())
		if err != nil {
			return "err"
		}
		b := bluge.NewBatch()
		for i, v := range vals {
			d := bluge.NewDocument(strconv.Itoa(i)).AddField(bluge.NewDateTimeField("d", time.Unix(0, int64(p64(v)))))
			b.Update(d.ID(), d)
		}
		if err := wr.Batch(b); err != nil {
			return "err"
		}
		rd, err = wr.Reader()
		if err != nil {
			return "err"
		}
		idxCache[key] = rd
	}
	var start, end time.Time
	if w[1] != "-" {
		start = time.Unix(0, int64(p64(w[1])))
	}
	if w[2] != "-" {
		end = time.Unix(0, int64(p64(w[2])))
	}
	ch := make(chan string, 1)
	go func() {
		defer func() {
			if recover() != nil {
				ch <- "panic"
			}
		}()
		q := bluge.NewDateRangeInclusiveQuery(start, end, w[3] == "true", w[4] == "true").SetField("d")
		it, err := rd.Search(context.Background(), bluge.NewAllMatches(q))
		if err != nil {
			ch <- "err"
			return
		}
		hit := make([]byte, len(vals))
		for i := range hit {
			hit[i] = '0'
		}
		for m, err := it.Next(); m != nil && err == nil; m, err = it.Next() {
			_ = m.VisitStoredFields(func(field string, value []byte) bool {
				if field == "_id" {
					i, _ := strconv.Atoi(string(value))
					hit[i] = '1'
				}
				return true
			})
		}
		ch <- string(hit)
	}()
	select {
	case o := <-ch:
		return o
	case <-time.After(3 * time.Second):
		return "diverges"
	}
}

func classify(res string) string {
	switch {
	case res == "err", res == "panic", res == "-", res == "true", res == "false", res == "diverges":
		return res
	case strings.HasPrefix(res, "false"):
		return "invalid-term"
	case strings.Contains(res, ","):
		return "multi-range"
	}
	return "value"
}

func main() { hlib.Main(h{}) }

// Package hlib is the shared plumbing of the correspondence harnesses (one main package per
// property under go/harness/<cxx>). A harness has two sub-commands:
//
//	gen  -seed S -tier quick|thorough -scale K -out script.txt
//	     writes a script: one operation per line; a line starting with "case " begins a new
//	     independent case (state is reset). Every random choice derives from -seed.
//	exec -script script.txt -pairs pairs.txt -stats stats.json -work DIR
//	     executes the script against the REAL bluge code and writes one line per step:
//	     "<model op line> ## <canonical implementation result>"
//	     (for most streams the model op line is the script line itself).
//
// The Lean driver drv_<cxx> reads pairs.txt and answers each line with
// "<model result> ## <verdict>", verdict = ok | na | bad:<reason>, optionally followed by
// " br=<branch>,<branch>" (which model branches the step took). ./check diffs the two.
package hlib

import (
	"bufio"
	"encoding/json"
	"flag"
	"fmt"
	"os"
	"sort"
	"strings"
)

const Sep = " ## "

// Rand is splitmix64: tiny, deterministic, seedable; all generator choices go through it.
type Rand struct{ s uint64 }

func NewRand(seed uint64) *Rand { return &Rand{s: seed*0x9E3779B97F4A7C15 + 0x1234567} }

// MixSeed spreads the command-line seeds: NewRand(k+1) is NewRand(k) advanced by one draw, so the streams of
// seeds 1, 2, 3 would be shifted copies of each other. Seed 1 (the default, the stream every check was
// developed against) is kept as it is; every other seed is hashed first.
func MixSeed(seed uint64) uint64 {
	if seed == 1 {
		return 1
	}
	z := seed + 0x9E3779B97F4A7C15
	z = (z ^ (z >> 30)) * 0xBF58476D1CE4E5B9
	z = (z ^ (z >> 27)) * 0x94D049BB133111EB
	return z ^ (z >> 31)
}
func (r *Rand) U64() uint64 {
	r.s += 0x9E3779B97F4A7C15
	z := r.s
	z = (z ^ (z >> 30)) * 0xBF58476D1CE4E5B9
	z = (z ^ (z >> 27)) * 0x94D049BB133111EB
	return z ^ (z >> 31)
}
func (r *Rand) Intn(n int) int {
	if n <= 0 {
		return 0
	}
	return int(r.U64() % uint64(n))
}
func (r *Rand) Bool() bool          { return r.U64()&1 == 1 }
func (r *Rand) Chance(p int) bool   { return r.Intn(100) < p } // p in percent
func (r *Rand) Range(lo, hi int) int { return lo + r.Intn(hi-lo+1) }

// Weighted picks an index with probability proportional to w[i].
func (r *Rand) Weighted(w ...int) int {
	t := 0
	for _, x := range w {
		t += x
	}
	k := r.Intn(t)
	for i, x := range w {
		if k < x {
			return i
		}
		k -= x
	}
	return len(w) - 1
}

// Stats is what a harness reports about its run; ./check copies it into the evidence file.
type Stats struct {
	Evaluations        int            `json:"evaluations"`
	DistinctNontrivial int            `json:"distinct_nontrivial"`
	Rule               string         `json:"rule"`
	Samples            []string       `json:"samples"`
	Distribution       map[string]int `json:"distribution"`
	distinct           map[string]bool
}

func NewStats(rule string) *Stats {
	return &Stats{Rule: rule, Distribution: map[string]int{}, distinct: map[string]bool{}}
}
func (s *Stats) Count(key string) { s.Distribution[key]++ }
func (s *Stats) CountN(key string, n int) { s.Distribution[key] += n }

// Case records one evaluated case; nontrivial by the stream's stated rule; key canonicalises it.
func (s *Stats) Case(key string, nontrivial bool) {
	s.Evaluations++
	if nontrivial && !s.distinct[key] {
		s.distinct[key] = true
		s.DistinctNontrivial++
		if len(s.Samples) < 6 {
			k := key
			if len(k) > 400 {
				k = k[:400] + "…"
			}
			s.Samples = append(s.Samples, k)
		}
	}
}
func (s *Stats) Write(path string) {
	b, _ := json.MarshalIndent(s, "", " ")
	_ = os.WriteFile(path, b, 0o644)
}

// Harness is implemented by each property's main package.
type Harness interface {
	// Gen writes the script lines for (seed, tier, scale).
	Gen(r *Rand, tier string, scale int, emit func(line string))
	// Exec runs one script line against the real code. It returns the model op line (usually
	// the script line itself) and the canonical implementation result. A line starting with
	// "case " resets per-case state. Exec may return several pairs for one script line.
	Exec(line string, out func(modelOp, implResult string), st *Stats, work string)
	Rule() string
}

func Main(h Harness) {
	if len(os.Args) < 2 {
		fmt.Fprintln(os.Stderr, "usage: gen|exec …")
		os.Exit(2)
	}
	switch os.Args[1] {
	case "gen":
		fs := flag.NewFlagSet("gen", flag.ExitOnError)
		seed := fs.Uint64("seed", 1, "")
		tier := fs.String("tier", "quick", "")
		scale := fs.Int("scale", 1, "")
		out := fs.String("out", "script.txt", "")
		_ = fs.Parse(os.Args[2:])
		f, err := os.Create(*out)
		if err != nil {
			panic(err)
		}
		w := bufio.NewWriterSize(f, 1<<20)
		h.Gen(NewRand(MixSeed(*seed)), *tier, *scale, func(line string) {
			if strings.ContainsAny(line, "\n\r") {
				panic("script line contains newline: " + line)
			}
			w.WriteString(line)
			w.WriteByte('\n')
		})
		w.Flush()
		f.Close()
	case "exec":
		fs := flag.NewFlagSet("exec", flag.ExitOnError)
		script := fs.String("script", "script.txt", "")
		pairs := fs.String("pairs", "pairs.txt", "")
		stats := fs.String("stats", "stats.json", "")
		work := fs.String("work", ".", "")
		_ = fs.Parse(os.Args[2:])
		in, err := os.Open(*script)
		if err != nil {
			panic(err)
		}
		defer in.Close()
		of, err := os.Create(*pairs)
		if err != nil {
			panic(err)
		}
		w := bufio.NewWriterSize(of, 1<<20)
		st := NewStats(h.Rule())
		sc := bufio.NewScanner(in)
		sc.Buffer(make([]byte, 1<<20), 1<<28)
		for sc.Scan() {
			line := sc.Text()
			if line == "" {
				continue
			}
			h.Exec(line, func(op, res string) {
				op = strings.ReplaceAll(op, "\n", "\\n")
				res = strings.ReplaceAll(res, "\n", "\\n")
				w.WriteString(op)
				w.WriteString(Sep)
				w.WriteString(res)
				w.WriteByte('\n')
			}, st, *work)
		}
		w.Flush()
		of.Close()
		st.Write(*stats)
	default:
		fmt.Fprintln(os.Stderr, "unknown sub-command", os.Args[1])
		os.Exit(2)
	}
}

// SortedKeys helps canonicalise anything that came out of a Go map.
func SortedKeys(m map[string]int) []string {
	ks := make([]string, 0, len(m))
	for k := range m {
		ks = append(ks, k)
	}
	sort.Strings(ks)
	return ks
}

// Hex renders bytes canonically.
func Hex(b []byte) string {
	const d = "0123456789abcdef"
	o := make([]byte, 0, 2*len(b))
	for _, x := range b {
		o = append(o, d[x>>4], d[x&15])
	}
	if len(o) == 0 {
		return "-"
	}
	return string(o)
}

// Catch runs f and maps a panic to "panic:<msg>" so that a fault is an observation.
func Catch(f func() string) (res string) {
	defer func() {
		if e := recover(); e != nil {
			msg := fmt.Sprint(e)
			if len(msg) > 60 {
				msg = msg[:60]
			}
			res = "panic"
			_ = msg
		}
	}()
	return f()
}

// Correspondence harness for C20: highlighted fragments are faithful to the stored text.
//
// Script / model op lines (all byte strings in hex, "-" = empty):
//
//	dr <bytes> | dlr <bytes> | rc <bytes> | valid <bytes> | esc <bytes>      the utf8/html primitives the model transcribes
//	merge <locs>                                                          TermLocations.MergeOverlapping
//	frag <fsize> <text> <locs>                                            SimpleFragmenter.Fragment on an ORDERED list
//	fmt <html|ansi> <text> <fstart> <fend> <locs-with-nil>                FragmentFormatter.Format
//	best|beste|bestx|bestm <html|ansi> <fsize> <num> <text> <locs> [quiet=…]  SimpleHighlighter.BestFragments, called several times on the
//	                                                                      same map: the result is the sorted set of distinct outputs joined by '|'
//	                                                                      (beste/bestx/bestm: locations of a real search, see below)
//	e2e <analyzer> <qtype> <html|ansi> <fsize> <num> <text> <query>       script only: index + search (bundled analyzer, one field value), emits frag + beste
//	e2ex <analyzer> <html|ansi> <fsize> <num> <text> <pickseed>           script only: analyzer assembled from the bundled shingle / dictionary-compound /
//	                                                                      edge-n-gram / n-gram filters, should-query on terms of overlapping tokens, emits bestx
//	e2em <analyzer> <html|ansi> <fsize> <num> <text,text[,text]> <pickseed>  script only: one field with several values (bundled analyzer), emits bestm for one value
//
// locs = "-" or items "termhex,pos,start,end" (or "nil") separated by ';'.
// quiet=<reasons>: the oracles (order, marks, multi) whose finding is not listed in known_findings.json; the driver
// reports them as `ok` plus an `open-finding:` counter (see checks/c20.py).
package main

import (
	"context"
	"encoding/json"
	"fmt"
	"html"
	"os"
	"path/filepath"
	"sort"
	"strconv"
	"strings"
	"unicode/utf8"

	"github.com/blugelabs/bluge"
	"github.com/blugelabs/bluge/analysis"
	"github.com/blugelabs/bluge/analysis/analyzer"
	"github.com/blugelabs/bluge/analysis/lang/cjk"
	"github.com/blugelabs/bluge/analysis/lang/en"
	"github.com/blugelabs/bluge/analysis/token"
	"github.com/blugelabs/bluge/analysis/tokenizer"
	"github.com/blugelabs/bluge/search"
	"github.com/blugelabs/bluge/search/highlight"

	"verif/harness/hlib"
)

type h struct{}

func (h) Rule() string {
	return "texts built from ASCII, 2/3/4-byte-rune, HTML-special and U+FFFD words, shorter than / about / much longer than the fragment size (1,5,20,100,200 runes); " +
		"(a) end-to-end: one-document in-memory index (stored text field with HighlightMatches, analyzers standard/simple/web/keyword/en/cjk), match/phrase/prefix/fuzzy/term queries on words taken from both ends and the middle, locations from IncludeLocations, both formatters; " +
		"(a') the same with analyzers assembled from the bundled shingle, dictionary-compound, edge-n-gram and n-gram filters (tokens with equal Starts, nested tokens) and with a field holding 2-3 values, should-queries on terms of overlapping tokens; " +
		"(b) direct calls of Fragment/Format/MergeOverlapping/BestFragments with search-like location sets (token spans on rune boundaries), shingle-like (same Start, several Ends) and compound-like (nested) ones, and adversarial ones (negative, out of range, overlapping, nested, unsorted, mid-rune, reversed, equal Starts) on valid and on arbitrary byte texts; " +
		"every BestFragments call is repeated on the same map (2x; 12x with equal Starts; 24x for a') and the SET of outputs is compared with the set the model computes over all Less-sorted orders; " +
		"(c) the utf8/html primitives on structured malformed byte strings. A case is non-trivial when it has at least one location or at least one multi-byte/invalid byte; distinct by op line"
}

// ---------------------------------------------------------------- encoding helpers

func unhex(s string) []byte {
	if s == "-" {
		return []byte{}
	}
	b := make([]byte, len(s)/2)
	for i := range b {
		v, _ := strconv.ParseUint(s[2*i:2*i+2], 16, 8)
		b[i] = byte(v)
	}
	return b[:len(b):len(b)]
}

type loc struct {
	term            string
	pos, start, end int
	isNil           bool
}

func encLocs(ls []loc) string {
	if len(ls) == 0 {
		return "-"
	}
	parts := make([]string, len(ls))
	for i, l := range ls {
		if l.isNil {
			parts[i] = "nil"
		} else {
			parts[i] = fmt.Sprintf("%s,%d,%d,%d", hlib.Hex([]byte(l.term)), l.pos, l.start, l.end)
		}
	}
	return strings.Join(parts, ";")
}

func decLocs(s string) []loc {
	if s == "-" {
		return nil
	}
	var out []loc
	for _, it := range strings.Split(s, ";") {
		if it == "nil" {
			out = append(out, loc{isNil: true})
			continue
		}
		f := strings.Split(it, ",")
		p, _ := strconv.Atoi(f[1])
		a, _ := strconv.Atoi(f[2])
		b, _ := strconv.Atoi(f[3])
		out = append(out, loc{term: string(unhex(f[0])), pos: p, start: a, end: b})
	}
	return out
}

func toTLs(ls []loc) highlight.TermLocations {
	tls := make(highlight.TermLocations, 0, len(ls))
	for _, l := range ls {
		if l.isNil {
			tls = append(tls, nil)
		} else {
			tls = append(tls, &highlight.TermLocation{Term: l.term, Pos: l.pos, Start: l.start, End: l.end})
		}
	}
	return tls
}

func showTLs(tls highlight.TermLocations) string {
	ls := make([]loc, len(tls))
	for i, t := range tls {
		if t == nil {
			ls[i] = loc{isNil: true}
		} else {
			ls[i] = loc{term: t.Term, pos: t.Pos, start: t.Start, end: t.End}
		}
	}
	return encLocs(ls)
}

func toTLM(ls []loc) search.TermLocationMap {
	tlm := search.TermLocationMap{}
	for _, l := range ls {
		if l.isNil {
			continue
		}
		tlm.AddLocation(l.term, &search.Location{Pos: l.pos, Start: l.start, End: l.end})
	}
	return tlm
}

func highlighter(kind string, fsize int) *highlight.SimpleHighlighter {
	var f highlight.FragmentFormatter
	if kind == "html" {
		f = highlight.NewHTMLFragmentFormatter()
	} else {
		f = highlight.NewANSIFragmentFormatter()
	}
	if fsize == 200 { // the public constructors (default fragment size)
		if kind == "html" {
			return highlight.NewHTMLHighlighter()
		}
		return highlight.NewANSIHighlighter()
	}
	return highlight.NewSimpleHighlighter(highlight.NewSimpleFragmenterSized(fsize), f, highlight.DefaultSeparator)
}

func showStrings(ss []string) string {
	if len(ss) == 0 {
		return "[]"
	}
	parts := make([]string, len(ss))
	for i, s := range ss {
		parts[i] = hlib.Hex([]byte(s))
	}
	return strings.Join(parts, ",")
}

// ---------------------------------------------------------------- text generation

var asciiWords = []string{"the", "quick", "brown", "fox", "jumps", "over", "lazy", "dog", "a", "go", "search", "index", "bluge", "x", "Fox", "DOG", "foxes", "fo", "quickly"}
var mbWords = []string{"café", "naïve", "über", "日本語", "テキスト", "привет", "мир", "😀", "smile😀y", "ñandú", "résumé", "東京", "é", "ß", "𝔘𝔫𝔦", "zoë"}
var specialWords = []string{"<b>", "&", "a&b", "\"q\"", "it's", "<", ">", "1<2", "&amp;", "<mark>", "x>y"}
var seps = []string{" ", " ", " ", ", ", ". ", "  ", " - ", "\n", "; "}

type text struct {
	b     []byte
	spans [][2]int // byte spans of the words
	words []string
}

func genText(r *hlib.Rand, runes int, fffd bool) text {
	var t text
	n := 0
	if r.Chance(15) {
		t.b = append(t.b, ' ')
		n++
	}
	for n < runes || len(t.words) == 0 {
		var w string
		switch r.Weighted(5, 4, 2) {
		case 0:
			w = asciiWords[r.Intn(len(asciiWords))]
		case 1:
			w = mbWords[r.Intn(len(mbWords))]
		default:
			w = specialWords[r.Intn(len(specialWords))]
		}
		if fffd && r.Chance(20) {
			if r.Bool() {
				w = "�"
			} else {
				w = w + "�" + "z"
			}
		}
		st := len(t.b)
		t.b = append(t.b, w...)
		t.spans = append(t.spans, [2]int{st, len(t.b)})
		t.words = append(t.words, w)
		n += utf8.RuneCountInString(w)
		if n < runes || r.Chance(20) {
			s := seps[r.Intn(len(seps))]
			t.b = append(t.b, s...)
			n += utf8.RuneCountInString(s)
		}
	}
	if fffd && !strings.Contains(string(t.b), "�") {
		t.b = append(t.b, " �"...)
	}
	return t
}

var cjkWords = []string{"日本語", "テキスト", "東京", "東京都", "検索", "全文検索", "中文", "한국어", "日", "本日", "語学", "日本", "京都", "ｶﾀｶﾅ", "漢字かな"}
var compoundWords = []string{"softball", "football", "footballer", "basketball", "ball", "soft", "foot", "basket", "handball", "balls", "softly", "barefoot", "the", "a", "plays"}

// genTextFrom: like genText, with `pct` percent of the words taken from `special`
func genTextFrom(r *hlib.Rand, runes int, special []string, pct int) text {
	var t text
	n := 0
	for n < runes || len(t.words) == 0 {
		var w string
		if r.Chance(pct) {
			w = special[r.Intn(len(special))]
		} else {
			w = asciiWords[r.Intn(len(asciiWords))]
		}
		st := len(t.b)
		t.b = append(t.b, w...)
		t.spans = append(t.spans, [2]int{st, len(t.b)})
		t.words = append(t.words, w)
		n += utf8.RuneCountInString(w)
		if n < runes || r.Chance(20) {
			s := seps[r.Intn(len(seps))]
			t.b = append(t.b, s...)
			n += utf8.RuneCountInString(s)
		}
	}
	return t
}

var fsizes = []int{1, 5, 20, 100, 200}

func pickSize(r *hlib.Rand) int { return fsizes[r.Weighted(2, 4, 4, 2, 1)] }

func pickRunes(r *hlib.Rand, fsize int, tier string) int {
	switch r.Weighted(3, 2, 4) {
	case 0:
		return 1 + r.Intn(fsize/2+1)
	case 1:
		return fsize + r.Intn(3) - 1
	default:
		m := fsize * (3 + r.Intn(10))
		lim := 260
		if tier == "thorough" {
			lim = 700
		}
		if m > lim {
			m = lim + r.Intn(lim/4)
		}
		return m
	}
}

// malformed / arbitrary byte strings
func genBytes(r *hlib.Rand, n int) []byte {
	frag := [][]byte{{0x80}, {0xBF}, {0xC0, 0x80}, {0xC1, 0xBF}, {0xC2}, {0xE0, 0x80, 0x80}, {0xE0, 0xA0}, {0xED, 0xA0, 0x80}, {0xED, 0x9F, 0xBF},
		{0xEF, 0xBF, 0xBD}, {0xEF, 0xBF}, {0xF0, 0x90, 0x80, 0x80}, {0xF0, 0x8F, 0xBF, 0xBF}, {0xF4, 0x8F, 0xBF, 0xBF}, {0xF4, 0x90, 0x80, 0x80}, {0xF5}, {0xFF},
		{0xF0, 0x9F, 0x98}, {0xE2, 0x80, 0xA6}, {0x1b, '[', '4', '3', 'm'}, {0x1b, '[', '0', 'm'}, []byte("<mark>"), []byte("&lt;"), {0xC3, 0xA9}, {0xE6, 0x97, 0xA5}, {0xF0, 0x9F, 0x98, 0x80}}
	var b []byte
	for len(b) < n {
		switch r.Weighted(4, 3, 2) {
		case 0:
			b = append(b, frag[r.Intn(len(frag))]...)
		case 1:
			b = append(b, byte('a'+r.Intn(26)))
		default:
			b = append(b, byte(r.Intn(256)))
		}
	}
	return b
}

// search-like locations: spans of some words, terms = the lowercased word, sorted by start
func wordLocs(r *hlib.Rand, t text, pct int) []loc {
	var ls []loc
	for i, sp := range t.spans {
		if r.Chance(pct) || (i == 0 && r.Chance(50)) || (i == len(t.spans)-1 && r.Chance(50)) {
			ls = append(ls, loc{term: strings.ToLower(t.words[i]), pos: i + 1, start: sp[0], end: sp[1]})
		}
	}
	return ls
}

func advLocs(r *hlib.Rand, n int, t text) []loc {
	terms := []string{"a", "b", "c", "é"}
	k := 1 + r.Intn(6)
	var ls []loc
	rnd := func() int {
		switch r.Weighted(6, 1, 1) {
		case 0:
			return r.Intn(n + 1)
		case 1:
			return -1 - r.Intn(3)
		default:
			return n + 1 + r.Intn(4)
		}
	}
	mode := r.Intn(10)
	if mode >= 8 && len(t.spans) == 0 {
		mode = r.Intn(8)
	}
	if mode == 8 { // shingle-like: a word span and spans from the same Start to the end of the next words (equal Starts, different Ends)
		for g := 0; g < 1+r.Intn(2); g++ {
			i := r.Intn(len(t.spans))
			for j := i; j < len(t.spans) && j < i+1+r.Intn(3); j++ {
				ls = append(ls, loc{term: fmt.Sprintf("s%d_%d", i, j), pos: i + 1, start: t.spans[i][0], end: t.spans[j][1]})
			}
		}
		if r.Chance(50) {
			i := r.Intn(len(t.spans))
			ls = append(ls, loc{term: "w", pos: i + 1, start: t.spans[i][0], end: t.spans[i][1]})
		}
		if r.Chance(50) {
			shuffle(r, ls)
		}
		return ls
	}
	if mode == 9 { // compound-like: a word span and pieces of it on rune boundaries (nested locations)
		for g := 0; g < 1+r.Intn(2); g++ {
			i := r.Intn(len(t.spans))
			sp := t.spans[i]
			ls = append(ls, loc{term: fmt.Sprintf("c%d", i), pos: i + 1, start: sp[0], end: sp[1]})
			var bd []int
			for o := sp[0]; o <= sp[1]; {
				bd = append(bd, o)
				if o == sp[1] {
					break
				}
				_, sz := utf8.DecodeRune(t.b[o:sp[1]])
				o += sz
			}
			for p := 0; p < 1+r.Intn(2) && len(bd) > 2; p++ {
				x := r.Intn(len(bd) - 1)
				y := x + 1 + r.Intn(len(bd)-1-x)
				ls = append(ls, loc{term: fmt.Sprintf("c%d_%d", i, p), pos: i + 1, start: bd[x], end: bd[y]})
			}
		}
		if r.Chance(50) {
			shuffle(r, ls)
		}
		return ls
	}
	for i := 0; i < k; i++ {
		var a, b int
		switch mode {
		case 0: // in range, arbitrary offsets (mid-rune possible), any order
			a = r.Intn(n + 1)
			b = a + r.Intn(n-a+1)
		case 1: // overlapping chain
			a = (i * 3) % (n + 1)
			b = a + 2 + r.Intn(4)
		case 2: // nested
			a = i
			b = n - i
			if b < a {
				b = a
			}
		case 3: // anything, including negative / beyond / reversed
			a = rnd()
			b = rnd()
		case 4: // beyond the end only
			a = r.Intn(n + 1)
			b = a + r.Intn(n+4)
		case 5: // word spans but shuffled / duplicated
			if len(t.spans) > 0 {
				sp := t.spans[r.Intn(len(t.spans))]
				a, b = sp[0], sp[1]
			}
		case 6: // negative starts only
			a = -1 - r.Intn(3)
			b = r.Intn(n + 1)
		default: // empty spans and spans ending before they start by one
			a = r.Intn(n + 1)
			b = a - r.Intn(2)
		}
		ls = append(ls, loc{term: terms[r.Intn(len(terms))], pos: i + 1, start: a, end: b})
	}
	if mode != 0 && mode != 3 && mode != 5 && r.Chance(70) {
		sort.SliceStable(ls, func(i, j int) bool { return ls[i].start < ls[j].start })
	}
	return ls
}

// limitTies keeps the number of Less-sorted orders of a location set enumerable by the model driver (it caps at
// 48 orders per line): a Start that occurs with several Ends keeps at most 3 spans, one location each, and at most
// 2 Starts may have several Ends (the others keep the locations of their first span). Locations with the same span
// are interchangeable for everything downstream of the sort and are not limited.
func limitTies(ls []loc) []loc {
	ends := map[int][]int{} // distinct Ends per Start, in order of appearance
	for _, l := range ls {
		if l.isNil {
			continue
		}
		known := false
		for _, e := range ends[l.start] {
			if e == l.end {
				known = true
			}
		}
		if !known {
			ends[l.start] = append(ends[l.start], l.end)
		}
	}
	multi := 0
	tied := map[int]bool{}
	var out []loc
	used := map[[2]int]bool{}
	for _, l := range ls {
		if l.isNil {
			out = append(out, l)
			continue
		}
		es := ends[l.start]
		if len(es) == 1 {
			out = append(out, l)
			continue
		}
		if !tied[l.start] && multi < 2 {
			tied[l.start] = true
			multi++
		}
		if !tied[l.start] { // too many tied Starts: only the first span of this one
			if l.end == es[0] {
				out = append(out, l)
			}
			continue
		}
		rank := 0
		for i, e := range es {
			if e == l.end {
				rank = i
			}
		}
		if rank >= 3 || used[[2]int{l.start, l.end}] {
			continue
		}
		used[[2]int{l.start, l.end}] = true
		out = append(out, l)
	}
	return out
}

func shuffle(r *hlib.Rand, ls []loc) {
	for i := len(ls) - 1; i > 0; i-- {
		j := r.Intn(i + 1)
		ls[i], ls[j] = ls[j], ls[i]
	}
}

func hasTies(ls []loc) bool {
	seen := map[int]bool{}
	for _, l := range ls {
		if l.isNil {
			continue
		}
		if seen[l.start] {
			return true
		}
		seen[l.start] = true
	}
	return false
}

func kindOf(r *hlib.Rand) string {
	if r.Bool() {
		return "html"
	}
	return "ansi"
}

func (h) Gen(r *hlib.Rand, tier string, scale int, emit func(string)) {
	n := 700 * scale
	if tier == "thorough" {
		n = 9000 * scale
	}
	// (c) primitives
	for i := 0; i < n; i++ {
		var b []byte
		if r.Chance(30) {
			b = genText(r, 1+r.Intn(6), r.Chance(30)).b
		} else {
			b = genBytes(r, r.Intn(9))
		}
		if r.Chance(50) && len(b) > 0 {
			b = b[:r.Intn(len(b)+1)]
		}
		hx := hlib.Hex(b)
		emit("dr " + hx)
		emit("dlr " + hx)
		emit("rc " + hx)
		emit("valid " + hx)
		if i%4 == 0 {
			emit("esc " + hx)
		}
	}
	// (a) end to end
	analyzers := []string{"standard", "simple", "web", "keyword", "en", "cjk"}
	qtypes := []string{"match", "match", "match", "phrase", "prefix", "fuzzy", "term", "matchall"}
	for i := 0; i < n; i++ {
		fs := pickSize(r)
		an := analyzers[r.Weighted(6, 3, 2, 1, 2, 3)]
		var t text
		if an == "cjk" {
			t = genTextFrom(r, pickRunes(r, fs, tier), cjkWords, 80)
		} else {
			t = genText(r, pickRunes(r, fs, tier), r.Chance(12))
		}
		qt := qtypes[r.Intn(len(qtypes))]
		var q string
		pick := func() string {
			switch r.Weighted(3, 3, 4) {
			case 0:
				return t.words[0]
			case 1:
				return t.words[len(t.words)-1]
			default:
				return t.words[r.Intn(len(t.words))]
			}
		}
		switch qt {
		case "match":
			ws := []string{}
			for k := 0; k < 1+r.Intn(3); k++ {
				ws = append(ws, pick())
			}
			q = strings.Join(ws, " ")
		case "phrase":
			j := r.Intn(len(t.words))
			q = t.words[j]
			if j+1 < len(t.words) {
				q += " " + t.words[j+1]
			}
		case "prefix":
			w := strings.ToLower(pick())
			_, sz := utf8.DecodeRuneInString(w)
			q = w[:sz]
		case "fuzzy", "term":
			q = strings.ToLower(pick())
		default:
			q = "x"
		}
		num := []int{1, 1, 2, 3, 5}[r.Intn(5)]
		emit(fmt.Sprintf("e2e %s %s %s %d %d %s %s", an, qt, kindOf(r), fs, num, hlib.Hex(t.b), hlib.Hex([]byte(q))))
	}
	// (a') analyzers that emit tokens with equal Starts / nested tokens, and multi-valued fields
	xan := []string{"shingle", "dict", "edgengram", "ngram", "cjkuni"}
	for i := 0; i < n/2; i++ {
		fs := pickSize(r)
		an := xan[r.Weighted(4, 4, 1, 1, 2)]
		var t text
		switch an {
		case "dict": // its offsets count runes (C18): ASCII words only
			t = genTextFrom(r, pickRunes(r, fs, tier), compoundWords, 100)
		case "cjkuni":
			t = genTextFrom(r, pickRunes(r, fs, tier), cjkWords, 80)
		default:
			t = genText(r, pickRunes(r, fs, tier), false)
		}
		num := []int{1, 1, 2, 3, 5}[r.Intn(5)]
		emit(fmt.Sprintf("e2ex %s %s %d %d %s %d", an, kindOf(r), fs, num, hlib.Hex(t.b), r.Intn(1<<30)))
	}
	man := []string{"standard", "simple", "en", "cjk"}
	for i := 0; i < n/4; i++ {
		fs := pickSize(r)
		an := man[r.Weighted(5, 2, 2, 2)]
		nv := 2 + r.Intn(2)
		var hx []string
		for k := 0; k < nv; k++ {
			var t text
			if an == "cjk" {
				t = genTextFrom(r, pickRunes(r, fs, "quick"), cjkWords, 80)
			} else {
				t = genText(r, pickRunes(r, fs, "quick"), false)
			}
			hx = append(hx, hlib.Hex(t.b))
		}
		num := []int{1, 1, 2, 3}[r.Intn(4)]
		emit(fmt.Sprintf("e2em %s %s %d %d %s %d", an, kindOf(r), fs, num, strings.Join(hx, ","), r.Intn(1<<30)))
	}
	// (b) direct calls
	for i := 0; i < 3*n; i++ {
		fs := pickSize(r)
		var t text
		arbitrary := r.Chance(20)
		if arbitrary {
			t = text{b: genBytes(r, r.Intn(4*fs+8))}
		} else {
			t = genText(r, pickRunes(r, fs, tier), r.Chance(12))
		}
		var ls []loc
		adversarial := arbitrary || r.Chance(35)
		if adversarial {
			ls = advLocs(r, len(t.b), t)
		} else {
			ls = wordLocs(r, t, []int{5, 20, 60}[r.Intn(3)])
			if r.Chance(5) {
				ls = nil
			}
		}
		hx := hlib.Hex(t.b)
		emit(fmt.Sprintf("frag %d %s %s", fs, hx, encLocs(ls)))
		emit("merge " + encLocs(ls))
		num := []int{1, 1, 2, 3, 5, 0}[r.Intn(6)]
		emit(fmt.Sprintf("best %s %d %d %s %s", kindOf(r), fs, num, hx, encLocs(limitTies(ls))))
		// formatter on a fragment chosen independently of the fragmenter
		a, b := 0, len(t.b)
		if len(t.spans) > 0 && !adversarial {
			i1, i2 := r.Intn(len(t.spans)), r.Intn(len(t.spans))
			if i1 > i2 {
				i1, i2 = i2, i1
			}
			a, b = t.spans[i1][0], t.spans[i2][1]
			if r.Chance(30) {
				a = 0
			}
			if r.Chance(30) {
				b = len(t.b)
			}
		} else if adversarial && r.Chance(50) {
			a = r.Intn(len(t.b) + 1)
			b = a + r.Intn(len(t.b)-a+1)
		}
		fl := ls
		if r.Chance(60) { // what BestFragments passes: the merged list
			tls := toTLs(ls)
			tls.MergeOverlapping()
			fl = decLocs(showTLs(tls))
		}
		emit(fmt.Sprintf("fmt %s %s %d %d %s", kindOf(r), hx, a, b, encLocs(fl)))
	}
}

// ---------------------------------------------------------------- execution

func newAnalyzer(name string) *analysis.Analyzer {
	switch name {
	case "simple":
		return analyzer.NewSimpleAnalyzer()
	case "web":
		return analyzer.NewWebAnalyzer()
	case "keyword":
		return analyzer.NewKeywordAnalyzer()
	case "en":
		return en.NewAnalyzer()
	case "cjk":
		return cjk.Analyzer()
	}
	return analyzer.NewStandardAnalyzer()
}

// analyzers assembled from bundled components whose tokens share Starts or are nested in one another
func newXAnalyzer(name string) *analysis.Analyzer {
	base := func(fs ...analysis.TokenFilter) *analysis.Analyzer {
		return &analysis.Analyzer{Tokenizer: tokenizer.NewUnicodeTokenizer(), TokenFilters: append([]analysis.TokenFilter{token.NewLowerCaseFilter()}, fs...)}
	}
	switch name {
	case "shingle":
		return base(token.NewShingleFilter(2, 3, true, " ", "_"))
	case "dict":
		d := analysis.NewTokenMap()
		for _, w := range []string{"soft", "ball", "foot", "basket", "hand", "bare", "all", "ask"} {
			d.AddToken(w)
		}
		return base(token.NewDictionaryCompoundFilter(d, 5, 3, 15, false))
	case "edgengram":
		return base(token.NewEdgeNgramFilter(token.FRONT, 1, 4))
	case "ngram":
		return base(token.NewNgramFilter(2, 3))
	case "cjkuni": // CJK bigrams with the unigrams kept (NewBigramFilter(true))
		return base(cjk.NewWidthFilter(), cjk.NewBigramFilter(true))
	}
	return nil
}

// runTerms: index `values` as one field, search a should-query of term queries, return the stored values and the
// locations of the field
func runTerms(a *analysis.Analyzer, values [][]byte, terms []string) (stored [][]byte, ls []loc, matched bool, err error) {
	w, err := bluge.OpenWriter(bluge.InMemoryOnlyConfig())
	if err != nil {
		return nil, nil, false, err
	}
	defer w.Close()
	doc := bluge.NewDocument("d")
	for _, v := range values {
		doc.AddField(bluge.NewTextField("body", string(v)).StoreValue().HighlightMatches().WithAnalyzer(a))
	}
	if err = w.Update(doc.ID(), doc); err != nil {
		return nil, nil, false, err
	}
	rd, err := w.Reader()
	if err != nil {
		return nil, nil, false, err
	}
	defer rd.Close()
	q := bluge.NewBooleanQuery()
	for _, t := range terms {
		q.AddShould(bluge.NewTermQuery(t).SetField("body"))
	}
	dmi, err := rd.Search(context.Background(), bluge.NewTopNSearch(5, q).IncludeLocations())
	if err != nil {
		return nil, nil, false, err
	}
	m, err := dmi.Next()
	if err != nil || m == nil {
		return nil, nil, false, err
	}
	err = m.VisitStoredFields(func(field string, value []byte) bool {
		if field == "body" {
			stored = append(stored, append([]byte{}, value...))
		}
		return true
	})
	if err != nil {
		return nil, nil, true, err
	}
	tlm := m.Locations["body"]
	ts := make([]string, 0, len(tlm))
	for t := range tlm {
		ts = append(ts, t)
	}
	sort.Strings(ts)
	for _, t := range ts {
		for _, l := range tlm[t] {
			ls = append(ls, loc{term: t, pos: l.Pos, start: l.Start, end: l.End})
		}
	}
	return stored, ls, true, nil
}

// pickTerms: the term of a random token, the terms of tokens overlapping it, sometimes one more
func pickTerms(r *hlib.Rand, toks analysis.TokenStream) []string {
	if len(toks) == 0 {
		return nil
	}
	seen := map[string]bool{}
	var out []string
	add := func(t *analysis.Token) {
		if !seen[string(t.Term)] && len(out) < 4 {
			seen[string(t.Term)] = true
			out = append(out, string(t.Term))
		}
	}
	for g := 0; g < 1+r.Intn(2); g++ {
		a := toks[r.Intn(len(toks))]
		add(a)
		for _, t := range toks {
			if t.Start < a.End && a.Start < t.End && r.Chance(60) {
				add(t)
			}
		}
	}
	if r.Chance(40) {
		add(toks[r.Intn(len(toks))])
	}
	return out
}

// which findings of this property are listed in known_findings.json (any status): their oracles are judged;
// the others are reported by the driver as `ok` plus an `open-finding:` counter
var findingReasons = map[string]string{
	"order": "equal-start-locations-order-dependent-output",
	"marks": "merge-overlapping-mark-cut-at-nested-end",
	"multi": "multi-valued-field-locations-of-all-values-applied",
}

var quietCache = map[string]string{}

func quietFor(work string, reasons ...string) string {
	key := work + "/" + strings.Join(reasons, ",")
	if q, ok := quietCache[key]; ok {
		return q
	}
	listed := map[string]bool{}
	if os.Getenv("VERIF_C20_JUDGE_ALL") != "" {
		for _, sig := range findingReasons {
			listed[sig] = true
		}
	}
	roots := []string{filepath.Dir(filepath.Dir(work))}
	if abs, err := filepath.Abs(work); err == nil {
		roots = append(roots, filepath.Dir(filepath.Dir(abs)))
	}
	if exe, err := os.Executable(); err == nil {
		roots = append(roots, filepath.Dir(filepath.Dir(exe)))
	}
	for _, root := range roots {
		b, err := os.ReadFile(filepath.Join(root, "known_findings.json"))
		if err != nil {
			continue
		}
		var kf struct {
			Findings []struct {
				Property  string `json:"property"`
				Signature string `json:"signature"`
			} `json:"findings"`
		}
		if json.Unmarshal(b, &kf) == nil {
			for _, f := range kf.Findings {
				if f.Property == "C20" {
					listed[f.Signature] = true
				}
			}
			break
		}
	}
	var q []string
	for _, rs := range reasons {
		if !listed[findingReasons[rs]] {
			q = append(q, rs)
		}
	}
	res := ""
	if len(q) > 0 {
		res = " quiet=" + strings.Join(q, ",")
	}
	quietCache[key] = res
	return res
}

// e2e: index one document, search it, return the stored bytes and the locations of field "body"
func runSearch(an, qt string, txt []byte, q string) (stored []byte, ls []loc, matched bool, err error) {
	cfg := bluge.InMemoryOnlyConfig()
	w, err := bluge.OpenWriter(cfg)
	if err != nil {
		return nil, nil, false, err
	}
	defer w.Close()
	a := newAnalyzer(an)
	doc := bluge.NewDocument("d").AddField(bluge.NewTextField("body", string(txt)).StoreValue().HighlightMatches().WithAnalyzer(a))
	if err = w.Update(doc.ID(), doc); err != nil {
		return nil, nil, false, err
	}
	rd, err := w.Reader()
	if err != nil {
		return nil, nil, false, err
	}
	defer rd.Close()
	var query bluge.Query
	switch qt {
	case "match":
		query = bluge.NewMatchQuery(q).SetField("body").SetAnalyzer(a)
	case "phrase":
		query = bluge.NewMatchPhraseQuery(q).SetField("body").SetAnalyzer(a)
	case "prefix":
		query = bluge.NewPrefixQuery(q).SetField("body")
	case "fuzzy":
		query = bluge.NewFuzzyQuery(q).SetField("body").SetFuzziness(1)
	case "term":
		query = bluge.NewTermQuery(q).SetField("body")
	default:
		query = bluge.NewMatchAllQuery()
	}
	dmi, err := rd.Search(context.Background(), bluge.NewTopNSearch(5, query).IncludeLocations())
	if err != nil {
		return nil, nil, false, err
	}
	m, err := dmi.Next()
	if err != nil || m == nil {
		return nil, nil, false, err
	}
	err = m.VisitStoredFields(func(field string, value []byte) bool {
		if field == "body" {
			stored = append([]byte{}, value...)
		}
		return true
	})
	if err != nil {
		return nil, nil, true, err
	}
	tlm := m.Locations["body"]
	terms := make([]string, 0, len(tlm))
	for t := range tlm {
		terms = append(terms, t)
	}
	sort.Strings(terms)
	for _, t := range terms {
		for _, l := range tlm[t] {
			ls = append(ls, loc{term: t, pos: l.Pos, start: l.Start, end: l.End})
		}
	}
	return stored, ls, true, nil
}

func doFrag(fsize int, orig []byte, ls []loc) string {
	return hlib.Catch(func() string {
		fr := highlight.NewSimpleFragmenterSized(fsize).Fragment(orig, toTLs(ls))
		if len(fr) == 0 {
			return "[]"
		}
		parts := make([]string, len(fr))
		for i, f := range fr {
			parts[i] = fmt.Sprintf("%d:%d", f.Start, f.End)
		}
		return strings.Join(parts, ",")
	})
}

// doBest calls BestFragments `times` times on the same map (a fresh highlighter each time) and returns the sorted
// set of distinct outputs joined by '|': OrderTermLocations ranges over a map and sorts with the unstable sort.Sort
func doBest(kind string, fsize, num int, orig []byte, ls []loc, times int) string {
	tlm := toTLM(ls)
	seen := map[string]bool{}
	var outs []string
	for i := 0; i < times; i++ {
		if i%4 == 3 { // a map built in another insertion order
			rev := append([]loc{}, ls...)
			for a, b := 0, len(rev)-1; a < b; a, b = a+1, b-1 {
				rev[a], rev[b] = rev[b], rev[a]
			}
			tlm = toTLM(rev)
		}
		res := hlib.Catch(func() string {
			return showStrings(highlighter(kind, fsize).BestFragments(tlm, orig, num))
		})
		if !seen[res] {
			seen[res] = true
			outs = append(outs, res)
		}
	}
	sort.Strings(outs)
	return strings.Join(outs, "|")
}

func timesFor(ls []loc) int {
	if hasTies(ls) {
		return 12
	}
	return 2
}

func (h) Exec(line string, out func(string, string), st *hlib.Stats, work string) {
	w := strings.Split(line, " ")
	st.Count("op:" + w[0])
	emit := func(op, res string, nontrivial bool) {
		st.Case(op, nontrivial)
		switch {
		case res == "panic", res == "[]":
			st.Count("res:" + res)
		default:
			st.Count("res:value")
		}
		out(op, res)
	}
	nonASCII := func(b []byte) bool {
		for _, c := range b {
			if c >= 0x80 {
				return true
			}
		}
		return false
	}
	switch w[0] {
	case "dr":
		b := unhex(w[1])
		r, n := utf8.DecodeRune(b)
		emit(line, fmt.Sprintf("%d %d", r, n), nonASCII(b))
	case "dlr":
		b := unhex(w[1])
		r, n := utf8.DecodeLastRune(b)
		emit(line, fmt.Sprintf("%d %d", r, n), nonASCII(b))
	case "rc":
		b := unhex(w[1])
		emit(line, strconv.Itoa(utf8.RuneCount(b)), nonASCII(b))
	case "valid":
		b := unhex(w[1])
		emit(line, strconv.FormatBool(utf8.Valid(b)), nonASCII(b))
	case "esc":
		b := unhex(w[1])
		emit(line, hlib.Hex([]byte(html.EscapeString(string(b)))), len(b) > 0)
	case "merge":
		ls := decLocs(w[1])
		res := hlib.Catch(func() string {
			tls := toTLs(ls)
			tls.MergeOverlapping()
			return showTLs(tls)
		})
		emit(line, res, len(ls) > 1)
	case "frag":
		fs, _ := strconv.Atoi(w[1])
		orig := unhex(w[2])
		ls := decLocs(w[3])
		emit(line, doFrag(fs, orig, ls), len(ls) > 0 || nonASCII(orig))
	case "fmt":
		orig := unhex(w[2])
		a, _ := strconv.Atoi(w[3])
		b, _ := strconv.Atoi(w[4])
		ls := decLocs(w[5])
		res := hlib.Catch(func() string {
			var f highlight.FragmentFormatter
			if w[1] == "html" {
				f = highlight.NewHTMLFragmentFormatter()
			} else {
				f = highlight.NewANSIFragmentFormatter()
			}
			return hlib.Hex([]byte(f.Format(&highlight.Fragment{Orig: orig, Start: a, End: b}, toTLs(ls))))
		})
		st.Count("fmt:" + w[1])
		emit(line, res, len(ls) > 0 || nonASCII(orig))
	case "best", "beste", "bestx", "bestm": // beste/bestx/bestm arrive here only from a replay of an emitted line
		if strings.HasPrefix(w[len(w)-1], "quiet=") {
			w = w[:len(w)-1]
			line = strings.Join(w, " ")
		}
		switch w[0] {
		case "bestx":
			line += quietFor(work, "order", "marks")
		case "bestm":
			line += quietFor(work, "multi")
		}
		fs, _ := strconv.Atoi(w[2])
		num, _ := strconv.Atoi(w[3])
		orig := unhex(w[4])
		ls := decLocs(w[5])
		st.Count("best:" + w[1])
		st.Count("fsize:" + w[2])
		if hasTies(ls) {
			st.Count("best:with-equal-starts")
		}
		times := timesFor(ls)
		if w[0] == "bestx" || w[0] == "bestm" {
			times = 24
		}
		res := doBest(w[1], fs, num, orig, ls, times)
		if strings.Contains(res, "|") {
			st.Count("best:several-outputs")
		}
		emit(line, res, len(ls) > 0 || nonASCII(orig))
	case "e2e":
		fs, _ := strconv.Atoi(w[4])
		num, _ := strconv.Atoi(w[5])
		txt := unhex(w[6])
		q := string(unhex(w[7]))
		stored, ls, matched, err := runSearch(w[1], w[2], txt, q)
		if err != nil {
			st.Count("e2e:error")
			out(line, "err")
			return
		}
		if !matched {
			st.Count("e2e:no-match")
			return
		}
		st.Count("e2e:matched:" + w[2])
		st.Count("e2e:analyzer:" + w[1])
		if len(ls) == 0 {
			st.Count("e2e:matched-without-locations")
		}
		if strings.Contains(string(stored), "�") {
			st.Count("e2e:text-with-U+FFFD")
		}
		stored = stored[:len(stored):len(stored)]
		hx := hlib.Hex(stored)
		// the ordered list the highlighter hands to the fragmenter
		ord := append([]loc{}, ls...)
		sort.SliceStable(ord, func(i, j int) bool { return ord[i].start < ord[j].start })
		emit(fmt.Sprintf("frag %d %s %s", fs, hx, encLocs(ord)), doFrag(fs, stored, ord), true)
		st.Count("best:" + w[3])
		st.Count("fsize:" + w[4])
		emit(fmt.Sprintf("beste %s %d %d %s %s", w[3], fs, num, hx, encLocs(ls)), doBest(w[3], fs, num, stored, ls, timesFor(ls)), true)
	case "e2ex", "e2em":
		fs, _ := strconv.Atoi(w[3])
		num, _ := strconv.Atoi(w[4])
		seed, _ := strconv.Atoi(w[6])
		pr := hlib.NewRand(uint64(seed))
		var a *analysis.Analyzer
		var values [][]byte
		if w[0] == "e2ex" {
			a = newXAnalyzer(w[1])
			values = [][]byte{unhex(w[5])}
		} else {
			a = newAnalyzer(w[1])
			for _, hx := range strings.Split(w[5], ",") {
				values = append(values, unhex(hx))
			}
		}
		if a == nil {
			out(line, "bad-op")
			return
		}
		var toks analysis.TokenStream
		for _, v := range values {
			toks = append(toks, a.Analyze(append([]byte{}, v...))...)
		}
		terms := pickTerms(pr, toks)
		which := pr.Intn(len(values))
		stored, ls, matched, err := runTerms(a, values, terms)
		if err != nil {
			st.Count(w[0] + ":error")
			out(line, "err")
			return
		}
		if !matched || len(stored) != len(values) {
			st.Count(w[0] + ":no-match")
			return
		}
		st.Count(w[0] + ":matched")
		st.Count(w[0] + ":analyzer:" + w[1])
		ties, nested := false, false
		for i, x := range ls {
			for j, y := range ls {
				if i != j && x.start == y.start && x.end != y.end {
					ties = true
				}
				if i != j && x.start <= y.start && y.end <= x.end && (x.start != y.start || x.end != y.end) {
					nested = true
				}
			}
		}
		if ties {
			st.Count(w[0] + ":equal-start-different-end")
		}
		if nested {
			st.Count(w[0] + ":nested")
		}
		ls = limitTies(ls)
		orig := stored[which]
		orig = orig[:len(orig):len(orig)]
		res := doBest(w[2], fs, num, orig, ls, 24)
		if strings.Contains(res, "|") {
			st.Count(w[0] + ":several-outputs-for-one-input")
		}
		st.Count("best:" + w[2])
		st.Count("fsize:" + w[3])
		if w[0] == "e2ex" {
			emit(fmt.Sprintf("bestx %s %d %d %s %s", w[2], fs, num, hlib.Hex(orig), encLocs(ls))+quietFor(work, "order", "marks"), res, true)
		} else {
			emit(fmt.Sprintf("bestm %s %d %d %s %s", w[2], fs, num, hlib.Hex(orig), encLocs(ls))+quietFor(work, "multi"), res, true)
		}
	default:
		out(line, "bad-op")
	}
}

func main() { hlib.Main(h{}) }

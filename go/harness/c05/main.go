// Correspondence harness for C05: concurrent batches are linearizable; readers see a prefix of that order.
//
// Script lines (one case = one concurrent run against one real index.Writer)
//
//	case <mem|fs>-<v1|v2>-<safe|unsafe> k=<K> gmp=<G> sd=<seed> gate=<percent>
//	w <wid> <ops> | <ops> | …     writer goroutine <wid>: these Writer.Batch calls, in order ("-" = empty batch);
//	                              op = ins:<id>:<body> | upd:<id>:<body> | del:<id>; call number = 100*wid + position
//	r <rid> <n>                   reader goroutine: n times Writer.Reader() + read everything + Close
//	go                            start all goroutines, wait for them, record
//	end                           close the writer
//
// What is recorded (logical clock = one atomic counter, every stamp is a fresh value):
//   - tInv / tRet around every Writer.Batch call, tReq / tGot around every Writer.Reader() call;
//   - every root swap, inside index.SetVerifTrace's "root" callback (i.e. under rootLock): epoch, creator, stamp and the
//     segments (ids, deleted bitmaps, the segment objects — their stored fields are read after the run);
//   - the persister's "persisted" callback (epoch, stamp);
//   - the first DocsMatchingTerms call that prepareSegment makes for a call (segment-plugin wrapper; the goroutine
//     tells whose call it is): stamp tPrep. A seeded share of the calls is HELD there (the gate) until some other
//     batch has been introduced, so that the window between the optimistic obsoletes and the introduction is occupied.
//
// Pair lines written on `go`, model op ## implementation result:
//
//	inv c t w=<wid> ops… ## -          prep c t ## -            ret c t ## ok|err
//	slot epoch t <c|?> <newSid|0> content ## introduceSegment          swap epoch t <creator> ## <creator>     ackp epoch t ## ok|err
//	obs <n> tReq tGot epoch content ## -                       fin tReq tGot epoch content ## -
//	explain cfg=… ## calls=N slots=M reads=R                   (the Lean checker's verdict on this history)
//	root epoch creator ## content      reader <n> epoch ## content      final epoch ## content
//
// content = sorted id.body list ("-" = empty). `who` of a slot is read from the stored field "k" (= call number) of the
// first document of the segment that is new in that root; a batch without documents leaves no segment: "?".
package main

import (
	"bufio"
	"bytes"
	"context"
	"fmt"
	"io"
	"os"
	"os/exec"
	"path/filepath"
	"runtime"
	"sort"
	"strconv"
	"strings"
	"sync"
	"sync/atomic"
	"time"

	"github.com/RoaringBitmap/roaring"
	"github.com/blugelabs/bluge"
	"github.com/blugelabs/bluge/index"
	"github.com/blugelabs/bluge/index/mergeplan"
	segment "github.com/blugelabs/bluge_segment_api"
	iceV1 "github.com/blugelabs/ice"
	iceV2 "github.com/blugelabs/ice/v2"

	"verif/harness/hlib"
)

type h struct{}

type sink interface {
	Count(key string)
	CountN(key string, n int)
	Case(key string, nontrivial bool)
}

func (h) Rule() string {
	return "one case = one concurrent run on one real index.Writer: 2–8 writer goroutines (each 1–4 Batch calls: insert 25 / " +
		"update 45 / delete 30 per op, 1–3 ops, 8% delete-only and 4% empty batches, at most 4 batches without documents per case) and " +
		"1–3 reader goroutines (2–6 Reader() calls each) over 2–4 shared ids; configurations cycle through {mem,fs}×{safe,unsafe} on " +
		"ice v1 with a shrunk merge plan (merges and persists happen) plus ice v2 with merging switched off; GOMAXPROCS 1–8, seeded " +
		"yields/sleeps in the segment plugin, the event callback and between calls; a seeded share of the calls is held in " +
		"prepareSegment's first DocsMatchingTerms until another batch was introduced; plus deterministic scenarios (a set-up batch, " +
		"then 2 or 3 conflicting calls that all read the set-up root and are introduced in a forced order: every release order of " +
		"every generated workload) and merge-window scenarios (set-up batches of growing size so that the older segment is the " +
		"smaller one, the merger parked at EventKindMergeTaskIntroductionStart with its file merge of them written, 1–3 client " +
		"goroutines deleting/updating documents of the merged segments, release, readers; the same with the merger held INSIDE the " +
		"planner (MergePlanOptions.CalcBudget: snapshot taken, task not started), half of those deleting all documents but one); " +
		"every reader also reports Snapshot.Count(); a case is non-trivial when at least two calls overlap in time, distinct by (configuration, " +
		"workload, recorded introduction order)"
}

// ---------------------------------------------------------------- documents

type doc struct{ id, body int }

func mkDoc(d doc, call int) *bluge.Document {
	bd := bluge.NewDocument(strconv.Itoa(d.id))
	bd.AddField(bluge.NewKeywordField("body", strconv.Itoa(d.body)).StoreValue())
	bd.AddField(bluge.NewStoredOnlyField("k", []byte(strconv.Itoa(call))))
	if d.body%3 == 1 {
		bd.AddField(bluge.NewTextField("t", fmt.Sprintf("alpha w%d beta", d.body%5)))
	}
	return bd
}

func docsString(ds []doc) string {
	if len(ds) == 0 {
		return "-"
	}
	sort.Slice(ds, func(i, j int) bool {
		if ds[i].id != ds[j].id {
			return ds[i].id < ds[j].id
		}
		return ds[i].body < ds[j].body
	})
	parts := make([]string, len(ds))
	for i, d := range ds {
		parts[i] = fmt.Sprintf("%d.%d", d.id, d.body)
	}
	return strings.Join(parts, ",")
}

// stored fields of one document -> (doc, call number); ok=false when they do not belong together
func digest(m map[string]string) (doc, int, bool) {
	id, e1 := strconv.Atoi(m["_id"])
	body, e2 := strconv.Atoi(m["body"])
	k, e3 := strconv.Atoi(m["k"])
	if e1 != nil || e2 != nil || e3 != nil || len(m) != 3 {
		return doc{id, 1000000000 + body}, k, false
	}
	return doc{id, body}, k, true
}

// ---------------------------------------------------------------- clock, goroutine ids, perturbation

var clock atomic.Int64

func stamp() int64 { return clock.Add(1) }

func goid() uint64 {
	var buf [48]byte
	n := runtime.Stack(buf[:], false)
	// "goroutine 123 [running]:"
	f := bytes.Fields(buf[:n])
	if len(f) < 2 {
		return 0
	}
	id, _ := strconv.ParseUint(string(f[1]), 10, 64)
	return id
}

type perturber struct {
	seed uint64
	n    atomic.Uint64
	on   bool
}

func mix(z uint64) uint64 {
	z += 0x9E3779B97F4A7C15
	z = (z ^ (z >> 30)) * 0xBF58476D1CE4E5B9
	z = (z ^ (z >> 27)) * 0x94D049BB133111EB
	return z ^ (z >> 31)
}

// yield at a seam: nothing / Gosched / a short sleep, decided by (seed, site, how often we came here)
func (p *perturber) yield(site uint64) {
	if p == nil || !p.on {
		return
	}
	x := mix(p.seed ^ (site * 0x51) ^ p.n.Add(1)<<8)
	switch v := x % 100; {
	case v < 55:
	case v < 85:
		runtime.Gosched()
	default:
		time.Sleep(time.Duration(20+(x>>8)%180) * time.Microsecond)
	}
}

// ---------------------------------------------------------------- the segment-plugin wrapper and the gate

type gseg struct {
	segment.Segment
	rn *run
}

func (g *gseg) DocsMatchingTerms(terms []segment.Term) (*roaring.Bitmap, error) {
	g.rn.inPrepare()
	g.rn.pt.yield(3)
	return g.Segment.DocsMatchingTerms(terms)
}

func unwrap(segs []segment.Segment) []segment.Segment {
	out := make([]segment.Segment, len(segs))
	for i, s := range segs {
		if g, ok := s.(*gseg); ok {
			out[i] = g.Segment
		} else {
			out[i] = s
		}
	}
	return out
}

func basePlugin(ver int) *index.SegmentPlugin {
	if ver == 2 {
		return &index.SegmentPlugin{Type: iceV2.Type, Version: iceV2.Version, New: iceV2.New, Load: iceV2.Load, Merge: iceV2.Merge}
	}
	return &index.SegmentPlugin{Type: iceV1.Type, Version: iceV1.Version, New: iceV1.New, Load: iceV1.Load, Merge: iceV1.Merge}
}

func wrapPlugin(ic index.Config, ver int, rn *run) index.Config {
	base := basePlugin(ver)
	return ic.WithSegmentPlugin(&index.SegmentPlugin{
		Type:    base.Type,
		Version: base.Version,
		New: func(results []segment.Document, normCalc func(string, int) float32) (segment.Segment, uint64, error) {
			rn.pt.yield(1)
			s, n, err := base.New(results, normCalc)
			if err != nil {
				return s, n, err
			}
			return &gseg{Segment: s, rn: rn}, n, nil
		},
		Load: func(d *segment.Data) (segment.Segment, error) {
			rn.pt.yield(2)
			s, err := base.Load(d)
			if err != nil {
				return s, err
			}
			return &gseg{Segment: s, rn: rn}, nil
		},
		Merge: func(segs []segment.Segment, drops []*roaring.Bitmap, n int) segment.Merger {
			rn.pt.yield(4)
			return base.Merge(unwrap(segs), drops, n)
		},
	})
}

// ---------------------------------------------------------------- one run

type callRec struct {
	c, wid       int
	ops          string
	tInv, tRet   int64
	tPrep        int64
	err          error
	prepSeen     bool // first DocsMatchingTerms of prepareSegment already seen
	victim       bool
	gateWaited   bool
	gateReleased bool
}

type segRec struct {
	sid     uint64
	seg     segment.Segment
	deleted []uint32
}

type rootRec struct {
	epoch   uint64
	creator string
	t       int64
	segs    []segRec
}

type ackRec struct {
	epoch uint64
	t     int64
	ok    bool
}

type obsRec struct {
	n          int
	tReq, tGot int64
	epoch      uint64
	content    string
	count      int64 // Snapshot.Count() of the reader
	fault      string
}

type run struct {
	w    *index.Writer
	bcfg bluge.Config
	pt   *perturber

	mu        sync.Mutex
	roots     []*rootRec
	acks      []ackRec
	byGo      map[uint64]*callRec // writer goroutine -> its current call
	held      map[segment.Segment]bool
	recording bool

	introSwaps atomic.Int64 // root swaps by introduceSegment so far
	order      []int        // forced introduction order (call numbers) of a deterministic scenario, or nil
	orderBase  int64        // introSwaps when the concurrent part started
	arrived    atomic.Int64 // calls of `order` that have read their root and stand at the gate
	inBatch    atomic.Int64 // Batch calls in flight
	waiting    atomic.Int64 // of those, held in the gate
	gatePct    int

	// merge-window scenario: the merger is parked at EventKindMergeTaskIntroductionStart (merged segment written,
	// merge not yet handed to the introducer) while conflicting calls are introduced
	mw        bool
	mwKind    int // 1: hold at EventKindMergeTaskIntroductionStart (merged segment written); 2: hold inside the planner
	// (MergePlanOptions.CalcBudget: the merger has taken its snapshot, the merge task has not started)
	parkArmed atomic.Bool
	parkHit   chan struct{}
	parkGo    chan struct{}
	parkOnce  sync.Once
	goOnce    sync.Once
	tPark     atomic.Int64
	tRelease  int64

	calls []*callRec
	obs   []*obsRec
	obsMu sync.Mutex
}

// called on the merger goroutine (EventCallback)
func (rn *run) park() {
	if !rn.parkArmed.Load() {
		return
	}
	first := false
	rn.parkOnce.Do(func() { first = true })
	if !first {
		return
	}
	rn.tPark.Store(stamp())
	close(rn.parkHit)
	select {
	case <-rn.parkGo:
	case <-time.After(8 * time.Second): // never hold the writer for good
	}
}

func (rn *run) releasePark() {
	rn.goOnce.Do(func() { close(rn.parkGo) })
}

var cur *run
var curDir string
var curCfg string
var curScript []string
var caseNo int

// called from gseg.DocsMatchingTerms: is this prepareSegment of a registered call (writer goroutine)?
func (rn *run) inPrepare() {
	id := goid()
	rn.mu.Lock()
	cr := rn.byGo[id]
	if cr == nil || cr.prepSeen {
		rn.mu.Unlock()
		return
	}
	cr.prepSeen = true
	cr.tPrep = stamp()
	victim := cr.victim
	rn.mu.Unlock()
	if pos := rn.orderPos(cr.c); pos >= 0 {
		// deterministic scenario: every call reads the same root, then they are introduced in the forced order
		cr.gateWaited = true
		rn.arrived.Add(1)
		deadline := time.Now().Add(300 * time.Millisecond)
		for rn.arrived.Load() < int64(len(rn.order)) && time.Now().Before(deadline) {
			time.Sleep(20 * time.Microsecond)
		}
		deadline = time.Now().Add(300 * time.Millisecond)
		for rn.introSwaps.Load()-rn.orderBase < int64(pos) && time.Now().Before(deadline) {
			time.Sleep(20 * time.Microsecond)
		}
		if rn.introSwaps.Load()-rn.orderBase >= int64(pos) && pos > 0 {
			cr.gateReleased = true
		}
		return
	}
	if !victim {
		return
	}
	// the gate: hold this call between its currentSnapshot() and its send on s.introductions until another batch
	// has been introduced (or nobody else is making progress, or 15 ms passed)
	start := rn.introSwaps.Load()
	rn.waiting.Add(1)
	deadline := time.Now().Add(15 * time.Millisecond)
	cr.gateWaited = true
	for {
		if rn.introSwaps.Load() > start {
			cr.gateReleased = true
			break
		}
		if rn.inBatch.Load()-rn.waiting.Load() <= 0 || time.Now().After(deadline) {
			break
		}
		time.Sleep(50 * time.Microsecond)
	}
	rn.waiting.Add(-1)
}

func (rn *run) orderPos(c int) int {
	for i, x := range rn.order {
		if x == c {
			return i
		}
	}
	return -1
}

func (rn *run) trace(w *index.Writer, kind string, snap *index.Snapshot, x uint64) {
	if snap == nil {
		return
	}
	switch kind {
	case "persisted":
		t := stamp()
		rn.mu.Lock()
		if rn.recording {
			rn.acks = append(rn.acks, ackRec{epoch: snap.VerifEpoch(), t: t, ok: x == 0})
		}
		rn.mu.Unlock()
		return
	case "root":
	default:
		return
	}
	// under rootLock
	rec := &rootRec{epoch: snap.VerifEpoch(), creator: snap.VerifCreator(), t: stamp()}
	rn.mu.Lock()
	defer rn.mu.Unlock()
	if !rn.recording {
		return
	}
	for _, ss := range snap.Segments() {
		sr := segRec{sid: ss.ID()}
		if d := ss.Deleted(); d != nil {
			sr.deleted = d.ToArray()
		}
		if sg, ok := ss.(interface{ Segment() segment.Segment }); ok {
			seg := sg.Segment()
			sr.seg = seg
			if !rn.held[seg] {
				if rc, ok := seg.(interface{ AddRef() }); ok {
					rc.AddRef()
					rn.held[seg] = true
				}
			}
		}
		rec.segs = append(rec.segs, sr)
	}
	rn.roots = append(rn.roots, rec)
	if rec.creator == "introduceSegment" {
		rn.introSwaps.Add(1)
	}
}

// ---------------------------------------------------------------- reading

type storedAcc struct{ m map[string]string }

func (a *storedAcc) visit(field string, value []byte) bool {
	if a.m == nil {
		a.m = map[string]string{}
	}
	if _, dup := a.m[field]; dup {
		a.m[field] += "\x00dup"
	} else {
		a.m[field] = string(value)
	}
	return true
}

// what a reader shows: every document match-all finds, with its stored fields
func readSnapshot(snap *index.Snapshot, cfg bluge.Config) (string, int64, string) {
	req := bluge.NewAllMatches(bluge.NewMatchAllQuery())
	searcher, err := req.Searcher(snap, cfg)
	if err != nil {
		return "", -1, "err:searcher"
	}
	it, err := req.Collector().Collect(context.Background(), req.Aggregations(), searcher)
	if err != nil {
		return "", -1, "err:collect"
	}
	var ds []doc
	for {
		m, err := it.Next()
		if err != nil {
			return "", -1, "err:next"
		}
		if m == nil {
			break
		}
		var acc storedAcc
		if err := m.VisitStoredFields(acc.visit); err != nil {
			return "", -1, "err:stored"
		}
		d, _, _ := digest(acc.m)
		ds = append(ds, d)
	}
	n, err := snap.Count()
	if err != nil {
		return "", -1, "err:count"
	}
	// Snapshot.Count() is reported next to the documents match-all finds: both are judged against the prefix state
	return docsString(ds), int64(n), ""
}

type segDocs struct {
	docs  []doc
	calls []int
	bad   int
}

// stored fields of every document of a segment object (main goroutine, after the run)
func readSeg(seg segment.Segment) *segDocs {
	out := &segDocs{}
	func() {
		defer func() {
			if e := recover(); e != nil {
				out.bad++
			}
		}()
		n := seg.Count()
		for i := uint64(0); i < n; i++ {
			var acc storedAcc
			if err := seg.VisitStoredFields(i, acc.visit); err != nil {
				out.bad++
			}
			d, k, ok := digest(acc.m)
			if !ok {
				out.bad++
			}
			out.docs = append(out.docs, d)
			out.calls = append(out.calls, k)
		}
	}()
	return out
}

// ---------------------------------------------------------------- the case

func parseOps(s string, call int) (*index.Batch, error) {
	b := index.NewBatch()
	for _, op := range strings.Fields(s) {
		if op == "-" {
			continue
		}
		p := strings.Split(op, ":")
		if len(p) < 2 {
			return nil, fmt.Errorf("bad op %q", op)
		}
		id, e := strconv.Atoi(p[1])
		if e != nil {
			return nil, e
		}
		switch p[0] {
		case "ins", "upd":
			if len(p) != 3 {
				return nil, fmt.Errorf("bad op %q", op)
			}
			body, e := strconv.Atoi(p[2])
			if e != nil {
				return nil, e
			}
			d := mkDoc(doc{id, body}, call)
			if p[0] == "ins" {
				b.Insert(d)
			} else {
				b.Update(bluge.Identifier(strconv.Itoa(id)), d)
			}
		case "del":
			b.Delete(bluge.Identifier(strconv.Itoa(id)))
		default:
			return nil, fmt.Errorf("bad op %q", op)
		}
	}
	return b, nil
}

func closeCase() {
	if cur == nil {
		return
	}
	cur.parkArmed.Store(false)
	cur.releasePark()
	cur.mu.Lock()
	cur.recording = false
	held := cur.held
	cur.held = map[segment.Segment]bool{}
	cur.mu.Unlock()
	for seg := range held {
		if rc, ok := seg.(interface{ DecRef() error }); ok {
			_ = rc.DecRef()
		}
	}
	_ = hlib.Catch(func() string { _ = cur.w.Close(); return "" })
	index.SetVerifTrace(nil)
	if curDir != "" {
		_ = os.RemoveAll(curDir)
	}
	cur = nil
	curDir = ""
}

func kv(fields []string, key string, def int) int {
	for _, f := range fields {
		if strings.HasPrefix(f, key+"=") {
			v, err := strconv.Atoi(f[len(key)+1:])
			if err == nil {
				return v
			}
		}
	}
	return def
}

func openCase(line string, work string) error {
	f := strings.Fields(line)
	if len(f) < 2 {
		return fmt.Errorf("bad case line")
	}
	parts := strings.Split(f[1], "-")
	if len(parts) != 3 {
		return fmt.Errorf("bad config")
	}
	caseNo++
	seed := uint64(kv(f, "sd", 1))
	gmp := kv(f, "gmp", 4)
	runtime.GOMAXPROCS(gmp)
	var cfg bluge.Config
	if parts[0] == "fs" {
		curDir = filepath.Join(work, "c05idx", fmt.Sprintf("p%d_case%d", os.Getpid(), caseNo))
		_ = os.RemoveAll(curDir)
		if err := os.MkdirAll(curDir, 0o755); err != nil {
			return err
		}
		cfg = bluge.DefaultConfig(curDir)
	} else {
		cfg = bluge.InMemoryOnlyConfig()
	}
	rn := &run{byGo: map[uint64]*callRec{}, held: map[segment.Segment]bool{}, recording: true,
		pt: &perturber{seed: seed, on: true}, gatePct: kv(f, "gate", 0),
		mw: kv(f, "mw", 0) >= 1, mwKind: kv(f, "mw", 0), parkHit: make(chan struct{}), parkGo: make(chan struct{})}
	for _, x := range f {
		if strings.HasPrefix(x, "order=") {
			for _, c := range strings.Split(x[6:], ",") {
				if n, err := strconv.Atoi(c); err == nil {
					rn.order = append(rn.order, n)
				}
			}
		}
	}
	ic := cfg.VerifIndexConfig()
	ic.UnsafeBatch = parts[2] == "unsafe"
	ic.SegmentType = "ice"
	ver := 1
	if parts[1] == "v2" {
		ver = 2
		ic.SegmentVersion = 2
		// ice v2: a reader loading stored fields races with a merge of the same segment (known finding of C01):
		// no merges in these cases
		ic.MinSegmentsForInMemoryMerge = 1 << 30 // no in-memory merge by the persister
		ic.MergePlanOptions.MaxSegmentSize = 1    // no segment is "small enough" to be eligible for a file merge
	} else {
		ic.SegmentVersion = 1
		ic.MergePlanOptions.FloorSegmentSize = 1
		ic.MergePlanOptions.MaxSegmentsPerTier = 2
		ic.MergePlanOptions.SegmentsPerMergeTask = 2
		ic.MergePlanOptions.TierGrowth = 2.0
	}
	if rn.mw {
		// every segment is persisted on its own (no in-memory merge), and the merger merges as soon as two persisted
		// segments exist: the merge in the window is a FILE merge of whole batches
		ic.MinSegmentsForInMemoryMerge = 1 << 30
		ic.MergePlanOptions = mergeplan.Options{
			MaxSegmentsPerTier: 1, MaxSegmentSize: 5000000, TierGrowth: 10, SegmentsPerMergeTask: 10,
			FloorSegmentSize: 1, ReclaimDeletesWeight: 2,
			CalcBudget: func(int64, int64, *mergeplan.Options) int {
				if rn.mwKind == 2 {
					rn.park() // on the merger goroutine, inside mergeplan.Plan
				}
				return 1
			},
		}
		rn.parkArmed.Store(true)
	}
	ic.AsyncError = func(err error) {}
	ic.EventCallback = func(e index.Event) {
		if rn.mwKind == 1 && e.Kind == index.EventKindMergeTaskIntroductionStart {
			rn.park()
		}
		rn.pt.yield(uint64(10 + e.Kind))
	}
	ic = wrapPlugin(ic, ver, rn)
	cfg = cfg.VerifWithIndexConfig(ic)
	rn.bcfg = cfg
	clock.Store(0)
	index.SetVerifTrace(rn.trace)
	w, err := index.OpenWriter(ic)
	if err != nil {
		index.SetVerifTrace(nil)
		return err
	}
	rn.w = w
	cur = rn
	curCfg = f[1]
	curScript = nil
	return nil
}

type wspec struct {
	wid   int
	batch []string
}
type rspec struct{ rid, n int }

func runCase(out func(string, string), st sink) {
	rn := cur
	var ws []wspec
	var rs []rspec
	for _, l := range curScript {
		f := strings.Fields(l)
		switch f[0] {
		case "w":
			wid, _ := strconv.Atoi(f[1])
			rest := strings.TrimSpace(strings.TrimPrefix(strings.TrimSpace(l[1:]), f[1]))
			var bs []string
			for _, b := range strings.Split(rest, "|") {
				b = strings.Join(strings.Fields(b), " ")
				if b == "" {
					b = "-"
				}
				bs = append(bs, b)
			}
			ws = append(ws, wspec{wid, bs})
		case "r":
			rid, _ := strconv.Atoi(f[1])
			n, _ := strconv.Atoi(f[2])
			rs = append(rs, rspec{rid, n})
		}
	}
	var wg sync.WaitGroup
	startCh := make(chan struct{})
	seed := rn.pt.seed
	nobs := 0
	// writer 0 is the set-up: its calls run to completion before anybody else starts
	for _, w := range ws {
		if w.wid != 0 {
			continue
		}
		for j, ops := range w.batch {
			cr := &callRec{c: j + 1, wid: 0, ops: ops}
			rn.calls = append(rn.calls, cr)
			b, err := parseOps(ops, cr.c)
			if err != nil {
				cr.err = err
				continue
			}
			cr.tInv = stamp()
			cr.err = rn.w.Batch(b)
			cr.tRet = stamp()
		}
	}
	rn.orderBase = rn.introSwaps.Load()
	parked := false
	t0mw := time.Now()
	if rn.mw {
		// bounded wait for the merger; it plans lazily (woken by the persister), so an empty batch — a new epoch to
		// persist — nudges it. No merge within the bound: the case runs as an ordinary one.
		for try := 0; try < 6 && !parked; try++ {
			select {
			case <-rn.parkHit:
				parked = true
			case <-time.After(250 * time.Millisecond):
				if try < 5 {
					cr := &callRec{c: len(rn.calls) + 1, wid: 0, ops: "-"}
					rn.calls = append(rn.calls, cr)
					cr.tInv = stamp()
					cr.err = rn.w.Batch(index.NewBatch())
					cr.tRet = stamp()
					st.Count("merge-window:nudges")
				}
			}
		}
		if !parked {
			rn.parkArmed.Store(false)
		}
		st.CountN("merge-window:ms-waiting-for-the-merger", int(time.Since(t0mw).Milliseconds()))
	}
	for _, w := range ws {
		if w.wid == 0 {
			continue
		}
		// the calls of this writer
		crs := make([]*callRec, len(w.batch))
		for j, ops := range w.batch {
			crs[j] = &callRec{c: 100*w.wid + j + 1, wid: w.wid, ops: ops}
			crs[j].victim = int(mix(seed^uint64(crs[j].c)*77)%100) < rn.gatePct
			rn.calls = append(rn.calls, crs[j])
		}
		wg.Add(1)
		go func(w wspec, crs []*callRec) {
			defer wg.Done()
			id := goid()
			<-startCh
			for j, cr := range crs {
				b, err := parseOps(w.batch[j], cr.c)
				if err != nil {
					cr.err = err
					continue
				}
				rn.pt.yield(uint64(100 + w.wid))
				rn.mu.Lock()
				rn.byGo[id] = cr
				rn.mu.Unlock()
				rn.inBatch.Add(1)
				cr.tInv = stamp()
				func() {
					defer func() {
						if e := recover(); e != nil {
							cr.err = fmt.Errorf("panic")
						}
					}()
					cr.err = rn.w.Batch(b)
				}()
				cr.tRet = stamp()
				rn.inBatch.Add(-1)
				rn.mu.Lock()
				delete(rn.byGo, id)
				rn.mu.Unlock()
			}
		}(w, crs)
	}
	for _, r := range rs {
		base := nobs
		nobs += r.n
		wg.Add(1)
		go func(r rspec, base int) {
			defer wg.Done()
			<-startCh
			for i := 0; i < r.n; i++ {
				rn.pt.yield(uint64(200 + r.rid))
				if rn.order != nil {
					time.Sleep(time.Duration(20+mix(seed^uint64(i))%60) * time.Microsecond)
				}
				if mix(seed^uint64(r.rid*31+i))%3 == 0 {
					time.Sleep(time.Duration(50+mix(seed^uint64(i))%400) * time.Microsecond)
				}
				o := rn.observe(base + i + 1)
				rn.obsMu.Lock()
				rn.obs = append(rn.obs, o)
				rn.obsMu.Unlock()
			}
		}(r, base)
	}
	close(startCh)
	wg.Wait()
	mergeSeen := false
	if rn.mw {
		// the window calls have returned (they were introduced while the merger stood still): let the merge in, wait
		// (bounded) for its root swap, then look again
		rn.tRelease = stamp()
		rn.parkArmed.Store(false)
		rn.releasePark()
		if parked {
			tp := rn.tPark.Load()
			for i := 0; i < 3000 && !mergeSeen; i++ {
				rn.mu.Lock()
				for _, r := range rn.roots {
					if r.creator == "introduceMerge" && r.t > tp {
						mergeSeen = true
					}
				}
				rn.mu.Unlock()
				if !mergeSeen {
					time.Sleep(time.Millisecond)
				}
			}
			for i := 0; i < 2; i++ {
				o := rn.observe(nobs + 1 + i)
				rn.obs = append(rn.obs, o)
			}
		}
	}

	// every call that returned without error has been introduced; give a broken writer 500 ms to catch up
	okCalls := 0
	for _, cr := range rn.calls {
		if cr.err == nil {
			okCalls++
		}
	}
	for i := 0; i < 500 && int(rn.introSwaps.Load()) < okCalls; i++ {
		time.Sleep(time.Millisecond)
	}
	fin := rn.observe(0)

	// ---- after the run: read the segments of every recorded root
	rn.mu.Lock()
	roots := append([]*rootRec(nil), rn.roots...)
	acks := append([]ackRec(nil), rn.acks...)
	rn.mu.Unlock()
	cache := map[segment.Segment]*segDocs{}
	corrupt := 0
	for _, r := range roots {
		for _, s := range r.segs {
			if s.seg != nil && cache[s.seg] == nil {
				cache[s.seg] = readSeg(s.seg)
				corrupt += cache[s.seg].bad
			}
		}
	}
	st.CountN("stored-fields-corrupt", corrupt)

	type ev struct {
		t    int64
		op   string
		impl string
	}
	var evs []ev
	for _, cr := range rn.calls {
		evs = append(evs, ev{cr.tInv, fmt.Sprintf("inv %d %d w=%d %s", cr.c, cr.tInv, cr.wid, cr.ops), "-"})
		if cr.prepSeen {
			evs = append(evs, ev{cr.tPrep, fmt.Sprintf("prep %d %d", cr.c, cr.tPrep), "-"})
			st.Count("prepare-observed")
		}
		res := "ok"
		if cr.err != nil {
			res = "err"
		}
		evs = append(evs, ev{cr.tRet, fmt.Sprintf("ret %d %d", cr.c, cr.tRet), res})
		if cr.gateWaited {
			st.Count("gate-waited")
		}
		if cr.gateReleased {
			st.Count("gate-released-by-an-introduction")
		}
		for _, op := range strings.Fields(cr.ops) {
			st.Count("op:" + strings.SplitN(op, ":", 2)[0])
		}
	}
	known := map[uint64]bool{}
	contents := make([]string, len(roots))
	counts := make([]int, len(roots)) // what Snapshot.Count() computes: sum of segment.Count() - deleted.GetCardinality()
	var order []string
	for i, r := range roots {
		var live []doc
		who := "?"
		newSid := uint64(0)
		for _, s := range r.segs {
			sd := cache[s.seg]
			if sd == nil {
				continue
			}
			del := map[uint32]bool{}
			for _, d := range s.deleted {
				del[d] = true
			}
			for j, d := range sd.docs {
				if !del[uint32(j)] {
					live = append(live, d)
				}
			}
			counts[i] += len(sd.docs) - len(s.deleted)
			if !known[s.sid] && r.creator == "introduceSegment" && len(sd.calls) > 0 {
				who = strconv.Itoa(sd.calls[0])
				newSid = s.sid
			}
		}
		for _, s := range r.segs {
			known[s.sid] = true
		}
		contents[i] = docsString(live)
		if r.creator == "introduceSegment" {
			evs = append(evs, ev{r.t, fmt.Sprintf("slot %d %d %s %d %s", r.epoch, r.t, who, newSid, contents[i]), "introduceSegment"})
			order = append(order, who)
		} else {
			evs = append(evs, ev{r.t, fmt.Sprintf("swap %d %d %s", r.epoch, r.t, r.creator), r.creator})
			st.Count("swap:" + r.creator)
		}
	}
	for _, a := range acks {
		res := "ok"
		if !a.ok {
			res = "err"
		}
		evs = append(evs, ev{a.t, fmt.Sprintf("ackp %d %d", a.epoch, a.t), res})
	}
	sort.Slice(rn.obs, func(i, j int) bool { return rn.obs[i].n < rn.obs[j].n })
	for _, o := range rn.obs {
		evs = append(evs, ev{o.tGot, fmt.Sprintf("obs %d %d %d %d %s", o.n, o.tReq, o.tGot, o.epoch, o.content), "-"})
	}
	evs = append(evs, ev{fin.tGot, fmt.Sprintf("fin %d %d %d %s", fin.tReq, fin.tGot, fin.epoch, fin.content), "-"})
	sort.SliceStable(evs, func(i, j int) bool { return evs[i].t < evs[j].t })
	for _, e := range evs {
		out(e.op, e.impl)
	}
	out("explain cfg="+curCfg, fmt.Sprintf("calls=%d slots=%d reads=%d", len(rn.calls), len(order), len(rn.obs)+1))
	for i, r := range roots {
		out(fmt.Sprintf("root %d %s", r.epoch, r.creator), fmt.Sprintf("n=%d %s", counts[i], contents[i]))
	}
	for _, o := range rn.obs {
		res := fmt.Sprintf("n=%d %s", o.count, o.content)
		if o.fault != "" {
			res = o.fault + " " + res
		}
		out(fmt.Sprintf("reader %d %d", o.n, o.epoch), res)
	}
	res := fmt.Sprintf("n=%d %s", fin.count, fin.content)
	if fin.fault != "" {
		res = fin.fault + " " + res
	}
	out(fmt.Sprintf("final %d", fin.epoch), res)

	// distribution
	overlap := false
	for i, a := range rn.calls {
		for _, b := range rn.calls[i+1:] {
			if a.tInv < b.tRet && b.tInv < a.tRet {
				overlap = true
			}
		}
	}
	if rn.mw {
		rn.mwStats(st, roots, cache, parked, mergeSeen)
	}
	if rn.order != nil {
		var want []string
		for _, c := range rn.order {
			want = append(want, strconv.Itoa(c))
		}
		var got []string
		if int(rn.orderBase) <= len(order) {
			got = order[int(rn.orderBase):]
		}
		if strings.Join(got, ",") == strings.Join(want, ",") {
			st.Count("forced-order-achieved")
		} else {
			st.Count("forced-order-missed")
		}
		st.Count(fmt.Sprintf("forced-order-calls:%d", len(rn.order)))
	}
	st.Count(fmt.Sprintf("writers:%d", len(ws)))
	st.Count(fmt.Sprintf("readers:%d", len(rs)))
	st.CountN("calls", len(rn.calls))
	st.CountN("reader-observations", len(rn.obs)+1)
	st.CountN("roots-recorded", len(roots))
	st.Case(curCfg+" "+strings.Join(curScript, " / ")+" => "+strings.Join(order, ","), overlap)
}

// what the merge-window scenario reached (counters become evidence and REQUIRED_BRANCHES)
func (rn *run) mwStats(st sink, roots []*rootRec, cache map[segment.Segment]*segDocs, parked, mergeSeen bool) {
	if !parked {
		st.Count("merge-window:skipped-no-merge-reached-the-park")
		return
	}
	if !mergeSeen {
		st.Count("merge-window:skipped-merge-not-introduced-in-time")
		return
	}
	tp := rn.tPark.Load()
	var atPark, before, merged *rootRec
	for i, r := range roots {
		if r.t < tp {
			atPark = r
		}
		if merged == nil && r.creator == "introduceMerge" && r.t > tp && i > 0 {
			merged, before = r, roots[i-1]
		}
	}
	if atPark == nil || merged == nil {
		st.Count("merge-window:skipped-roots-not-recorded")
		return
	}
	st.Count(fmt.Sprintf("merge-window:file-merge-held-and-released:hold%d", rn.mwKind))
	now := map[uint64]bool{}
	for _, s := range merged.segs {
		now[s.sid] = true
	}
	type gs struct {
		sid  uint64
		live int
		ids  map[int]bool
	}
	var gone []gs
	_ = before
	// the segments the merger had in its snapshot (the root that stood when it was parked) and that the merge root
	// no longer holds — merged away, or emptied in the window and left behind
	for _, p := range atPark.segs {
		if now[p.sid] || cache[p.seg] == nil {
			continue
		}
		del := map[uint32]bool{}
		for _, d := range p.deleted {
			del[d] = true
		}
		g := gs{sid: p.sid, ids: map[int]bool{}}
		for j, d := range cache[p.seg].docs {
			if !del[uint32(j)] {
				g.live++
				g.ids[d.id] = true
			}
		}
		gone = append(gone, g)
	}
	st.Count(fmt.Sprintf("merge-window:segments-merged:%d", len(gone)))
	if len(gone) < 2 {
		return
	}
	bySize := append([]gs(nil), gone...)
	sort.SliceStable(bySize, func(i, j int) bool { return bySize[i].live > bySize[j].live })
	byID := append([]gs(nil), gone...)
	sort.Slice(byID, func(i, j int) bool { return byID[i].sid < byID[j].sid })
	differs := false
	for i := range bySize {
		if bySize[i].sid != byID[i].sid {
			differs = true
		}
	}
	if differs {
		st.Count("merge-window:size-order-differs-from-id-order")
	}
	// a window call that names a document of a merged segment and was introduced between park and merge swap
	slotT := map[int]int64{}
	known := map[uint64]bool{}
	for _, r := range roots {
		if r.creator == "introduceSegment" {
			for _, s := range r.segs {
				if !known[s.sid] && cache[s.seg] != nil && len(cache[s.seg].calls) > 0 {
					slotT[cache[s.seg].calls[0]] = r.t
				}
			}
		}
		for _, s := range r.segs {
			known[s.sid] = true
		}
	}
	conflicts := 0
	for _, cr := range rn.calls {
		if cr.wid == 0 || cr.err != nil {
			continue
		}
		t, seen := slotT[cr.c]
		if !seen {
			// a batch without documents leaves no segment: its introduction lies inside its call
			if cr.tInv > tp && cr.tRet < merged.t {
				t, seen = cr.tInv, true
			}
		}
		if !seen || t < tp || t > merged.t {
			continue
		}
		hit := false
		for _, op := range strings.Fields(cr.ops) {
			p := strings.Split(op, ":")
			if len(p) < 2 || p[0] == "ins" {
				continue
			}
			id, _ := strconv.Atoi(p[1])
			for _, g := range gone {
				if g.ids[id] {
					hit = true
				}
			}
		}
		if hit {
			conflicts++
		}
	}
	if conflicts > 0 {
		if rn.mwKind == 2 {
			st.Count("merge-window:conflicting-call-between-plan-and-merge")
			left := 0
			for _, s := range merged.segs {
				if cache[s.seg] != nil {
					left += len(cache[s.seg].docs) - len(s.deleted)
				}
			}
			if left == 1 {
				st.Count("merge-window:one-live-document-left-after-the-merge")
			}
		} else {
			st.Count("merge-window:conflicting-call-during-file-merge")
		}
		st.CountN("merge-window:conflicting-calls", conflicts)
		if differs {
			st.Count("merge-window:conflict-and-order-differs")
		}
	}
}

func (rn *run) observe(n int) *obsRec {
	o := &obsRec{n: n}
	o.tReq = stamp()
	snap, err := rn.w.Reader()
	o.tGot = stamp()
	if err != nil || snap == nil {
		o.fault = "err:reader"
		return o
	}
	o.epoch = snap.VerifEpoch()
	func() {
		defer func() {
			if e := recover(); e != nil {
				o.fault = "panic"
			}
		}()
		o.content, o.count, o.fault = readSnapshot(snap, rn.bcfg)
	}()
	if o.content == "" {
		o.content = "-"
	}
	_ = snap.Close()
	return o
}

// ---------------------------------------------------------------- Exec (child side)

func execReal(line string, out func(string, string), st sink, work string) {
	w := strings.Fields(line)
	if len(w) == 0 {
		return
	}
	switch w[0] {
	case "case":
		closeCase()
		if err := openCase(line, work); err != nil {
			out(line, "err:open")
			return
		}
		st.Count("config:" + curCfg)
		st.Count(fmt.Sprintf("gomaxprocs:%d", runtime.GOMAXPROCS(0)))
		out(line, "case")
	case "w", "r":
		if cur == nil {
			return
		}
		curScript = append(curScript, line)
	case "go":
		if cur == nil {
			out(line, "no-case")
			return
		}
		runCase(out, st)
	case "end":
		if cur == nil {
			out(line, "no-case")
			return
		}
		closeCase()
		out(line, "closed")
	case "selftest-crash":
		go func() { panic("selftest") }()
		time.Sleep(2 * time.Second)
		out(line, "survived")
	default:
		out(line, "bad-op")
	}
}

// ---------------------------------------------------------------- process isolation (as in go/harness/c01)
//
// The real writer runs background goroutines; a panic there kills the process, and a broken writer may hang. Every
// script line is executed in a child process (`h_c05 child <work>`); a crash becomes "crash … ## crash:<class>", a line
// that does not finish within the cap becomes "hang … ## …"; the rest of that case is skipped.

type childProc struct {
	cmd    *exec.Cmd
	in     io.WriteCloser
	out    *bufio.Reader
	stderr *bytes.Buffer
}

var child *childProc
var skipping bool
var lastCfg string
var crashes int

func startChild(work string) (*childProc, error) {
	cmd := exec.Command(os.Args[0], "child", work)
	in, err := cmd.StdinPipe()
	if err != nil {
		return nil, err
	}
	op, err := cmd.StdoutPipe()
	if err != nil {
		return nil, err
	}
	eb := &bytes.Buffer{}
	cmd.Stderr = eb
	if err := cmd.Start(); err != nil {
		return nil, err
	}
	return &childProc{cmd: cmd, in: in, out: bufio.NewReaderSize(op, 1<<20), stderr: eb}, nil
}

func classifyCrash(stderr string) string {
	switch {
	case strings.Contains(stderr, "panic:"):
		i := strings.Index(stderr, "panic:")
		l := stderr[i:]
		if j := strings.IndexByte(l, '\n'); j >= 0 {
			l = l[:j]
		}
		if len(l) > 120 {
			l = l[:120]
		}
		return strings.ReplaceAll(l, " ", "_")
	case strings.Contains(stderr, "fatal error:"):
		return "fatal-error"
	}
	return "exit"
}

const lineCap = 40 * time.Second

func (h) Exec(line string, out func(string, string), st *hlib.Stats, work string) {
	isCase := strings.HasPrefix(line, "case ")
	if w := strings.Fields(line); isCase && len(w) > 1 {
		lastCfg = w[1]
	}
	if skipping && !isCase {
		st.Count("lines-skipped-after-crash")
		return
	}
	skipping = false
	if child == nil {
		c, err := startChild(work)
		if err != nil {
			out(line, "err:child")
			return
		}
		child = c
	}
	c := child
	hung := false
	timer := time.AfterFunc(lineCap, func() {
		hung = true
		_ = c.cmd.Process.Kill()
	})
	_, err := io.WriteString(c.in, line+"\n")
	for err == nil {
		var l string
		l, err = c.out.ReadString('\n')
		if err != nil {
			break
		}
		l = strings.TrimSuffix(l, "\n")
		f := strings.SplitN(l, "\t", 3)
		switch f[0] {
		case "D":
			timer.Stop()
			return
		case "P":
			if len(f) == 3 {
				out(f[1], f[2])
			}
		case "C":
			if len(f) == 3 {
				n, _ := strconv.Atoi(f[1])
				st.CountN(f[2], n)
			}
		case "K":
			if len(f) == 3 {
				st.Case(f[2], f[1] == "1")
			}
		}
	}
	timer.Stop()
	_ = c.in.Close()
	_ = c.cmd.Wait()
	crashes++
	_ = os.WriteFile(filepath.Join(work, fmt.Sprintf("c05_crash_%d.txt", crashes)), c.stderr.Bytes(), 0o644)
	child = nil
	skipping = true
	if hung {
		st.Count("hang")
		out("hang cfg="+lastCfg+" "+line, "no-answer-within-"+lineCap.String())
		return
	}
	cls := classifyCrash(c.stderr.String())
	st.Count("crash:" + cls)
	out("crash cfg="+lastCfg+" "+line, "crash:"+cls)
}

type printSink struct{ w *bufio.Writer }

func (p printSink) Count(key string)         { fmt.Fprintf(p.w, "C\t1\t%s\n", key) }
func (p printSink) CountN(key string, n int) { fmt.Fprintf(p.w, "C\t%d\t%s\n", n, key) }
func (p printSink) Case(key string, nt bool) {
	b := "0"
	if nt {
		b = "1"
	}
	fmt.Fprintf(p.w, "K\t%s\t%s\n", b, strings.ReplaceAll(key, "\n", " / "))
}

func childMain(work string) {
	in := bufio.NewScanner(os.Stdin)
	in.Buffer(make([]byte, 1<<20), 1<<28)
	w := bufio.NewWriterSize(os.Stdout, 1<<20)
	ps := printSink{w}
	for in.Scan() {
		line := in.Text()
		execReal(line, func(op, res string) {
			fmt.Fprintf(w, "P\t%s\t%s\n", strings.ReplaceAll(op, "\t", " "), strings.ReplaceAll(res, "\t", " "))
		}, ps, work)
		fmt.Fprintf(w, "D\n")
		w.Flush()
	}
}

// ---------------------------------------------------------------- Gen

var perms = map[int][][]int{
	2: {{1, 2}, {2, 1}},
	3: {{1, 2, 3}, {1, 3, 2}, {2, 1, 3}, {2, 3, 1}, {3, 1, 2}, {3, 2, 1}},
}

// deterministic scenarios: a set-up batch, then 2 or 3 conflicting calls that all read the set-up root and are
// introduced in a forced order — every gate-release order of every generated workload
func genForced(r *hlib.Rand, nwork int, cfgs []string, emit func(string)) {
	for d := 0; d < nwork; d++ {
		n := 2 + d%2
		k := r.Range(2, 3)
		body := 0
		var setup []string
		for id := 1; id <= k; id++ {
			body++
			setup = append(setup, fmt.Sprintf("upd:%d:%d", id, body))
		}
		ws := make([]string, n)
		for w := 1; w <= n; w++ {
			m := r.Range(1, 2)
			first := r.Intn(k)
			var ops []string
			for i := 0; i < m; i++ {
				id := 1 + (first+i)%k
				o := r.Weighted(20, 50, 30)
				if i == 0 && o == 2 {
					o = 1 // every call adds a document, so that its introduction is observed
				}
				switch o {
				case 0:
					body++
					ops = append(ops, fmt.Sprintf("ins:%d:%d", id, body))
				case 1:
					body++
					ops = append(ops, fmt.Sprintf("upd:%d:%d", id, body))
				default:
					ops = append(ops, fmt.Sprintf("del:%d", id))
				}
			}
			ws[w-1] = fmt.Sprintf("w %d %s", w, strings.Join(ops, " "))
		}
		for pi, perm := range perms[n] {
			var ord []string
			for _, w := range perm {
				ord = append(ord, strconv.Itoa(100*w+1))
			}
			cfg := cfgs[(d+pi)%len(cfgs)]
			emit(fmt.Sprintf("case %s k=%d gmp=%d sd=%d gate=0 order=%s", cfg, k, []int{2, 4, 8}[(d+pi)%3], r.Intn(1<<30), strings.Join(ord, ",")))
			emit("w 0 " + strings.Join(setup, " "))
			for _, l := range ws {
				emit(l)
			}
			emit("r 1 3")
			emit("go")
			emit("end")
		}
	}
}

// merge-window scenarios: set-up batches of growing size (the OLDER segment is the SMALLER one, so the planner's
// roster — sorted by live size — is not in segment-id order), the merger parked once its file merge of those segments
// is written, 1–3 client goroutines whose calls delete/update documents of the merged segments, release, readers
// second hold point: inside the planner (the merger has its snapshot, the task has not started). Small set-ups; half
// of the cases delete all documents but one, split over 1–2 client goroutines
func genPlanWindow(r *hlib.Rand, n int, emit func(string)) {
	cfgs := []string{"mem-v1-unsafe", "mem-v1-safe", "fs-v1-unsafe", "fs-v1-safe"}
	for d := 0; d < n; d++ {
		body, id := 0, 0
		var setup []string
		var all []int
		size := r.Range(1, 2)
		for sg := 0; sg < 2; sg++ {
			var ops []string
			for i := 0; i < size; i++ {
				id++
				body++
				ops = append(ops, fmt.Sprintf("upd:%d:%d", id, body))
				all = append(all, id)
			}
			setup = append(setup, strings.Join(ops, " "))
			size += r.Range(0, 2)
		}
		emit(fmt.Sprintf("case %s k=%d gmp=%d sd=%d gate=0 mw=2", cfgs[d%len(cfgs)], id, []int{2, 4, 8}[d%3], r.Intn(1<<30)))
		emit("w 0 " + strings.Join(setup, " | "))
		nw := r.Range(1, 2)
		if d%2 == 0 {
			// leave exactly one document: the others are deleted, dealt out to the writers
			keep := r.Intn(len(all))
			var victims []int
			for i, x := range all {
				if i != keep {
					victims = append(victims, x)
				}
			}
			if nw > len(victims) {
				nw = len(victims)
			}
			for w := 1; w <= nw; w++ {
				var ops []string
				for i, x := range victims {
					if i%nw == w-1 {
						ops = append(ops, fmt.Sprintf("del:%d", x))
					}
				}
				emit(fmt.Sprintf("w %d %s", w, strings.Join(ops, " ")))
			}
		} else {
			for w := 1; w <= nw; w++ {
				m := r.Range(1, 2)
				first := r.Intn(len(all))
				var ops []string
				for i := 0; i < m && i < len(all); i++ {
					x := all[(first+i)%len(all)]
					if r.Chance(65) {
						ops = append(ops, fmt.Sprintf("del:%d", x))
					} else {
						body++
						ops = append(ops, fmt.Sprintf("upd:%d:%d", x, body))
					}
				}
				emit(fmt.Sprintf("w %d %s", w, strings.Join(ops, " ")))
			}
		}
		emit(fmt.Sprintf("r 1 %d", r.Range(2, 3)))
		emit("go")
		emit("end")
	}
}

func genMergeWindow(r *hlib.Rand, n int, emit func(string)) {
	cfgs := []string{"mem-v1-unsafe", "mem-v1-safe", "fs-v1-unsafe", "fs-v1-safe"}
	for d := 0; d < n; d++ {
		nseg := 2
		if r.Chance(30) {
			nseg = 3
		}
		body, id := 0, 0
		var setup []string
		var segIDs [][]int
		size := r.Range(3, 4)
		for sg := 0; sg < nseg; sg++ {
			var ops []string
			var ids []int
			for i := 0; i < size; i++ {
				id++
				body++
				ops = append(ops, fmt.Sprintf("upd:%d:%d", id, body))
				ids = append(ids, id)
			}
			setup = append(setup, strings.Join(ops, " "))
			segIDs = append(segIDs, ids)
			size += r.Range(2, 3)
		}
		emit(fmt.Sprintf("case %s k=%d gmp=%d sd=%d gate=0 mw=1", cfgs[d%len(cfgs)], id, []int{2, 4, 8}[d%3], r.Intn(1<<30)))
		emit("w 0 " + strings.Join(setup, " | "))
		nw := r.Range(1, 3)
		for w := 1; w <= nw; w++ {
			// the first writer always hits the oldest (smallest) segment
			sg := r.Intn(2)
			if w == 1 {
				sg = 0
			}
			ids := segIDs[sg]
			m := r.Range(1, 2)
			first := r.Intn(len(ids))
			var ops []string
			for i := 0; i < m && i < len(ids); i++ {
				x := ids[(first+i)%len(ids)]
				if r.Chance(60) {
					ops = append(ops, fmt.Sprintf("del:%d", x))
				} else {
					body++
					ops = append(ops, fmt.Sprintf("upd:%d:%d", x, body))
				}
			}
			emit(fmt.Sprintf("w %d %s", w, strings.Join(ops, " ")))
		}
		emit(fmt.Sprintf("r 1 %d", r.Range(2, 4)))
		emit("go")
		emit("end")
	}
}

func (h) Gen(r *hlib.Rand, tier string, scale int, emit func(string)) {
	// hlib.NewRand(seed) starts splitmix at seed*gamma+c, so the stream of seed k+1 is the stream of seed k shifted
	// by one draw: re-seed from a mixed output so that different seeds give unrelated scripts
	r = hlib.NewRand(r.U64() ^ 0xC05)
	ncases := 400 * scale
	nforced := 12 * scale // workloads; each with all 2 or 6 release orders
	if tier == "thorough" {
		ncases = 6000 * scale
		nforced = 300 * scale
	}
	cfgs := []string{"mem-v1-unsafe", "mem-v1-safe", "fs-v1-unsafe", "fs-v1-safe", "mem-v2-unsafe", "mem-v1-unsafe", "fs-v2-unsafe", "mem-v2-safe"}
	genForced(r, nforced, cfgs, emit)
	nmw := 24 * scale
	if tier == "thorough" {
		nmw = 600 * scale
	}
	genMergeWindow(r, nmw, emit)
	genPlanWindow(r, nmw, emit)
	for c := 0; c < ncases; c++ {
		cfg := cfgs[c%len(cfgs)]
		k := r.Range(2, 4)
		nw := r.Range(2, 8)
		nr := r.Range(1, 3)
		gmp := []int{1, 2, 4, 8}[r.Intn(4)]
		gate := []int{0, 40, 70, 100}[r.Intn(4)]
		maxB := 4
		if strings.HasPrefix(cfg, "fs") && strings.HasSuffix(cfg, "-safe") {
			maxB = 2 // every safe batch on the file system waits for fsyncs
		}
		emit(fmt.Sprintf("case %s k=%d gmp=%d sd=%d gate=%d", cfg, k, gmp, r.Intn(1<<30), gate))
		body := 0
		noDocs := 0
		for w := 1; w <= nw; w++ {
			nb := r.Range(1, maxB)
			var bs []string
			for j := 0; j < nb; j++ {
				kind := r.Weighted(88, 8, 4) // normal / delete-only / empty
				if kind != 0 && noDocs >= 4 {
					kind = 0
				}
				if kind == 2 {
					noDocs++
					bs = append(bs, "-")
					continue
				}
				n := r.Range(1, 3)
				if n > k {
					n = k
				}
				ids := r.Intn(k) // rotate so that ids are distinct within the batch
				var ops []string
				hasDoc := false
				for i := 0; i < n; i++ {
					id := 1 + (ids+i)%k
					o := r.Weighted(25, 45, 30)
					if kind == 1 {
						o = 2
					}
					switch o {
					case 0:
						body++
						ops = append(ops, fmt.Sprintf("ins:%d:%d", id, body))
						hasDoc = true
					case 1:
						body++
						ops = append(ops, fmt.Sprintf("upd:%d:%d", id, body))
						hasDoc = true
					default:
						ops = append(ops, fmt.Sprintf("del:%d", id))
					}
				}
				if !hasDoc {
					if noDocs >= 4 {
						body++
						ops[0] = fmt.Sprintf("upd:%s:%d", strings.Split(ops[0], ":")[1], body)
					} else {
						noDocs++
					}
				}
				bs = append(bs, strings.Join(ops, " "))
			}
			emit(fmt.Sprintf("w %d %s", w, strings.Join(bs, " | ")))
		}
		for rd := 1; rd <= nr; rd++ {
			emit(fmt.Sprintf("r %d %d", rd, r.Range(2, 6)))
		}
		emit("go")
		emit("end")
	}
}

func main() {
	if len(os.Args) >= 3 && os.Args[1] == "child" {
		childMain(os.Args[2])
		return
	}
	hlib.Main(h{})
}

// Node-level tracing of the REAL searcher tree (C07 phase 2).
//
// traceSearch builds the searcher tree the real query code builds for a request (req.Searcher on the
// reader's snapshot), walks it by reflection, replaces every child searcher by a logging wrapper
// (search.Searcher), drives it with the request's real collector and prints
//
//	<tree> @ <events> @ <doc numbers returned at the top>
//
// tree   : s-expression in pre-order, node ids are the pre-order positions (0 = root):
//          (conj K…) (disjS <min> K…) (disjH <min> K…) (bool <M|-> <S|-> <N|->) (filt K) (phrase K)
//          (min <min> K) (term <kind> <field> <term>) (all) (none) (other:<TypeName>)
//          <kind> of a term leaf: p = *index.postingsIterator from Snapshot.PostingsIterator,
//          u = unadorned (*index.postingsIterator with recycle == false), both followed by the contents
//          of their per-segment iterators (b<locals> bitmap, h<local> 1-hit, e empty, o unknown);
//          a = *index.postingsIteratorAll, o = other reader
// events : per node `id:ev,ev,…` joined by `;` with ev = N><answer> | A<target>><answer>,
//          answer = doc number, `-` (nil) or `!` (error); each event also carries the span of global
//          sequence numbers during which it ran (not printed) so that the calls a node made on its
//          children during one of its own calls can be grouped.
package main

import (
	"context"
	"encoding/hex"
	"fmt"
	"reflect"
	"sort"
	"strconv"
	"strings"
	"unsafe"

	"github.com/blugelabs/bluge"
	"github.com/blugelabs/bluge/index"
	"github.com/blugelabs/bluge/search"
	segment "github.com/blugelabs/bluge_segment_api"

	"verif/harness/hlib"
)

type tev struct {
	adv    bool
	target uint64
	ans    int64 // doc number, -1 nil, -2 error
	s0, s1 int   // global sequence numbers at entry / exit
}

type tnode struct {
	id     int
	kind   string
	detail string
	kids   []*tnode
	evs    []tev
}

type tracer struct {
	seq   int
	nodes []*tnode
}

type traceSearcher struct {
	in search.Searcher
	n  *tnode
	tr *tracer
}

func ansOf(m *search.DocumentMatch, err error) int64 {
	if err != nil {
		return -2
	}
	if m == nil {
		return -1
	}
	return int64(m.Number)
}

func (t *traceSearcher) Next(ctx *search.Context) (*search.DocumentMatch, error) {
	t.tr.seq++
	s0 := t.tr.seq
	m, err := t.in.Next(ctx)
	t.tr.seq++
	t.n.evs = append(t.n.evs, tev{ans: ansOf(m, err), s0: s0, s1: t.tr.seq})
	return m, err
}

func (t *traceSearcher) Advance(ctx *search.Context, number uint64) (*search.DocumentMatch, error) {
	t.tr.seq++
	s0 := t.tr.seq
	m, err := t.in.Advance(ctx, number)
	t.tr.seq++
	t.n.evs = append(t.n.evs, tev{adv: true, target: number, ans: ansOf(m, err), s0: s0, s1: t.tr.seq})
	return m, err
}

func (t *traceSearcher) Close() error               { return t.in.Close() }
func (t *traceSearcher) Count() uint64              { return t.in.Count() }
func (t *traceSearcher) Min() int                   { return t.in.Min() }
func (t *traceSearcher) Size() int                  { return t.in.Size() }
func (t *traceSearcher) DocumentMatchPoolSize() int { return t.in.DocumentMatchPoolSize() }

var searcherIface = reflect.TypeOf((*search.Searcher)(nil)).Elem()

// settable returns a settable view of a (possibly unexported) struct field.
func settable(f reflect.Value) reflect.Value {
	return reflect.NewAt(f.Type(), unsafe.Pointer(f.UnsafeAddr())).Elem()
}

func termAtomBytes(b []byte) string {
	s := string(b)
	if atomSafe(s) && !strings.HasPrefix(s, "x") {
		return s
	}
	return "x" + hex.EncodeToString(b)
}

// describeReader looks at the segment.PostingsIterator behind a TermSearcher / MatchAllSearcher.
func describeReader(r reflect.Value) (kind string, extra string) {
	if !r.IsValid() || r.IsNil() {
		return "o", ""
	}
	rv := r.Elem() // the dynamic value (a pointer)
	switch rv.Type().String() {
	case "*index.postingsIteratorAll":
		return "a", ""
	case "*index.postingsIterator":
		st := rv.Elem()
		// what each per-segment iterator holds RIGHT NOW (after construction and after the push-down
		// conjunction optimisation, which replaces the bitmaps of an all-term conjunction by their AND)
		its := settable(st.FieldByName("iterators"))
		parts := []string{}
		for i := 0; i < its.Len(); i++ {
			it, _ := its.Index(i).Interface().(segment.PostingsIterator)
			parts = append(parts, describeSegIt(it))
		}
		if st.FieldByName("recycle").Bool() {
			return "p", strings.Join(parts, " ")
		}
		return "u", strings.Join(parts, " ")
	}
	return "o", ""
}

// describeSegIt: b<locals> bitmap iterator, h<docnum> 1-hit iterator, e empty, o other.
func describeSegIt(it segment.PostingsIterator) string {
	if it == nil {
		return "o"
	}
	switch reflect.TypeOf(it).String() {
	case "*index.unadornedPostingsIterator1Hit":
		if o, ok := it.(segment.OptimizablePostingsIterator); ok {
			if d, ok2 := o.DocNum1Hit(); ok2 {
				return "h" + strconv.FormatUint(d, 10)
			}
		}
		d := reflect.ValueOf(it).Elem().FieldByName("docNum").Uint()
		return "h" + strconv.FormatUint(d, 10)
	case "*index.unadornedPostingsIteratorBitmap":
		if o, ok := it.(segment.OptimizablePostingsIterator); ok && o.ActualBitmap() != nil {
			xs := o.ActualBitmap().ToArray()
			ss := make([]string, len(xs))
			for i, x := range xs {
				ss[i] = strconv.FormatUint(uint64(x), 10)
			}
			return "b" + strings.Join(ss, ",")
		}
		return "b"
	}
	// the segment plugin's own iterator (ice): look at it through segment.OptimizablePostingsIterator
	if o, ok := it.(segment.OptimizablePostingsIterator); ok {
		if d, ok2 := o.DocNum1Hit(); ok2 {
			return "h" + strconv.FormatUint(d, 10)
		}
		if bm := o.ActualBitmap(); bm != nil {
			xs := bm.ToArray()
			ss := make([]string, len(xs))
			for i, x := range xs {
				ss[i] = strconv.FormatUint(uint64(x), 10)
			}
			return "b" + strings.Join(ss, ",")
		}
		return "e"
	}
	if it.Empty() && it.Count() == 0 {
		return "e"
	}
	return "o"
}

// wrapTree replaces the children of s (recursively) by tracing wrappers and returns the wrapper of s.
func (tr *tracer) wrapTree(s search.Searcher) search.Searcher {
	n := &tnode{id: len(tr.nodes)}
	tr.nodes = append(tr.nodes, n)
	v := reflect.ValueOf(s)
	tname := v.Type().String()
	wrapField := func(f reflect.Value) *tnode {
		if f.Kind() != reflect.Interface || f.IsNil() {
			return nil
		}
		fs := settable(f)
		child, ok := fs.Interface().(search.Searcher)
		if !ok || child == nil {
			return nil
		}
		w := tr.wrapTree(child)
		fs.Set(reflect.ValueOf(w))
		return w.(*traceSearcher).n
	}
	if v.Kind() == reflect.Ptr && v.Elem().Kind() == reflect.Struct {
		st := v.Elem()
		field := func(name string) reflect.Value { return st.FieldByName(name) }
		kidsOfSlice := func(name string) {
			sl := field(name)
			for i := 0; i < sl.Len(); i++ {
				if k := wrapField(sl.Index(i)); k != nil {
					n.kids = append(n.kids, k)
				}
			}
		}
		switch tname {
		case "*searcher.ConjunctionSearcher":
			n.kind = "conj"
			kidsOfSlice("searchers")
		case "*searcher.DisjunctionSliceSearcher":
			n.kind = "disjS"
			n.detail = strconv.FormatInt(field("min").Int(), 10)
			kidsOfSlice("searchers")
		case "*searcher.DisjunctionHeapSearcher":
			n.kind = "disjH"
			n.detail = strconv.FormatInt(field("min").Int(), 10)
			kidsOfSlice("searchers")
		case "*searcher.BooleanSearcher":
			n.kind = "bool"
			for _, fn := range []string{"mustSearcher", "shouldSearcher", "mustNotSearcher"} {
				k := wrapField(field(fn))
				n.kids = append(n.kids, k) // nil = absent
			}
		case "*searcher.FilteringSearcher":
			n.kind = "filt"
			if k := wrapField(field("child")); k != nil {
				n.kids = append(n.kids, k)
			}
		case "*searcher.PhraseSearcher":
			n.kind = "phrase"
			if k := wrapField(field("mustSearcher")); k != nil {
				n.kids = append(n.kids, k)
			}
		case "*searcher.minSearcher":
			n.kind = "min"
			n.detail = strconv.FormatInt(field("min").Int(), 10)
			if k := wrapField(field("Searcher")); k != nil {
				n.kids = append(n.kids, k)
			}
		case "*searcher.TermSearcher":
			n.kind = "term"
			kind, extra := describeReader(field("reader"))
			term := "?"
			fld := "?"
			if r := field("reader"); r.IsValid() && !r.IsNil() && r.Elem().Type().String() == "*index.postingsIterator" {
				ps := r.Elem().Elem()
				term = termAtomBytes(settable(ps.FieldByName("term")).Bytes())
				fld = ps.FieldByName("field").String()
				if fld == "" || !atomSafe(fld) {
					fld = "x" + hex.EncodeToString([]byte(fld))
				}
			}
			n.detail = kind + " " + fld + " " + term
			if extra != "" {
				n.detail += " " + extra
			}
		case "*searcher.MatchAllSearcher":
			n.kind = "all"
		case "*searcher.MatchNoneSearcher":
			n.kind = "none"
		default:
			n.kind = "other:" + strings.TrimPrefix(tname, "*searcher.")
			// still wrap whatever searcher-typed fields it has
			for i := 0; i < st.NumField(); i++ {
				f := st.Field(i)
				switch {
				case f.Kind() == reflect.Interface && f.Type().Implements(searcherIface):
					if k := wrapField(f); k != nil {
						n.kids = append(n.kids, k)
					}
				case f.Kind() == reflect.Slice && f.Type().Elem().Kind() == reflect.Interface && f.Type().Elem().Implements(searcherIface):
					for j := 0; j < f.Len(); j++ {
						if k := wrapField(f.Index(j)); k != nil {
							n.kids = append(n.kids, k)
						}
					}
				}
			}
		}
	} else {
		n.kind = "other:" + tname
	}
	return &traceSearcher{in: s, n: n, tr: tr}
}

func (n *tnode) shape(b *strings.Builder) {
	if n == nil {
		b.WriteString("-")
		return
	}
	b.WriteByte('(')
	b.WriteString(n.kind)
	if n.detail != "" {
		b.WriteByte(' ')
		b.WriteString(n.detail)
	}
	for _, k := range n.kids {
		b.WriteByte(' ')
		k.shape(b)
	}
	b.WriteByte(')')
}

func ansString(a int64) string {
	switch a {
	case -1:
		return "-"
	case -2:
		return "!"
	}
	return strconv.FormatInt(a, 10)
}

func (tr *tracer) events() string {
	var b strings.Builder
	for i, n := range tr.nodes {
		if i > 0 {
			b.WriteByte(';')
		}
		b.WriteString(strconv.Itoa(n.id))
		b.WriteByte(':')
		for j, e := range n.evs {
			if j > 0 {
				b.WriteByte(',')
			}
			if e.adv {
				b.WriteByte('A')
				b.WriteString(strconv.FormatUint(e.target, 10))
			} else {
				b.WriteByte('N')
			}
			b.WriteByte('>')
			b.WriteString(ansString(e.ans))
		}
	}
	return b.String()
}

// countBranches derives distribution keys from the real logs.
func (tr *tracer) countBranches(st *hlib.Stats) {
	for _, n := range tr.nodes {
		for _, e := range n.evs {
			if e.adv {
				st.Count("trace:advance-on-" + strings.SplitN(n.kind, ":", 2)[0])
			}
		}
		if n.kind == "filt" && len(n.kids) == 1 {
			kid := n.kids[0]
			for _, e := range n.evs {
				// the calls the filter made on its child during this call
				var sub []tev
				for _, ke := range kid.evs {
					if ke.s0 > e.s0 && ke.s1 < e.s1 {
						sub = append(sub, ke)
					}
				}
				if len(sub) == 0 {
					continue
				}
				if e.adv {
					st.Count("trace:filt-advance")
					if sub[0].ans >= 0 && sub[0].ans != e.ans {
						// the filter rejected the document its child was advanced to
						st.Count("trace:filt-advance-target-rejected")
						if len(sub) >= 2 && sub[1].ans >= 0 && sub[1].ans != e.ans {
							// … and the next candidate of the child was rejected too
							st.Count("trace:filt-advance-rejected-then-next-rejected")
						}
						if len(sub) >= 2 && sub[1].ans >= 0 && sub[1].ans == e.ans {
							st.Count("trace:filt-advance-rejected-then-next-accepted")
						}
					}
				} else if len(sub) >= 2 {
					st.Count("trace:filt-next-rejected")
				}
			}
		}
	}
}

func snapshotOf(rd *bluge.Reader) (snap *index.Snapshot) {
	defer func() {
		if recover() != nil {
			snap = nil
		}
	}()
	v := reflect.ValueOf(rd).Elem().FieldByName("reader")
	if !v.IsValid() {
		return nil
	}
	return *(**index.Snapshot)(unsafe.Pointer(v.UnsafeAddr()))
}

// traceSearch: mode 0 = AllMatches (scored), 2 = TopN(1000) with score "none".
func traceSearch(rd *bluge.Reader, cfg bluge.Config, q *sx, mode int, st *hlib.Stats) string {
	return hlib.Catch(func() string {
		snap := snapshotOf(rd)
		if snap == nil {
			return "no-snapshot"
		}
		query, err := buildQuery(q)
		if err != nil {
			return "bad-query"
		}
		var req bluge.SearchRequest
		if mode == 0 {
			req = bluge.NewAllMatches(query)
		} else {
			req = bluge.NewTopNSearch(1000, query).SetScore("none")
		}
		s, err := req.Searcher(snap, cfg)
		if err != nil {
			return "err"
		}
		tr := &tracer{}
		w := tr.wrapTree(s)
		it, err := req.Collector().Collect(context.Background(), req.Aggregations(), w)
		if err != nil {
			return "err"
		}
		nums := []string{}
		for {
			m, err := it.Next()
			if err != nil {
				return "err"
			}
			if m == nil {
				break
			}
			nums = append(nums, strconv.FormatUint(m.Number, 10))
		}
		if mode != 0 {
			// the top-N collector orders by score; the searcher produced them in doc-number order
			sort.Slice(nums, func(i, j int) bool {
				a, _ := strconv.ParseUint(nums[i], 10, 64)
				b, _ := strconv.ParseUint(nums[j], 10, 64)
				return a < b
			})
		}
		tr.countBranches(st)
		var b strings.Builder
		tr.nodes[0].shape(&b)
		res := "-"
		if len(nums) > 0 {
			res = strings.Join(nums, ",")
		}
		return b.String() + " @ " + tr.events() + " @ " + res
	})
}

// layoutOf prints the snapshot behind the reader: per segment `<offset>:<size>:<id>,<id>*,…`
// (`*` marks a deleted local document), `-` for a snapshot without segments.
func layoutOf(rd *bluge.Reader) string {
	return hlib.Catch(func() string {
		snap := snapshotOf(rd)
		if snap == nil {
			return "no-snapshot"
		}
		offs := reflect.ValueOf(snap).Elem().FieldByName("offsets")
		segs := snap.Segments()
		if offs.Len() != len(segs) {
			return fmt.Sprintf("len-mismatch offsets=%d segments=%d", offs.Len(), len(segs))
		}
		parts := []string{}
		for i, sg := range segs {
			fs, ok := sg.(interface{ FullSize() int64 })
			if !ok {
				return "no-fullsize"
			}
			off := offs.Index(i).Uint()
			size := fs.FullSize()
			ids := make([]string, size)
			for l := int64(0); l < size; l++ {
				id, found := "", false
				err := snap.VisitStoredFields(off+uint64(l), func(field string, value []byte) bool {
					if field == "_id" {
						id, found = string(value), true
						return false
					}
					return true
				})
				if err != nil || !found || !atomSafe(id) || strings.ContainsAny(id, ",:*") {
					return "bad-id"
				}
				if d := sg.Deleted(); d != nil && d.Contains(uint32(l)) {
					id += "*"
				}
				ids[l] = id
			}
			parts = append(parts, fmt.Sprintf("%d:%d:%s", off, size, strings.Join(ids, ",")))
		}
		if len(parts) == 0 {
			return "-"
		}
		return strings.Join(parts, " ")
	})
}

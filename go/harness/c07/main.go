// Correspondence harness for C07: every query returns exactly the documents its meaning selects.
//
// gen  writes corpora (case/seg/ins/upd/del lines) and query trees (q <sexpr>);
// exec builds each corpus on the REAL bluge (in-memory writer, one writer.Batch per seg), runs every
// query three times (AllMatches, TopN(1000), TopN(1000)+SetScore("none")) and prints the sorted
// stored _id values of the matches.
package main

import (
	"context"
	"encoding/hex"
	"fmt"
	"math"
	"math/big"
	"os"
	"path/filepath"
	"reflect"
	"regexp"
	"regexp/syntax"
	"runtime/debug"
	"sort"
	"strconv"
	"strings"
	"time"
	"unsafe"

	"github.com/blugelabs/bluge"
	"github.com/blugelabs/bluge/analysis/analyzer"
	"github.com/blugelabs/bluge/index"
	"github.com/blugelabs/bluge/numeric"
	"github.com/blugelabs/bluge/numeric/geo"
	"github.com/blugelabs/bluge/search/searcher"

	"verif/harness/hlib"
)

type h struct{}

func (h) Rule() string {
	return "two fixed regression cases (min-should under score none / fuzziness 0; postings iterator reused after recycle), then geo-corner corpora (one query circle per corpus: runs of 2-4 doc-adjacent points in the corners of the circle's bounding box = inside the cell cover but 1.3 radii from the centre, most carrying a rare keyword tag, plus inside / far / point-less documents, no point within 20% of the edge; nine boolean shapes that put the geo clause beside the rarer tag so that the filtering geo searcher is ADVANCED), then merged-segment corpora (three batches whose documents carry keywords occurring exactly once, merged into ONE segment by a writer whose merge budget is one segment - those postings lists are 1-hit encoded -, the index reopened with merging inert, one later batch of at least as many documents without those keywords; score-none disjunctions / prefix / wildcard / regexp / fuzzy / range rewrites over the once-only keywords), date-edge corpora (datetime values within 2^52 ns of either end of the int64 nanosecond time line next to ordinary dates, half-open date ranges facing those ends), then regexp-fold corpora (keyword terms in lower, upper and mixed case sharing their letters; regexp patterns whose left-most literal is case-folded — (?i)…, (?i:…)…, [aA]…, factored folded alternations, also behind a leading capture group — and control patterns with a case-sensitive literal prefix, each as a positive clause and as a must-not clause; the accepted terms of every regexp leaf come from Go regexp over the FULL dictionary), then seeded corpora of 6-40 documents (text fields t,u over a 3-8 word vocabulary of short a-d words sharing prefixes and one edit apart, keyword k, numeric n / datetime d / geo point g from boundary pools) spread over 2-6 batches with deletes and updates of live ids from the second batch on (70% with background merging made inert), each followed by 25 random query trees of depth <= 4 (term, match, phrase, multi-phrase, prefix, wildcard, regexp, fuzzy, term/numeric/date range, geo box/distance (at most one geo leaf, in half of the trees), match-all/none leaves under boolean nodes with must/should/mustNot/minShould, 15% of booleans with 11-12 should clauses), plus (thorough) an exhaustive block of all subsets of {a,b,c} over five documents with 24 boolean shapes of depth <= 2 each. Per corpus and reader one `snap` line prints the physical layout of the snapshot (real offsets, segment sizes, stored ids, deleted marks). Every query runs as AllMatches, TopN(1000) and TopN(1000)+SetScore(none) on ONE long-lived reader per corpus (the writer's current root) and on a reference reader taken one epoch earlier whose snapshot never recycles postings iterators (a difference is printed as `<ids> !fresh=<ids>`), and twice more (scored, score none) as a TRACE: the real searcher tree is rebuilt on the reader's snapshot, every node wrapped in a logging search.Searcher, driven by the real collector; the tree shape (with the real per-segment contents of every postings leaf) and every node's Next/Advance calls and answers are printed. A case is one q line and is non-trivial when its AllMatches result is neither empty nor all live documents"
}

// ---------------------------------------------------------------------------------------------
// s-expressions

type sx struct {
	list bool
	atom string
	kids []*sx
}

func at(s string) *sx { return &sx{atom: s} }
func ls(k ...*sx) *sx { return &sx{list: true, kids: k} }
func atoms(ws []string) *sx {
	l := ls()
	for _, w := range ws {
		l.kids = append(l.kids, at(w))
	}
	return l
}
func node(head string, rest ...*sx) *sx {
	return &sx{list: true, kids: append([]*sx{at(head)}, rest...)}
}

func (s *sx) String() string {
	var b strings.Builder
	s.write(&b)
	return b.String()
}

func (s *sx) write(b *strings.Builder) {
	if !s.list {
		b.WriteString(s.atom)
		return
	}
	b.WriteByte('(')
	for i, k := range s.kids {
		if i > 0 {
			b.WriteByte(' ')
		}
		k.write(b)
	}
	b.WriteByte(')')
}

func (s *sx) head() string {
	if s.list && len(s.kids) > 0 && !s.kids[0].list {
		return s.kids[0].atom
	}
	return ""
}

func (s *sx) clone() *sx {
	c := &sx{list: s.list, atom: s.atom}
	for _, k := range s.kids {
		c.kids = append(c.kids, k.clone())
	}
	return c
}

func parseSx(src string) (*sx, error) {
	pos := 0
	var parse func() (*sx, error)
	skip := func() {
		for pos < len(src) && src[pos] == ' ' {
			pos++
		}
	}
	parse = func() (*sx, error) {
		skip()
		if pos >= len(src) {
			return nil, fmt.Errorf("unexpected end")
		}
		if src[pos] == ')' {
			return nil, fmt.Errorf("unexpected )")
		}
		if src[pos] == '(' {
			pos++
			l := ls()
			for {
				skip()
				if pos >= len(src) {
					return nil, fmt.Errorf("missing )")
				}
				if src[pos] == ')' {
					pos++
					return l, nil
				}
				k, err := parse()
				if err != nil {
					return nil, err
				}
				l.kids = append(l.kids, k)
			}
		}
		st := pos
		for pos < len(src) && src[pos] != ' ' && src[pos] != '(' && src[pos] != ')' {
			pos++
		}
		return at(src[st:pos]), nil
	}
	r, err := parse()
	if err != nil {
		return nil, err
	}
	skip()
	if pos != len(src) {
		return nil, fmt.Errorf("trailing input")
	}
	return r, nil
}

func (s *sx) atomsOf() ([]string, error) {
	if !s.list {
		return nil, fmt.Errorf("list expected")
	}
	out := []string{}
	for _, k := range s.kids {
		if k.list {
			return nil, fmt.Errorf("atom expected")
		}
		out = append(out, k.atom)
	}
	return out, nil
}

// walk visits every query node (lists with an atom head), not the grouping lists of b/mp.
func walk(s *sx, f func(n *sx, depth int)) { walkD(s, 1, f) }
func walkD(s *sx, d int, f func(n *sx, depth int)) {
	f(s, d)
	if s.head() == "b" && len(s.kids) == 5 {
		for _, grp := range s.kids[2:] {
			for _, c := range grp.kids {
				walkD(c, d+1, f)
			}
		}
	}
}

func depthOf(s *sx) int {
	m := 0
	walk(s, func(_ *sx, d int) {
		if d > m {
			m = d
		}
	})
	return m
}

// ---------------------------------------------------------------------------------------------
// small helpers

func hx(v uint64) string   { return fmt.Sprintf("%016x", v) }
func fhx(f float64) string { return hx(math.Float64bits(f)) }

func p64(s string) (uint64, error) {
	if len(s) != 16 {
		return 0, fmt.Errorf("16 hex digits expected: %q", s)
	}
	return strconv.ParseUint(s, 16, 64)
}

func pf(s string) (float64, error) {
	v, err := p64(s)
	return math.Float64frombits(v), err
}

func pbit(s string) (bool, error) {
	switch s {
	case "0":
		return false, nil
	case "1":
		return true, nil
	}
	return false, fmt.Errorf("0|1 expected: %q", s)
}

func ptime(s string) (time.Time, error) {
	if s == "z" {
		return time.Time{}, nil
	}
	ns, err := strconv.ParseInt(s, 10, 64)
	if err != nil {
		return time.Time{}, err
	}
	return time.Unix(0, ns).UTC(), nil
}

func openEnd(s string) string {
	if s == "_" {
		return ""
	}
	return s
}

func distString(m float64) string { return strconv.FormatFloat(m, 'g', -1, 64) + "m" }

// ---------------------------------------------------------------------------------------------
// s-expression -> bluge.Query (a fresh object tree on every call)

func needAtoms(n *sx, cnt int) ([]string, error) {
	a, err := n.atomsOf()
	if err != nil {
		return nil, err
	}
	if len(a) != cnt {
		return nil, fmt.Errorf("%s: %d atoms expected, got %d", n.head(), cnt, len(a))
	}
	return a, nil
}

func buildQuery(n *sx) (bluge.Query, error) {
	if !n.list || n.head() == "" {
		return nil, fmt.Errorf("query node expected: %s", n)
	}
	switch n.head() {
	case "all":
		return bluge.NewMatchAllQuery(), nil
	case "none":
		return bluge.NewMatchNoneQuery(), nil
	case "t":
		a, err := needAtoms(n, 3)
		if err != nil {
			return nil, err
		}
		return bluge.NewTermQuery(a[2]).SetField(a[1]), nil
	case "m":
		a, err := n.atomsOf()
		if err != nil || len(a) < 3 {
			return nil, fmt.Errorf("bad m node")
		}
		q := bluge.NewMatchQuery(strings.Join(a[3:], " ")).SetField(a[1])
		switch a[2] {
		case "or":
			q.SetOperator(bluge.MatchQueryOperatorOr)
		case "and":
			q.SetOperator(bluge.MatchQueryOperatorAnd)
		default:
			return nil, fmt.Errorf("bad m operator")
		}
		return q, nil
	case "ph":
		a, err := n.atomsOf()
		if err != nil || len(a) < 3 {
			return nil, fmt.Errorf("bad ph node")
		}
		slop, err := strconv.Atoi(a[2])
		if err != nil {
			return nil, err
		}
		return bluge.NewMatchPhraseQuery(strings.Join(a[3:], " ")).SetField(a[1]).SetSlop(slop), nil
	case "mp":
		if len(n.kids) < 3 || n.kids[1].list || n.kids[2].list {
			return nil, fmt.Errorf("bad mp node")
		}
		slop, err := strconv.Atoi(n.kids[2].atom)
		if err != nil {
			return nil, err
		}
		terms := [][]string{}
		for _, k := range n.kids[3:] {
			ws, err := k.atomsOf()
			if err != nil {
				return nil, err
			}
			terms = append(terms, ws) // "()" -> []string{}
		}
		return bluge.NewMultiPhraseQuery(terms).SetField(n.kids[1].atom).SetSlop(slop), nil
	case "px":
		a, err := needAtoms(n, 3)
		if err != nil {
			return nil, err
		}
		return bluge.NewPrefixQuery(a[2]).SetField(a[1]), nil
	case "wc":
		a, err := needAtoms(n, 3)
		if err != nil {
			return nil, err
		}
		return bluge.NewWildcardQuery(a[2]).SetField(a[1]), nil
	case "re":
		if len(n.kids) < 3 || n.kids[1].list || n.kids[2].list {
			return nil, fmt.Errorf("bad re node")
		}
		pat, err := rePattern(n.kids[2].atom)
		if err != nil {
			return nil, err
		}
		return bluge.NewRegexpQuery(pat).SetField(n.kids[1].atom), nil
	case "fz":
		if len(n.kids) < 5 {
			return nil, fmt.Errorf("bad fz node")
		}
		for _, k := range n.kids[:5] {
			if k.list {
				return nil, fmt.Errorf("bad fz node")
			}
		}
		fuzz, err := strconv.Atoi(n.kids[3].atom)
		if err != nil {
			return nil, err
		}
		pre, err := strconv.Atoi(n.kids[4].atom)
		if err != nil {
			return nil, err
		}
		return bluge.NewFuzzyQuery(n.kids[2].atom).SetField(n.kids[1].atom).SetFuzziness(fuzz).SetPrefix(pre), nil
	case "tr":
		a, err := needAtoms(n, 6)
		if err != nil {
			return nil, err
		}
		imin, e1 := pbit(a[4])
		imax, e2 := pbit(a[5])
		if e1 != nil || e2 != nil {
			return nil, fmt.Errorf("bad tr flags")
		}
		return bluge.NewTermRangeInclusiveQuery(openEnd(a[2]), openEnd(a[3]), imin, imax).SetField(a[1]), nil
	case "nr":
		a, err := needAtoms(n, 6)
		if err != nil {
			return nil, err
		}
		lo, e1 := pf(a[2])
		hi, e2 := pf(a[3])
		imin, e3 := pbit(a[4])
		imax, e4 := pbit(a[5])
		if e1 != nil || e2 != nil || e3 != nil || e4 != nil {
			return nil, fmt.Errorf("bad nr node")
		}
		return bluge.NewNumericRangeInclusiveQuery(lo, hi, imin, imax).SetField(a[1]), nil
	case "dr":
		a, err := needAtoms(n, 6)
		if err != nil {
			return nil, err
		}
		s, e1 := ptime(a[2])
		e, e2 := ptime(a[3])
		is, e3 := pbit(a[4])
		ie, e4 := pbit(a[5])
		if e1 != nil || e2 != nil || e3 != nil || e4 != nil {
			return nil, fmt.Errorf("bad dr node")
		}
		return bluge.NewDateRangeInclusiveQuery(s, e, is, ie).SetField(a[1]), nil
	case "gb":
		a, err := needAtoms(n, 6)
		if err != nil {
			return nil, err
		}
		var v [4]float64
		for i := range v {
			if v[i], err = pf(a[2+i]); err != nil {
				return nil, err
			}
		}
		return bluge.NewGeoBoundingBoxQuery(v[0], v[1], v[2], v[3]).SetField(a[1]), nil
	case "gd":
		a, err := needAtoms(n, 5)
		if err != nil {
			return nil, err
		}
		var v [3]float64
		for i := range v {
			if v[i], err = pf(a[2+i]); err != nil {
				return nil, err
			}
		}
		return bluge.NewGeoDistanceQuery(v[0], v[1], distString(v[2])).SetField(a[1]), nil
	case "b":
		if len(n.kids) != 5 || n.kids[1].list || !n.kids[2].list || !n.kids[3].list || !n.kids[4].list {
			return nil, fmt.Errorf("bad b node")
		}
		min, err := strconv.Atoi(n.kids[1].atom)
		if err != nil {
			return nil, err
		}
		q := bluge.NewBooleanQuery()
		for gi, grp := range n.kids[2:] {
			for _, c := range grp.kids {
				cq, err := buildQuery(c)
				if err != nil {
					return nil, err
				}
				switch gi {
				case 0:
					q.AddMust(cq)
				case 1:
					q.AddShould(cq)
				case 2:
					q.AddMustNot(cq)
				}
			}
		}
		q.SetMinShould(min)
		return q, nil
	}
	return nil, fmt.Errorf("unknown query kind %q", n.head())
}

func rePattern(atom string) (string, error) {
	if !strings.HasPrefix(atom, "x") {
		return "", fmt.Errorf("re pattern must be x<hex>")
	}
	b, err := hex.DecodeString(atom[1:])
	if err != nil {
		return "", err
	}
	return string(b), nil
}

// ---------------------------------------------------------------------------------------------
// reference matchers for re / fz (only used to pick the accepted dictionary terms)

// osaDistance: optimal-string-alignment Damerau-Levenshtein over runes.
func osaDistance(a, b string) int {
	ra, rb := []rune(a), []rune(b)
	d := make([][]int, len(ra)+1)
	for i := range d {
		d[i] = make([]int, len(rb)+1)
		d[i][0] = i
	}
	for j := 0; j <= len(rb); j++ {
		d[0][j] = j
	}
	for i := 1; i <= len(ra); i++ {
		for j := 1; j <= len(rb); j++ {
			cost := 1
			if ra[i-1] == rb[j-1] {
				cost = 0
			}
			v := d[i-1][j] + 1
			if x := d[i][j-1] + 1; x < v {
				v = x
			}
			if x := d[i-1][j-1] + cost; x < v {
				v = x
			}
			if i > 1 && j > 1 && ra[i-1] == rb[j-2] && ra[i-2] == rb[j-1] {
				if x := d[i-2][j-2] + 1; x < v {
					v = x
				}
			}
			d[i][j] = v
		}
	}
	return d[len(ra)][len(rb)]
}

func fuzzyAccepts(term, cand string, fuzz, prefix int) bool {
	if prefix > 0 {
		p := prefix
		if p > len(term) {
			p = len(term)
		}
		if !strings.HasPrefix(cand, term[:p]) {
			return false
		}
	}
	return osaDistance(term, cand) <= fuzz
}

// atomSafe: a dictionary term can be printed as an atom as is.
func atomSafe(t string) bool {
	if t == "" {
		return false
	}
	for i := 0; i < len(t); i++ {
		c := t[i]
		if c <= ' ' || c >= 0x7f || c == '(' || c == ')' || c == '#' || c == '%' {
			return false
		}
	}
	return true
}

func termAtom(t string) string {
	if atomSafe(t) {
		return t
	}
	return "%" + hex.EncodeToString([]byte(t)) // never produced by the generator's fields t,u,k
}

// ---------------------------------------------------------------------------------------------
// numeric / date range walk guard

func nrIntBounds(min, max float64, imin, imax bool) (int64, int64) {
	var lo, hi int64
	if math.IsInf(min, -1) {
		lo = math.MinInt64
	} else {
		lo = numeric.Float64ToInt64(min)
	}
	if math.IsInf(max, 1) {
		hi = math.MaxInt64
	} else {
		hi = numeric.Float64ToInt64(max)
	}
	if !imin && lo != math.MaxInt64 {
		lo++
	}
	if !imax && hi != math.MinInt64 {
		hi--
	}
	return lo, hi
}

// drFloatBounds mirrors DateRangeQuery.parseEndpoints.
func drFloatBounds(s, e time.Time) (float64, float64) {
	min, max := math.Inf(-1), math.Inf(1)
	if !s.IsZero() {
		min = numeric.Int64ToFloat64(s.UnixNano())
	}
	if !e.IsZero() {
		max = numeric.Int64ToFloat64(e.UnixNano())
	}
	return min, max
}

const walkCap = 100000

func walkSteps(lo, hi int64) *big.Int {
	sum := new(big.Int)
	for _, r := range searcher.VerifSplitInt64Range(lo, hi, 4) {
		s := new(big.Int).SetBytes(r[0])
		e := new(big.Int).SetBytes(r[1])
		if e.Cmp(s) > 0 {
			sum.Add(sum, e.Sub(e, s))
		}
	}
	return sum
}

// walkTooLong reports whether any nr/dr node pair of the query would walk more than walkCap terms in total.
func walkTooLong(q *sx) bool {
	total := new(big.Int)
	walk(q, func(n *sx, _ int) {
		switch n.head() {
		case "nr":
			a, err := needAtoms(n, 6)
			if err != nil {
				return
			}
			lo, e1 := pf(a[2])
			hi, e2 := pf(a[3])
			imin, e3 := pbit(a[4])
			imax, e4 := pbit(a[5])
			if e1 != nil || e2 != nil || e3 != nil || e4 != nil {
				return
			}
			l, u := nrIntBounds(lo, hi, imin, imax)
			total.Add(total, walkSteps(l, u))
		case "dr":
			a, err := needAtoms(n, 6)
			if err != nil {
				return
			}
			s, e1 := ptime(a[2])
			e, e2 := ptime(a[3])
			is, e3 := pbit(a[4])
			ie, e4 := pbit(a[5])
			if e1 != nil || e2 != nil || e3 != nil || e4 != nil {
				return
			}
			fl, fu := drFloatBounds(s, e)
			l, u := nrIntBounds(fl, fu, is, ie)
			total.Add(total, walkSteps(l, u))
		}
	})
	return total.Cmp(big.NewInt(walkCap)) > 0
}

// ---------------------------------------------------------------------------------------------
// exec state

type caseState struct {
	num      string
	merge    bool
	merge3   bool   // phase 1: a writer that merges everything into one segment; `waitmerge` reopens the index with merging inert
	dirPath  string // merge3: the file-system directory of the index
	cfg      bluge.Config
	snapDone bool // the `snap` line of the current reader has been printed
	writer   *bluge.Writer
	reader   *bluge.Reader
	refReader *bluge.Reader // same documents, taken one epoch earlier: its snapshot is not the writer's current root, so it never recycles postings iterators (history-free reference)
	pending  *index.Batch
	npending int
	live     map[string]bool
	terms    map[string]map[string]bool // id -> "F\x00term" of the live document (harness bookkeeping, for accLiveOnly)
	broken   bool                       // the writer could not be opened or an implicit flush failed
	poisoned bool                       // a search timed out: a runaway goroutine may still use reader/writer, do not close them
	dicts    map[string][]string
}

var cur *caseState

var workDir = "."

func closeCase() {
	if cur == nil {
		return
	}
	defer func(p string) {
		if p != "" {
			_ = os.RemoveAll(p)
		}
	}(cur.dirPath)
	if !cur.poisoned {
		hlib.Catch(func() string {
			if cur.reader != nil {
				_ = cur.reader.Close()
			}
			if cur.refReader != nil {
				_ = cur.refReader.Close()
			}
			return ""
		})
		hlib.Catch(func() string {
			if cur.writer != nil {
				_ = cur.writer.Close()
			}
			return ""
		})
	}
	cur = nil
}

func openCase(num string, merge bool, merge3 bool) string {
	closeCase()
	cur = &caseState{num: num, merge: merge, merge3: merge3, live: map[string]bool{}, terms: map[string]map[string]bool{}}
	return hlib.Catch(func() string {
		cfg := bluge.InMemoryOnlyConfig()
		if merge3 {
			// phase 1 (until `waitmerge`): the merge planner's budget is ONE segment (floor above the corpus size)
			cur.dirPath = filepath.Join(workDir, "c07idx-"+num)
			_ = os.RemoveAll(cur.dirPath)
			cfg = bluge.DefaultConfig(cur.dirPath)
			ic := cfg.VerifIndexConfig()
			ic.MinSegmentsForInMemoryMerge = 1000
			ic.MergePlanOptions.FloorSegmentSize = 100
			ic.MergePlanOptions.MaxSegmentsPerTier = 2
			ic.MergePlanOptions.SegmentsPerMergeTask = 10
			ic.MergePlanOptions.TierGrowth = 2.0
			cfg = cfg.VerifWithIndexConfig(ic)
		} else if !merge {
			ic := cfg.VerifIndexConfig()
			ic.MinSegmentsForInMemoryMerge = 1000
			ic.MergePlanOptions.MaxSegmentsPerTier = 1000
			ic.MergePlanOptions.SegmentsPerMergeTask = 1000
			ic.MergePlanOptions.FloorSegmentSize = 1
			cfg = cfg.VerifWithIndexConfig(ic)
		}
		cur.cfg = cfg
		w, err := bluge.OpenWriter(cfg)
		if err != nil {
			cur.broken = true
			return "err"
		}
		cur.writer = w
		return "ok"
	})
}

// flush executes the pending batch (if it holds anything); it invalidates the reader.
func flush() string {
	if cur.pending == nil || cur.npending == 0 {
		cur.pending, cur.npending = nil, 0
		return "ok"
	}
	b := cur.pending
	cur.pending, cur.npending = nil, 0
	if cur.reader != nil {
		rd, rr := cur.reader, cur.refReader
		cur.reader, cur.refReader = nil, nil
		cur.dicts = nil
		hlib.Catch(func() string {
			_ = rd.Close()
			if rr != nil {
				_ = rr.Close()
			}
			return ""
		})
	}
	if cur.writer == nil {
		return "err"
	}
	return hlib.Catch(func() string {
		if err := cur.writer.Batch(b); err != nil {
			return "err"
		}
		return "ok"
	})
}

func ensureReader(st *hlib.Stats) bool {
	if cur.reader != nil {
		return true
	}
	if cur.writer == nil || cur.broken {
		return false
	}
	res := hlib.Catch(func() string {
		// reference reader first, then a no-op batch (delete of an id that never exists) moves the
		// writer's root one epoch on, then the reader under test (the writer's current root)
		rr, err := cur.writer.Reader()
		if err != nil {
			return "err"
		}
		nb := bluge.NewBatch()
		nb.Delete(bluge.Identifier("__verif_no_such_id__"))
		if err := cur.writer.Batch(nb); err != nil {
			_ = rr.Close()
			return "err"
		}
		rd, err := cur.writer.Reader()
		if err != nil {
			_ = rr.Close()
			return "err"
		}
		cur.refReader = rr
		cur.reader = rd
		cur.snapDone = false
		return "ok"
	})
	if res != "ok" {
		cur.reader = nil
		return false
	}
	cur.dicts = map[string][]string{}
	corpusStats(st)
	return true
}

// corpusStats: best effort look at the snapshot behind the reader (unexported field "reader").
func corpusStats(st *hlib.Stats) {
	defer func() { _ = recover() }()
	if cur.merge {
		st.Count("corpus:merge=1")
	} else {
		st.Count("corpus:merge=0")
	}
	switch n := len(cur.live); {
	case n == 0:
		st.Count("corpus:live=0")
	case n <= 5:
		st.Count("corpus:live=1-5")
	case n <= 15:
		st.Count("corpus:live=6-15")
	default:
		st.Count("corpus:live>15")
	}
	v := reflect.ValueOf(cur.reader).Elem().FieldByName("reader")
	if !v.IsValid() {
		return
	}
	snap := *(**index.Snapshot)(unsafe.Pointer(v.UnsafeAddr()))
	if snap == nil {
		return
	}
	segs := snap.Segments()
	n := len(segs)
	if n > 1 {
		st.Count("corpus:segments>1")
	}
	if n > 6 {
		n = 6
	}
	st.Count(fmt.Sprintf("corpus:segments=%d", n))
	for _, s := range segs {
		if d := s.Deleted(); d != nil && !d.IsEmpty() {
			st.Count("corpus:has-pending-deletes")
			break
		}
	}
}

// accLiveOnly: the acc lists of re/fz nodes are taken from the field's dictionary as the reader shows it. With
// background merging (merge=1) a dictionary may or may not still hold terms that occur only in deleted
// documents, depending on whether a merge has happened yet, so those lists (never the results) can differ
// between two runs of the same script. Setting this to true keeps only the terms that the harness's own
// bookkeeping finds in a live document, which makes the lines reproducible; false is the literal protocol.
const accLiveOnly = false

// docTerms lists the "F\x00term" keys of the t/u/k field tokens of a document line.
func docTerms(fieldToks []string) map[string]bool {
	m := map[string]bool{}
	for _, tk := range fieldToks {
		if len(tk) < 2 || tk[1] != '=' {
			continue
		}
		switch tk[0] {
		case 't', 'u':
			for _, w := range strings.Split(tk[2:], ",") {
				m[tk[:1]+"\x00"+w] = true
			}
		case 'k':
			m["k\x00"+tk[2:]] = true
		}
	}
	return m
}

func liveTerm(field, term string) bool {
	for _, m := range cur.terms {
		if m[field+"\x00"+term] {
			return true
		}
	}
	return false
}

// dictTerms returns the sorted distinct terms of the field's dictionary in the current reader.
func dictTerms(field string) ([]string, bool) {
	if ts, ok := cur.dicts[field]; ok {
		return ts, true
	}
	var ts []string
	res := hlib.Catch(func() string {
		it, err := cur.reader.DictionaryIterator(field, nil, nil, nil)
		if err != nil {
			return "err"
		}
		defer func() { _ = it.Close() }()
		seen := map[string]bool{}
		for {
			e, err := it.Next()
			if err != nil {
				return "err"
			}
			if e == nil {
				break
			}
			t := e.Term()
			if accLiveOnly && !liveTerm(field, t) {
				continue
			}
			if !seen[t] {
				seen[t] = true
				ts = append(ts, t)
			}
		}
		return "ok"
	})
	if res != "ok" {
		return nil, false
	}
	sort.Strings(ts)
	cur.dicts[field] = ts
	return ts, true
}

// annotate rewrites re / fz nodes to carry the dictionary terms the reference matcher accepts.
func annotate(q *sx) (*sx, bool) {
	out := q.clone()
	ok := true
	walk(out, func(n *sx, _ int) {
		switch n.head() {
		case "re":
			if len(n.kids) < 3 || n.kids[1].list || n.kids[2].list {
				return
			}
			n.kids = n.kids[:3]
			acc := ls()
			pat, err := rePattern(n.kids[2].atom)
			var rx *regexp.Regexp
			if err == nil {
				rx, err = regexp.Compile("^(?:" + pat + ")$")
			}
			if err == nil {
				ts, good := dictTerms(n.kids[1].atom)
				if !good {
					ok = false
				}
				for _, t := range ts {
					if rx.MatchString(t) {
						acc.kids = append(acc.kids, at(termAtom(t)))
					}
				}
			}
			n.kids = append(n.kids, acc)
		case "fz":
			if len(n.kids) < 5 {
				return
			}
			for _, k := range n.kids[:5] {
				if k.list {
					return
				}
			}
			n.kids = n.kids[:5]
			acc := ls()
			fuzz, e1 := strconv.Atoi(n.kids[3].atom)
			pre, e2 := strconv.Atoi(n.kids[4].atom)
			if e1 == nil && e2 == nil {
				ts, good := dictTerms(n.kids[1].atom)
				if !good {
					ok = false
				}
				for _, t := range ts {
					if fuzzyAccepts(n.kids[2].atom, t, fuzz, pre) {
						acc.kids = append(acc.kids, at(termAtom(t)))
					}
				}
			}
			n.kids = append(n.kids, acc)
		}
	})
	return out, ok
}

const searchTimeout = 30 * time.Second

// runSearch: mode 0 = AllMatches, 1 = TopN(1000), 2 = TopN(1000) with score "none".
func runSearch(rd *bluge.Reader, q *sx, mode int) string {
	ch := make(chan string, 1)
	go func() {
		ch <- hlib.Catch(func() string {
			query, err := buildQuery(q)
			if err != nil {
				return "bad-query"
			}
			var req bluge.SearchRequest
			switch mode {
			case 0:
				req = bluge.NewAllMatches(query)
			case 1:
				req = bluge.NewTopNSearch(1000, query)
			default:
				req = bluge.NewTopNSearch(1000, query).SetScore("none")
			}
			it, err := rd.Search(context.Background(), req)
			if err != nil {
				return "err"
			}
			ids := []string{}
			for {
				m, err := it.Next()
				if err != nil {
					return "err"
				}
				if m == nil {
					break
				}
				id, found := "", false
				err = m.VisitStoredFields(func(field string, value []byte) bool {
					if field == "_id" {
						id, found = string(value), true
						return false
					}
					return true
				})
				if err != nil {
					return "err"
				}
				if !found {
					id = "?"
				}
				ids = append(ids, id)
			}
			if len(ids) == 0 {
				return "-"
			}
			sort.Strings(ids)
			return strings.Join(ids, " ")
		})
	}()
	select {
	case r := <-ch:
		return r
	case <-time.After(searchTimeout):
		cur.poisoned = true
		return "timeout"
	}
}

// ---------------------------------------------------------------------------------------------
// document lines

// buildDoc parses "<id> <field>..." into a document; it returns the model tokens (g= rewritten) and
// whether the text fields analyse to exactly their words.
func buildDoc(toks []string) (doc *bluge.Document, model []string, analysisOK bool, err error) {
	if len(toks) == 0 {
		return nil, nil, false, fmt.Errorf("missing id")
	}
	doc = bluge.NewDocument(toks[0])
	model = []string{toks[0]}
	analysisOK = true
	for _, tk := range toks[1:] {
		eq := strings.IndexByte(tk, '=')
		if eq != 1 {
			return nil, nil, false, fmt.Errorf("bad field token %q", tk)
		}
		name, val := tk[:1], tk[2:]
		mt := tk
		switch name {
		case "t", "u":
			words := strings.Split(val, ",")
			text := strings.Join(words, " ")
			doc.AddField(bluge.NewTextField(name, text).SearchTermPositions())
			if !analysesTo(text, words) {
				analysisOK = false
			}
		case "k":
			doc.AddField(bluge.NewKeywordField("k", val))
		case "n":
			f, e := pf(val)
			if e != nil {
				return nil, nil, false, e
			}
			doc.AddField(bluge.NewNumericField("n", f))
		case "d":
			ns, e := strconv.ParseInt(val, 10, 64)
			if e != nil {
				return nil, nil, false, e
			}
			doc.AddField(bluge.NewDateTimeField("d", time.Unix(0, ns).UTC()))
		case "g":
			p := strings.Split(val, ",")
			if len(p) != 2 {
				return nil, nil, false, fmt.Errorf("bad g token")
			}
			lon, e1 := pf(p[0])
			lat, e2 := pf(p[1])
			if e1 != nil || e2 != nil {
				return nil, nil, false, fmt.Errorf("bad g token")
			}
			doc.AddField(bluge.NewGeoPointField("g", lon, lat))
			hh := geo.MortonHash(lon, lat)
			mt = fmt.Sprintf("g=%s,%s:%s,%s", p[0], p[1], fhx(geo.MortonUnhashLon(hh)), fhx(geo.MortonUnhashLat(hh)))
		default:
			return nil, nil, false, fmt.Errorf("unknown field %q", name)
		}
		model = append(model, mt)
	}
	return doc, model, analysisOK, nil
}

var stdAnalyzer = analyzer.NewStandardAnalyzer()

func analysesTo(text string, words []string) bool {
	ts := stdAnalyzer.Analyze([]byte(text))
	if len(ts) != len(words) {
		return false
	}
	for i, t := range ts {
		if string(t.Term) != words[i] || t.PositionIncr != 1 {
			return false
		}
	}
	return true
}

// ---------------------------------------------------------------------------------------------
// Exec

func (h) Exec(line string, out func(string, string), st *hlib.Stats, work string) {
	workDir = work
	sp := strings.IndexByte(line, ' ')
	op, rest := line, ""
	if sp >= 0 {
		op, rest = line[:sp], line[sp+1:]
	}
	switch op {
	case "case":
		f := strings.Fields(rest)
		num, merge, merge3 := "?", true, false
		if len(f) > 0 {
			num = f[0]
		}
		if len(f) > 1 && f[1] == "merge=0" {
			merge = false
		}
		if len(f) > 1 && f[1] == "merge=3" {
			merge3 = true
		}
		out(line, openCase(num, merge, merge3))
		st.Count("op:case")
		return
	}
	if cur == nil {
		openCase("?", true, false)
	}
	switch op {
	case "seg":
		res := flush()
		if res != "ok" && res != "panic" {
			res = "err"
		}
		st.Count("op:seg")
		out("seg", res)
	case "ins", "upd", "del":
		st.Count("op:" + op)
		toks := strings.Fields(rest)
		if cur.pending == nil {
			cur.pending = bluge.NewBatch()
		}
		if op == "del" {
			if len(toks) != 1 {
				out(line, "bad-line")
				return
			}
			cur.pending.Delete(bluge.Identifier(toks[0]))
			cur.npending++
			delete(cur.live, toks[0])
			delete(cur.terms, toks[0])
			out(line, "ok")
			return
		}
		doc, model, okAn, err := buildDoc(toks)
		if err != nil {
			out(line, "bad-line")
			return
		}
		if op == "ins" {
			cur.pending.Insert(doc)
		} else {
			cur.pending.Update(bluge.Identifier(toks[0]), doc)
		}
		cur.npending++
		cur.live[toks[0]] = true
		cur.terms[toks[0]] = docTerms(toks[1:])
		res := "ok"
		if !okAn {
			res = "bad-analysis"
		}
		out(op+" "+strings.Join(model, " "), res)
	case "waitmerge":
		// flush, then wait (bounded) until the background in-memory merge has left a single segment
		res := flush()
		if res == "ok" && cur.writer != nil {
			deadline := time.Now().Add(5 * time.Second)
			for {
				n := -1
				hlib.Catch(func() string {
					rd, err := cur.writer.Reader()
					if err != nil {
						return "err"
					}
					if sn := snapshotOf(rd); sn != nil {
						n = len(sn.Segments())
					}
					_ = rd.Close()
					return "ok"
				})
				if n >= 0 && n <= 1 {
					st.Count("corpus:merged-to-one-segment")
					break
				}
				if time.Now().After(deadline) {
					st.Count("corpus:merge-wait-timeout")
					break
				}
				time.Sleep(2 * time.Millisecond)
			}
			if cur.merge3 {
				// phase 2: reopen the same directory with merging made inert: later batches stay separate segments
				hlib.Catch(func() string {
					if cur.reader != nil {
						_ = cur.reader.Close()
						cur.reader = nil
					}
					if cur.refReader != nil {
						_ = cur.refReader.Close()
						cur.refReader = nil
					}
					_ = cur.writer.Close()
					cur.writer = nil
					cfg := bluge.DefaultConfig(cur.dirPath)
					ic := cfg.VerifIndexConfig()
					ic.MinSegmentsForInMemoryMerge = 1000
					ic.MergePlanOptions.MaxSegmentsPerTier = 1000
					ic.MergePlanOptions.SegmentsPerMergeTask = 1000
					ic.MergePlanOptions.FloorSegmentSize = 1
					cfg = cfg.VerifWithIndexConfig(ic)
					cur.cfg = cfg
					w, err := bluge.OpenWriter(cfg)
					if err != nil {
						cur.broken = true
						st.Count("corpus:reopen-failed")
						return "err"
					}
					cur.writer = w
					st.Count("corpus:reopened-inert")
					return "ok"
				})
			}
		}
		st.Count("op:waitmerge")
		out("waitmerge", "ok")
	case "q":
		execQuery(line, rest, out, st)
	default:
		out(line, "bad-op")
	}
}

func execQuery(line, src string, out func(string, string), st *hlib.Stats) {
	key := cur.num + " " + line
	q, err := parseSx(src)
	if err != nil {
		for _, m := range []string{"all", "topn", "none"} {
			out("q "+m+" "+src, "bad-query")
		}
		st.Case(key, false)
		return
	}
	// distribution of the query's shape
	walk(q, func(n *sx, _ int) {
		st.Count("op:" + n.head())
		if n.head() == "b" && len(n.kids) == 5 {
			if len(n.kids[3].kids) > 10 {
				st.Count("shape:should>10")
			}
			if len(n.kids[3].kids) == 0 && n.kids[1].atom != "0" {
				st.Count("shape:min>0-without-should")
			}
			if len(n.kids[2].kids) == 0 && len(n.kids[3].kids) == 0 {
				st.Count("shape:only-mustnot")
			}
		}
	})
	st.Count(fmt.Sprintf("shape:depth%d", depthOf(q)))

	if flush() != "ok" {
		cur.broken = true
	}
	if walkTooLong(q) {
		out("qskip "+q.String(), "walk")
		st.Count("res:numeric-walk-capped")
		st.Case(key, false)
		return
	}
	if cur.poisoned || !ensureReader(st) {
		for _, m := range []string{"all", "topn", "none"} {
			out("q "+m+" "+q.String(), "err")
		}
		st.Count("res:err")
		st.Case(key, false)
		return
	}
	if !cur.snapDone {
		// the physical layout of the snapshot the queries run on: offsets, sizes, ids, deleted marks
		cur.snapDone = true
		out("snap", layoutOf(cur.reader))
		st.Count("op:snap")
	}
	aq, _ := annotate(q)
	as := aq.String()
	// regexp leaves whose left-most literal is case-folded (regexp/syntax keeps the upper-case spelling of such a
	// literal): a literal-prefix optimisation must not confine the dictionary walk to that spelling
	walk(aq, func(n *sx, _ int) {
		if n.head() != "re" || len(n.kids) < 4 || n.kids[2].list || !n.kids[3].list {
			return
		}
		pat, err := rePattern(n.kids[2].atom)
		if err != nil {
			return
		}
		lit, folded := leftmostLiteral(pat)
		if lit == "" {
			st.Count("regexp:no-literal-at-the-left-end")
			return
		}
		if !folded {
			st.Count("regexp:case-sensitive-literal-prefix")
			return
		}
		st.Count("regexp:folded-literal-prefix")
		for _, k := range n.kids[3].kids {
			if !k.list && !strings.HasPrefix(k.atom, lit) {
				st.Count("regexp:folded-literal-prefix-matches-term-outside-its-byte-range")
				break
			}
		}
	})
	var res [3]string
	for i, m := range []string{"all", "topn", "none"} {
		if cur.poisoned {
			res[i] = "err"
		} else {
			res[i] = runSearch(cur.reader, q, i)
		}
		shown := res[i]
		if !cur.poisoned && cur.refReader != nil && res[i] != "timeout" {
			// the same search on the history-free reference reader: a difference means the answer of the
			// reader under test depends on the searches executed before (state leaking between searches)
			if ref := runSearch(cur.refReader, q, i); ref != res[i] && ref != "timeout" {
				shown = res[i] + " !fresh=" + ref
				st.Count("res:depends-on-history")
			}
		}
		out("q "+m+" "+as, shown)
	}
	if !cur.poisoned && res[0] != "timeout" && res[0] != "panic" {
		// node-level trace of the real searcher tree (scored, and unadorned under score none)
		ta := traceSearch(cur.reader, cur.cfg, q, 0, st)
		out("trace all "+as, ta)
		if res[2] != "timeout" && res[2] != "panic" {
			tn := traceSearch(cur.reader, cur.cfg, q, 2, st)
			out("trace none "+as, tn)
			if strings.Contains(tn, "<conjunction:unadorned>") {
				if diff, same := conjOneHits(ta); diff || same {
					if diff {
						st.Count("trace:unadorned-conjunction-two-1hit-terms-different-docs")
					}
					if same {
						st.Count("trace:unadorned-conjunction-two-1hit-terms-same-doc")
					}
				}
			}
			if strings.Contains(tn, "<disjunction:unadorned>") && oneHitBeforeLastSegment(ta) {
				// score none rewrote a disjunction into ONE unadorned iterator, and (seen in the scored tree) a term of the
				// query has a 1-hit postings list in a segment that is followed by another segment
				st.Count("trace:unadorned-disjunction-with-1hit-in-earlier-segment")
			}
		}
		st.Count("op:trace")
	}
	nontrivial := false
	switch res[0] {
	case "-":
		st.Count("res:empty")
	case "err", "bad-query":
		st.Count("res:err")
	case "panic":
		st.Count("res:panic")
	case "timeout":
		st.Count("res:timeout")
	default:
		st.Count("res:some")
		n := len(strings.Split(res[0], " "))
		if n != len(cur.live) {
			nontrivial = true
		} else {
			st.Count("res:all-live")
		}
	}
	if res[0] != res[1] || res[0] != res[2] {
		st.Count("res:modes-differ")
	}
	st.Case(key, nontrivial)
}

// ---------------------------------------------------------------------------------------------
// Gen

var wordPool = []string{
	"a", "ab", "abc", "abd", "abcd", "abdc", "ac", "acb", "ad", "aa", "abb",
	"b", "ba", "bab", "bad", "bb", "bc", "bcd", "bd",
	"c", "ca", "cab", "cb", "cba", "cd",
	"d", "da", "dab", "db", "dc",
}

var numPool = []float64{0, 1, -1, 2, -2, 0.5, -0.5, 1.5, 3.5, -3.5, 10, 100, 1024, 1e6, -1e6, 1e300, -1e300,
	math.MaxFloat64, -math.MaxFloat64, math.Nextafter(1, 2), math.Nextafter(1, 0), 255, 256, 4095, 4096, 65535, 65536}

func datePool() []int64 {
	u := func(y int, m time.Month, d int) int64 { return time.Date(y, m, d, 0, 0, 0, 0, time.UTC).UnixNano() }
	y2k := u(2000, 1, 1)
	return []int64{u(1900, 3, 1), u(1950, 7, 15), u(1969, 6, 1), u(1971, 1, 1), y2k, y2k + 1, y2k - 1,
		y2k + 1000000000, y2k - 1000000000, u(2020, 2, 29), u(2100, 1, 1), u(2200, 1, 1)}
}

var geoPool = [][2]float64{{0, 0}, {-180, -90}, {179.9, 89.9}, {-0.1, 51.5}, {2.35, 48.85}, {139.7, 35.7},
	{-74, 40.7}, {151.2, -33.9}, {179.99, 0}, {-179.99, 0}}

func clamp(v, lo, hi float64) float64 {
	if v < lo {
		return lo
	}
	if v > hi {
		return hi
	}
	return v
}

type docFields struct {
	t, u []string
}

type gctx struct {
	r       *hlib.Rand
	vocab   []string
	dates   []int64
	docs    map[string]*docFields // latest fields of the live documents
	order   []string              // live ids in a deterministic order
	geoLeft int                   // geo leaves still allowed in the query tree being generated
}

func (g *gctx) word() string {
	if g.r.Chance(10) {
		return wordPool[g.r.Intn(len(wordPool))]
	}
	return g.vocab[g.r.Intn(len(g.vocab))]
}

func (g *gctx) words(lo, hi int) []string {
	n := g.r.Range(lo, hi)
	ws := make([]string, n)
	for i := range ws {
		ws[i] = g.vocab[g.r.Intn(len(g.vocab))]
	}
	return ws
}

func (g *gctx) geoPoint() (float64, float64) {
	p := geoPool[g.r.Intn(len(geoPool))]
	lon, lat := p[0], p[1]
	if g.r.Chance(50) {
		lon = clamp(lon+float64(g.r.Range(-500, 500))/1000, -180, 180)
		lat = clamp(lat+float64(g.r.Range(-500, 500))/1000, -90, 90)
	}
	return lon, lat
}

// fields draws the field tokens of one document (fixed order t u k n d g) and remembers its text.
func (g *gctx) fields(id string) []string {
	r := g.r
	df := &docFields{}
	toks := []string{}
	if r.Chance(85) {
		df.t = g.words(1, 6)
		toks = append(toks, "t="+strings.Join(df.t, ","))
	}
	if r.Chance(50) {
		df.u = g.words(1, 3)
		toks = append(toks, "u="+strings.Join(df.u, ","))
	}
	if r.Chance(70) {
		toks = append(toks, "k="+g.vocab[r.Intn(len(g.vocab))])
	}
	if r.Chance(70) {
		toks = append(toks, "n="+fhx(numPool[r.Intn(len(numPool))]))
	}
	if r.Chance(60) {
		toks = append(toks, "d="+strconv.FormatInt(g.dates[r.Intn(len(g.dates))], 10))
	}
	if r.Chance(60) {
		lon, lat := g.geoPoint()
		toks = append(toks, "g="+fhx(lon)+","+fhx(lat))
	}
	if _, ok := g.docs[id]; !ok {
		g.order = append(g.order, id)
	}
	g.docs[id] = df
	return toks
}

func (g *gctx) remove(id string) {
	delete(g.docs, id)
	for i, x := range g.order {
		if x == id {
			g.order = append(g.order[:i:i], g.order[i+1:]...)
			break
		}
	}
}

func (g *gctx) textField() string { return []string{"t", "u", "k"}[g.r.Weighted(70, 15, 15)] }

// run returns a consecutive run of n words of some live document's field f (nil if there is none).
func (g *gctx) run(f string, n int) []string {
	for try := 0; try < 8 && len(g.order) > 0; try++ {
		d := g.docs[g.order[g.r.Intn(len(g.order))]]
		ws := d.t
		if f == "u" {
			ws = d.u
		}
		if len(ws) == 0 {
			continue
		}
		if n > len(ws) {
			n = len(ws)
		}
		s := g.r.Intn(len(ws) - n + 1)
		return append([]string{}, ws[s:s+n]...)
	}
	return nil
}

func (g *gctx) leaf(kind int) *sx {
	r := g.r
	switch kind {
	case 0: // t
		return node("t", at(g.textField()), at(g.word()))
	case 1: // m
		op := "or"
		if r.Bool() {
			op = "and"
		}
		n := node("m", at(g.textField()), at(op))
		for i, k := 0, r.Range(1, 4); i < k; i++ {
			n.kids = append(n.kids, at(g.word()))
		}
		return n
	case 2: // ph
		f := []string{"t", "u"}[r.Weighted(85, 15)]
		k := r.Range(1, 4)
		var ws []string
		if r.Chance(75) {
			ws = g.run(f, k)
		}
		if ws == nil {
			ws = make([]string, k)
			for i := range ws {
				ws[i] = g.word()
			}
		} else if r.Chance(15) && len(ws) > 1 { // perturb: swap two words (slop matters)
			i := r.Intn(len(ws) - 1)
			ws[i], ws[i+1] = ws[i+1], ws[i]
		}
		n := node("ph", at(f), at(strconv.Itoa(r.Intn(3))))
		n.kids = append(n.kids, atoms(ws).kids...)
		return n
	case 3: // mp
		f := []string{"t", "u"}[r.Weighted(85, 15)]
		k := r.Range(2, 4)
		var base []string
		if r.Chance(70) {
			base = g.run(f, k)
			if len(base) < 2 {
				base = nil
			} else {
				k = len(base)
			}
		}
		hole := -1
		if k >= 3 && r.Chance(25) {
			hole = r.Range(1, k-2)
		}
		n := node("mp", at(f), at(strconv.Itoa(r.Intn(3))))
		for i := 0; i < k; i++ {
			if i == hole {
				n.kids = append(n.kids, ls())
				continue
			}
			cnt := r.Range(1, 3)
			seen := map[string]bool{}
			pos := ls()
			if base != nil {
				seen[base[i]] = true
				pos.kids = append(pos.kids, at(base[i]))
			}
			for len(pos.kids) < cnt {
				w := g.word()
				if seen[w] {
					cnt--
					continue
				}
				seen[w] = true
				pos.kids = append(pos.kids, at(w))
			}
			n.kids = append(n.kids, pos)
		}
		return n
	case 4: // px
		w := g.word()
		l := r.Range(1, 2)
		if l > len(w) {
			l = len(w)
		}
		return node("px", at(g.textField()), at(w[:l]))
	case 5: // wc
		w := []byte(g.word())
		var pat string
		switch r.Intn(7) {
		case 0:
			pat = string(w) + "*"
		case 1:
			pat = "*" + string(w)
		case 2:
			pat = "*" + string(w[r.Intn(len(w))]) + "*"
		case 3:
			w[r.Intn(len(w))] = '?'
			pat = string(w)
		case 4:
			w[r.Intn(len(w))] = '?'
			if r.Bool() {
				w[r.Intn(len(w))] = '?'
			}
			pat = string(w) + "*"
		case 5:
			i := r.Intn(len(w) + 1)
			pat = string(w[:i]) + "*" + string(w[i:])
		default:
			pat = string(w[:1]) + "*"
			if r.Bool() {
				pat = "?" + string(w[len(w)-1:])
			}
		}
		return node("wc", at(g.textField()), at(pat))
	case 6: // re
		w1, w2 := g.word(), g.word()
		c := string(w1[0])
		var pat string
		switch r.Intn(11) {
		case 0:
			pat = c + ".*"
		case 1:
			pat = "ab?c*"
		case 2:
			pat = "(" + w1 + "|" + w2 + ").*"
		case 3:
			pat = "[abc]+"
		case 4:
			pat = c + "{1,2}" + string(w2[0])
		case 5:
			pat = w1 + "|" + w2
		case 6:
			pat = ".?" + w1
		case 7:
			pat = "[^" + c + "]*"
		case 8:
			pat = w1 + ".?"
		case 9:
			pat = "(" + c + "|" + string(w2[len(w2)-1]) + ")+"
		default:
			pat = "." + string(w2[0]) + ".*"
		}
		return node("re", at(g.textField()), at("x"+hex.EncodeToString([]byte(pat))))
	case 7: // fz
		w := g.word()
		if r.Chance(50) {
			w = editOnce(r, w)
		}
		fuzz := 1
		switch {
		case r.Chance(1):
			fuzz = 0 // expected to panic on the current tree
		case r.Chance(3):
			fuzz = 3 // must give an error
		case r.Chance(42):
			fuzz = 2
		}
		return node("fz", at(g.textField()), at(w), at(strconv.Itoa(fuzz)), at(strconv.Itoa(r.Intn(3))))
	case 8: // tr
		end := func() string {
			w := g.word()
			if r.Chance(35) {
				w = w[:r.Range(1, len(w))]
			}
			return w
		}
		a, b := end(), end()
		if a > b {
			a, b = b, a
		}
		switch k := r.Intn(100); {
		case k < 20:
			a, b = b, a // inverted (or equal)
		case k < 30:
			b = a // degenerate
		case k < 45:
			if r.Bool() {
				a = "_"
			} else {
				b = "_"
			}
		}
		return node("tr", at(g.textField()), at(a), at(b), at(strconv.Itoa(r.Intn(2))), at(strconv.Itoa(r.Intn(2))))
	case 9: // nr
		for {
			pick := func() float64 {
				switch k := r.Intn(100); {
				case k < 6:
					return math.Inf(-1)
				case k < 12:
					return math.Inf(1)
				}
				return numPool[r.Intn(len(numPool))]
			}
			a, b := pick(), pick()
			if a > b {
				a, b = b, a
			}
			switch k := r.Intn(100); {
			case k < 15:
				a, b = b, a
			case k < 25:
				b = a
			}
			ia, ib := numeric.Float64ToInt64(a), numeric.Float64ToInt64(b)
			if ia < 0 && 0 <= ib && !(math.Abs(a) >= 1e-300 && math.Abs(b) >= 1e-300) {
				continue
			}
			return node("nr", at("n"), at(fhx(a)), at(fhx(b)), at(strconv.Itoa(r.Intn(2))), at(strconv.Itoa(r.Intn(2))))
		}
	case 10: // dr
		for {
			a, b := g.dates[r.Intn(len(g.dates))], g.dates[r.Intn(len(g.dates))]
			if a > b {
				a, b = b, a
			}
			sa, sb := strconv.FormatInt(a, 10), strconv.FormatInt(b, 10)
			va, vb := float64(a), float64(b) // only the signs matter below
			switch k := r.Intn(100); {
			case k < 20:
				if r.Bool() {
					sa, va = "z", math.Inf(-1)
				} else {
					sb, vb = "z", math.Inf(1)
				}
			case k < 35:
				sa, sb, va, vb = sb, sa, vb, va
			case k < 45:
				sb, vb = sa, va
			}
			if va < 0 && 0 <= vb {
				continue // would straddle 1970
			}
			return node("dr", at("d"), at(sa), at(sb), at(strconv.Itoa(r.Intn(2))), at(strconv.Itoa(r.Intn(2))))
		}
	case 11: // gb
		// Cost note: bluge looks up every detail-level cell along the box's border in every segment's
		// dictionary (measured: about 7 ms per degree of half-width and run on a busy machine), so the
		// half-widths 0.3..30 are skewed to small boxes and a date-line box is a box that wraps at +-180.
		half := func() float64 {
			switch r.Weighted(80, 17, 3) {
			case 0:
				return float64(r.Range(3, 10)) / 10
			case 1:
				return float64(r.Range(10, 40)) / 10
			}
			return float64(r.Range(40, 300)) / 10
		}
		hw, hh := half(), half()
		if r.Chance(10) { // crosses the date line: topLeftLon > bottomRightLon
			p := [][2]float64{{179.99, 0}, {-179.99, 0}, {179.9, 89.9}, {-180, -90}}[r.Intn(4)]
			wrap := func(v float64) float64 {
				if v > 180 {
					return v - 360
				}
				if v < -180 {
					return v + 360
				}
				return v
			}
			minLon, maxLon := wrap(p[0]-hw), wrap(p[0]+hw)
			minLat, maxLat := clamp(p[1]-hh, -90, 90), clamp(p[1]+hh, -90, 90)
			return node("gb", at("g"), at(fhx(minLon)), at(fhx(maxLat)), at(fhx(maxLon)), at(fhx(minLat)))
		}
		lon, lat := g.geoPoint()
		minLon, maxLon := clamp(lon-hw, -180, 180), clamp(lon+hw, -180, 180)
		minLat, maxLat := clamp(lat-hh, -90, 90), clamp(lat+hh, -90, 90)
		return node("gb", at("g"), at(fhx(minLon)), at(fhx(maxLat)), at(fhx(maxLon)), at(fhx(minLat)))
	case 12: // gd
		// Cost note: a circle touching a pole makes bluge walk all longitudes (seconds), so polar centres are rare.
		var lon, lat float64
		for {
			lon, lat = g.geoPoint()
			if math.Abs(lat) < 85 || r.Chance(3) {
				break
			}
		}
		d := []float64{100, 1000, 50e3, 500e3, 2e6}[r.Weighted(30, 25, 37, 5, 3)]
		return node("gd", at("g"), at(fhx(lon)), at(fhx(lat)), at(fhx(d)))
	case 13:
		return node("all")
	default:
		return node("none")
	}
}

func editOnce(r *hlib.Rand, w string) string {
	b := []byte(w)
	c := byte('a' + r.Intn(4))
	switch r.Intn(4) {
	case 0: // substitute
		b[r.Intn(len(b))] = c
	case 1: // insert
		i := r.Intn(len(b) + 1)
		b = append(b[:i:i], append([]byte{c}, b[i:]...)...)
	case 2: // delete
		if len(b) > 1 {
			i := r.Intn(len(b))
			b = append(b[:i:i], b[i+1:]...)
		}
	default: // transpose
		if len(b) > 1 {
			i := r.Intn(len(b) - 1)
			b[i], b[i+1] = b[i+1], b[i]
		}
	}
	return string(b)
}

// anyLeaf draws a leaf kind by weight; geo leaves (by far the most expensive to execute: 10-1000 ms
// against well under 1 ms for the others) are allowed in half of the query trees and limited to
// maxGeoPerQuery per tree; other draws of a geo kind are redrawn.
func (g *gctx) anyLeaf() *sx {
	for {
		k := g.r.Weighted(25, 8, 6, 4, 6, 5, 4, 5, 5, 8, 5, 4, 4, 2, 1)
		if k == 11 || k == 12 {
			if g.geoLeft <= 0 {
				continue
			}
			g.geoLeft--
		}
		return g.leaf(k)
	}
}

const maxGeoPerQuery = 1

func (g *gctx) query(depth int) *sx {
	r := g.r
	if depth >= 4 || !r.Chance(45) {
		return g.anyLeaf()
	}
	var nm, ns, nn int
	wide := r.Chance(15)
	for {
		nm, ns, nn = r.Range(0, 3), r.Range(0, 4), r.Range(0, 2)
		if wide {
			ns = r.Range(11, 12)
		}
		if nm+ns+nn > 0 {
			break
		}
	}
	child := func(cheap bool) *sx {
		if cheap && r.Chance(90) {
			return g.leaf(0)
		}
		return g.query(depth + 1)
	}
	must, should, not := ls(), ls(), ls()
	for i := 0; i < nm; i++ {
		must.kids = append(must.kids, child(false))
	}
	for i := 0; i < ns; i++ {
		should.kids = append(should.kids, child(wide))
	}
	for i := 0; i < nn; i++ {
		not.kids = append(not.kids, child(false))
	}
	min := r.Weighted(4, 3, 2, 1)
	if ns == 0 {
		min = 0
		if r.Chance(3) {
			min = 1 // degenerate shape kept on purpose
		}
	}
	return node("b", at(strconv.Itoa(min)), must, should, not)
}

func (h) Gen(r *hlib.Rand, tier string, scale int, emit func(string)) {
	if scale < 1 {
		scale = 1
	}
	caseNo := 0
	// fixed regression corpus
	emit(fmt.Sprintf("case %d merge=0", caseNo))
	caseNo++
	for _, l := range []string{"seg", "ins d0 t=x", "ins d1 t=x,y", "seg", "ins d2 t=x,z", "ins d3 t=y",
		"q (b 1 ((t t x)) ((t t y) (t t z)) ())",
		"q (b 0 ((t t x)) ((t t y) (t t z)) ())",
		"q (b 1 () ((t t y) (t t z)) ())",
		"q (fz t x 1 0)"} {
		emit(l)
	}

	// second fixed case: an earlier search whose nested boolean seeks a postings iterator backwards
	// (Advance restarts and recycles the iterator that stays in use), then a query whose answer is empty
	// by construction (should clauses = must-not clauses)
	caseNo++
	for _, l := range []string{
		fmt.Sprintf("case %d merge=0", caseNo),
		"seg", "ins d0 t=b,c", "ins d1 t=b", "ins d2 t=a,b,c",
		"seg", "ins d3 t=a", "ins d4 t=c",
		"q (b 0 ((t t c) (b 0 ((t t a)) ((t t c)) ((t t b) (t t c)))) () ((t t b)))",
		"q (b 0 () ((t t a) (t t b)) ((t t a) (t t b)))"} {
		emit(l)
	}
	caseNo++

	// geo corpora built around one query circle: clusters of points in the corners of the circle's
	// bounding box (inside the coarse cell cover, outside the circle) with adjacent doc numbers, and
	// boolean shapes that make the parent ADVANCE the geo (filtering) searcher
	ngeo := 4 * scale
	if tier == "thorough" {
		ngeo = 60 * scale
	}
	for c := 0; c < ngeo; c++ {
		genGeoCorner(r, caseNo, emit)
		caseNo++
	}

	// a merged segment holding 1-hit postings lists, followed by a later segment
	nmerged, ndate := 4*scale, 2*scale
	if tier == "thorough" {
		nmerged, ndate = 60*scale, 20*scale
	}
	for c := 0; c < nmerged; c++ {
		genMergedOneHit(r, caseNo, emit)
		caseNo++
	}
	// datetime values at both ends of the nanosecond time line with open-ended date ranges
	for c := 0; c < ndate; c++ {
		genDateEdge(r, caseNo, emit)
		caseNo++
	}

	// case-folded literals at the left end of regexp patterns over lower / upper / mixed-case keyword terms
	nfold := 2 * scale
	if tier == "thorough" {
		nfold = 20 * scale
	}
	for c := 0; c < nfold; c++ {
		genRegexpFold(r, caseNo, emit)
		caseNo++
	}

	ncases := 50 * scale
	if tier == "thorough" {
		ncases = 1500 * scale
	}
	for c := 0; c < ncases; c++ {
		genCase(r, caseNo, emit)
		caseNo++
	}
	if tier == "thorough" {
		for i := 0; i < 32768; i++ {
			if scale < 4 && (i+i>>3+i>>6+i>>9+i>>12)%4 != 0 {
				// a quarter of the corpora, chosen so that every document still sees all eight subsets
				continue
			}
			genSmallScope(r, caseNo, i, emit)
			caseNo++
		}
	}
}

func genCase(r *hlib.Rand, caseNo int, emit func(string)) {
	g := &gctx{r: r, dates: datePool(), docs: map[string]*docFields{}}
	nv := r.Range(3, 8)
	seen := map[string]bool{}
	for len(g.vocab) < nv {
		w := wordPool[r.Intn(len(wordPool))]
		if !seen[w] {
			seen[w] = true
			g.vocab = append(g.vocab, w)
		}
	}
	merge := 1
	if r.Chance(70) {
		merge = 0
	}
	emit(fmt.Sprintf("case %d merge=%d", caseNo, merge))

	ndocs := r.Range(6, 40)
	nb := r.Range(2, 6)
	perBatch := make([]int, nb)
	perBatch[0] = 1
	for i := 1; i < ndocs; i++ {
		perBatch[r.Intn(nb)]++
	}
	next := 0
	dead := []string{}
	for b := 0; b < nb; b++ {
		emit("seg")
		ops := []string{}
		named := map[string]bool{}
		// deletes and updates of ids that were live before this batch
		var dels, upds []string
		if b > 0 {
			cand := append([]string{}, g.order...)
			pickN := func(n int) []string {
				out := []string{}
				for i := 0; i < n && len(cand) > 0; i++ {
					j := r.Intn(len(cand))
					out = append(out, cand[j])
					cand = append(cand[:j:j], cand[j+1:]...)
				}
				return out
			}
			dels = pickN(r.Range(1, 3))
			upds = pickN(r.Range(1, 3))
		}
		// sometimes re-insert an id deleted by an earlier batch
		if b > 0 && len(dead) > 0 && r.Chance(15) {
			j := r.Intn(len(dead))
			id := dead[j]
			dead = append(dead[:j:j], dead[j+1:]...)
			named[id] = true
			ops = append(ops, "ins "+strings.Join(append([]string{id}, g.fields(id)...), " "))
		}
		for _, id := range dels {
			named[id] = true
			g.remove(id)
			dead = append(dead, id)
			ops = append(ops, "del "+id)
		}
		for _, id := range upds {
			named[id] = true
			ops = append(ops, "upd "+strings.Join(append([]string{id}, g.fields(id)...), " "))
		}
		for i := 0; i < perBatch[b]; i++ {
			id := "d" + strconv.Itoa(next)
			next++
			named[id] = true
			ops = append(ops, "ins "+strings.Join(append([]string{id}, g.fields(id)...), " "))
		}
		// shuffle (ids are distinct within the batch, so the order carries no meaning)
		for i := len(ops) - 1; i > 0; i-- {
			j := r.Intn(i + 1)
			ops[i], ops[j] = ops[j], ops[i]
		}
		for _, o := range ops {
			emit(o)
		}
	}
	for i := 0; i < 25; i++ {
		g.geoLeft = 0
		if r.Chance(50) {
			g.geoLeft = maxGeoPerQuery
		}
		emit("q " + g.query(1).String())
	}
}

// genGeoCorner: one circle (centre, radius); documents are placed relative to it:
//   corner  at 0.90-0.95 of the half-width AND half-height of the circle's bounding box (distance about
//           1.3 radius: matched by the box/cell cover the geo searcher starts from, rejected by its filter),
//           in runs of 2-4 consecutive doc numbers, most of them carrying the rare tag k=<tag>;
//   inside  at 0.1-0.6 radius; far at more than 3 radii (outside the box); some documents without a point.
// No point lies within 20% of the circle's edge, so every answer is decided (never `na`).
func genGeoCorner(r *hlib.Rand, caseNo int, emit func(string)) {
	emit(fmt.Sprintf("case %d merge=0", caseNo))
	centres := [][2]float64{{2.35, 48.85}, {-74, 40.7}, {139.7, 35.7}, {151.2, -33.9}, {10, 0.5}, {-0.1, 51.5}}
	c := centres[r.Intn(len(centres))]
	radius := []float64{100e3, 50e3, 200e3}[r.Weighted(60, 20, 20)]
	dLat := radius / 111195.08
	dLon := dLat / math.Cos(c[1]*math.Pi/180)
	tag := []string{"ab", "cd", "ba"}[r.Intn(3)]
	other := "dc"
	words := []string{"a", "b", "c", "ab"}
	sign := func() float64 {
		if r.Bool() {
			return 1
		}
		return -1
	}
	next := 0
	doc := func(kind int, tagged bool) string {
		id := "d" + strconv.Itoa(next)
		next++
		toks := []string{id, "t=" + words[r.Intn(len(words))] + "," + words[r.Intn(len(words))]}
		if tagged {
			toks = append(toks, "k="+tag)
		} else if r.Chance(60) {
			toks = append(toks, "k="+other)
		}
		var lon, lat float64
		switch kind {
		case 0: // corner
			lon = c[0] + sign()*(0.90+float64(r.Intn(6))/100)*dLon
			lat = c[1] + sign()*(0.90+float64(r.Intn(6))/100)*dLat
		case 1: // inside
			f := 0.1 + float64(r.Intn(6))/10
			a := float64(r.Intn(360)) * math.Pi / 180
			lon = c[0] + f*dLon*math.Cos(a)
			lat = c[1] + f*dLat*math.Sin(a)
		case 2: // far
			lon = clamp(c[0]+sign()*(3+float64(r.Intn(20)))*dLon, -179, 179)
			lat = clamp(c[1]+sign()*(3+float64(r.Intn(10)))*dLat, -85, 85)
		default:
			return "ins " + strings.Join(toks, " ")
		}
		toks = append(toks, "g="+fhx(lon)+","+fhx(lat))
		return "ins " + strings.Join(toks, " ")
	}
	nb := r.Range(1, 3)
	for b := 0; b < nb; b++ {
		emit("seg")
		for grp, ngrp := 0, r.Range(3, 7); grp < ngrp; grp++ {
			switch r.Weighted(45, 25, 20, 10) {
			case 0:
				for i, k := 0, r.Range(2, 4); i < k; i++ {
					emit(doc(0, r.Chance(75)))
				}
			case 1:
				emit(doc(1, r.Chance(40)))
			case 2:
				emit(doc(2, r.Chance(40)))
			default:
				emit(doc(3, r.Chance(40)))
			}
		}
	}
	gd := func() *sx { return node("gd", at("g"), at(fhx(c[0])), at(fhx(c[1])), at(fhx(radius))) }
	tg := func() *sx { return node("t", at("k"), at(tag)) }
	tw := func() *sx { return node("t", at("t"), at(words[r.Intn(len(words))])) }
	b := func(min int, m, s, n []*sx) *sx {
		return node("b", at(strconv.Itoa(min)), ls(m...), ls(s...), ls(n...))
	}
	qs := []*sx{
		b(0, []*sx{tg(), gd()}, nil, nil),
		b(0, []*sx{gd(), tg()}, nil, nil),
		b(1, []*sx{tg()}, []*sx{gd()}, nil),
		b(0, []*sx{tg()}, nil, []*sx{gd()}),
		b(0, []*sx{b(0, []*sx{tg(), gd()}, nil, nil)}, nil, []*sx{tw()}),
		b(0, []*sx{tw(), gd()}, nil, nil),
		b(0, []*sx{tg(), tw(), gd()}, nil, nil),
		b(1, []*sx{tg()}, []*sx{gd(), tw()}, nil),
		gd(),
	}
	for _, q := range qs {
		emit("q " + q.String())
	}
}

// oneHitBeforeLastSegment: does the traced tree hold a postings leaf `(term p <field> <term> <seg>…)` with a
// 1-hit iterator (`h<n>`) in a segment that is not the last one?
func oneHitBeforeLastSegment(trace string) bool {
	tree := trace
	if i := strings.Index(trace, " @ "); i >= 0 {
		tree = trace[:i]
	}
	for _, part := range strings.Split(tree, "(term p ")[1:] {
		end := strings.IndexByte(part, ')')
		if end < 0 {
			continue
		}
		toks := strings.Fields(part[:end])
		if len(toks) < 4 {
			continue
		}
		segs := toks[2:]
		for i, sg := range segs[:len(segs)-1] {
			_ = i
			if strings.HasPrefix(sg, "h") {
				return true
			}
		}
	}
	return false
}

// genMergedOneHit: three batches whose documents carry keywords that occur exactly ONCE (field k has no
// positions: after the in-memory merge of the three segments those postings lists are 1-hit encoded), a wait
// for that merge, then ONE more batch with at least as many documents, none of which carries a rare keyword:
// the snapshot is [merged segment with 1-hit lists, later segment]. Queries: disjunctions of two or more of
// the rare keywords (should clauses, prefix / wildcard / regexp / fuzzy / range over field k).
func genMergedOneHit(r *hlib.Rand, caseNo int, emit func(string)) {
	emit(fmt.Sprintf("case %d merge=3", caseNo))
	rare := []string{"ca", "cb", "cab", "cba", "da", "db", "dab", "dc", "bd", "bcd"}
	for i := len(rare) - 1; i > 0; i-- {
		j := r.Intn(i + 1)
		rare[i], rare[j] = rare[j], rare[i]
	}
	common := []string{"a", "ab", "abc"}
	words := []string{"a", "b", "ab", "bb"}
	next, used := 0, 0
	rareDoc := map[string]string{}
	var plainDocs []string
	doc := func(kw string) string {
		id := "d" + strconv.Itoa(next)
		if kw != "" && len(kw) >= 2 && kw != "ab" && kw != "abc" {
			rareDoc[kw] = id
		} else {
			plainDocs = append(plainDocs, id)
		}
		next++
		toks := []string{id}
		if r.Chance(70) {
			toks = append(toks, "t="+words[r.Intn(len(words))]+","+words[r.Intn(len(words))])
		}
		if kw != "" {
			toks = append(toks, "k="+kw)
		}
		return "ins " + strings.Join(toks, " ")
	}
	first := 0
	for b := 0; b < 3; b++ {
		emit("seg")
		for i, n := 0, r.Range(2, 4); i < n; i++ {
			switch {
			case used < len(rare) && (used < 3 || r.Chance(70)):
				emit(doc(rare[used]))
				used++
			case r.Chance(50):
				emit(doc(common[r.Intn(len(common))]))
			default:
				emit(doc(""))
			}
			first++
		}
	}
	emit("waitmerge")
	emit("seg")
	for i, n := 0, first+r.Range(0, 3); i < n; i++ {
		if r.Chance(60) {
			emit(doc(common[r.Intn(len(common))]))
		} else {
			emit(doc(""))
		}
	}
	if r.Chance(50) && first > 1 {
		emit("del d" + strconv.Itoa(r.Intn(first)))
	}
	rk := func() *sx { return node("t", at("k"), at(rare[r.Intn(used)])) }
	b := func(min int, m, s, n []*sx) *sx {
		return node("b", at(strconv.Itoa(min)), ls(m...), ls(s...), ls(n...))
	}
	qs := []*sx{
		b(0, nil, []*sx{rk(), rk()}, nil),
		b(1, nil, []*sx{rk(), rk(), rk()}, nil),
		b(1, []*sx{node("all")}, []*sx{rk(), rk()}, nil),
		b(0, nil, []*sx{rk(), rk(), node("t", at("k"), at(common[0]))}, nil),
		node("px", at("k"), at("c")),
		node("px", at("k"), at("d")),
		node("wc", at("k"), at("*b*")),
		node("wc", at("k"), at("?a*")),
		node("re", at("k"), at("x"+hex.EncodeToString([]byte("[cd].*")))),
		node("tr", at("k"), at("b"), at("e"), at("1"), at("0")),
		node("fz", at("k"), at("cab"), at("1"), at("0")),
		b(0, []*sx{b(0, nil, []*sx{rk(), rk()}, nil)}, nil, []*sx{node("t", at("t"), at("bb"))}),
	}
	// the conjunction side (optimizeConjunctionUnadorned): score-none conjunctions of terms that are 1-hit encoded in the
	// merged segment — once-only keywords and _id terms — for DIFFERENT documents (nothing matches), for the SAME document,
	// and mixed with a frequent positioned term, in both clause orders
	ri := func(i int) string { return rare[i%used] }
	kt := func(w string) *sx { return node("t", at("k"), at(w)) }
	idt := func(id string) *sx { return node("t", at("_id"), at(id)) }
	tw := func() *sx { return node("t", at("t"), at(words[r.Intn(len(words))])) }
	must := func(m ...*sx) *sx { return b(0, m, nil, nil) }
	a, c2, c3 := ri(0), ri(1), ri(2)
	cq := []*sx{
		must(kt(a), kt(c2)), must(kt(c2), kt(a)), must(kt(a), kt(c2), kt(c3)),
		must(kt(a), idt(rareDoc[a])), must(idt(rareDoc[a]), kt(a)),
		must(kt(a), idt(rareDoc[c2])), must(idt(rareDoc[a]), idt(rareDoc[c2])),
		must(kt(a), kt(c2), tw()), must(tw(), kt(a), kt(c2)), must(tw(), kt(a)), must(kt(c2), tw()),
		must(tw(), idt(rareDoc[c3]), kt(c3)), must(tw(), idt(rareDoc[c3]), kt(a), tw()),
		b(0, []*sx{must(kt(a), kt(c2))}, []*sx{kt(c3)}, nil),
		b(0, []*sx{node("all")}, nil, []*sx{must(kt(a), kt(c2))}),
	}
	if len(plainDocs) > 0 {
		cq = append(cq, must(idt(plainDocs[0]), kt(a)), must(idt(plainDocs[len(plainDocs)-1]), tw()))
	}
	for _, q := range append(qs, cq...) {
		emit("q " + q.String())
	}
}

// conjOneHits inspects the all-term conjunctions `(conj (term p …) (term p …) …)` of a scored trace: does one hold two
// terms that are 1-hit encoded in the SAME segment for different documents / for the same document?
func conjOneHits(trace string) (different, same bool) {
	tree := trace
	if i := strings.Index(trace, " @ "); i >= 0 {
		tree = trace[:i]
	}
	for _, m := range conjOfTermsRe.FindAllStringSubmatch(tree, -1) {
		var kids [][]string
		for _, part := range strings.Split(m[1], "(term p ")[1:] {
			end := strings.IndexByte(part, ')')
			if end < 0 {
				continue
			}
			toks := strings.Fields(part[:end])
			if len(toks) >= 3 {
				kids = append(kids, toks[2:])
			}
		}
		for i := 0; i < len(kids); i++ {
			for j := i + 1; j < len(kids); j++ {
				for sg := 0; sg < len(kids[i]) && sg < len(kids[j]); sg++ {
					x, y := kids[i][sg], kids[j][sg]
					if strings.HasPrefix(x, "h") && strings.HasPrefix(y, "h") {
						if x == y {
							same = true
						} else {
							different = true
						}
					}
				}
			}
		}
	}
	return
}

var conjOfTermsRe = regexp.MustCompile(`\(conj((?: \(term p [^()]*\))+)\)`)

// genDateEdge: datetime values within 2^52 ns (about 52 days) of either end of the int64 nanosecond time
// line (years 1677 and 2262) next to ordinary dates, and half-open date ranges facing those ends.
func genDateEdge(r *hlib.Rand, caseNo int, emit func(string)) {
	emit(fmt.Sprintf("case %d merge=0", caseNo))
	const span = int64(1) << 52
	y2k := time.Date(2000, 1, 1, 0, 0, 0, 0, time.UTC).UnixNano()
	y1900 := time.Date(1900, 3, 1, 0, 0, 0, 0, time.UTC).UnixNano()
	vals := []int64{math.MaxInt64, math.MaxInt64 - 1, math.MaxInt64 - 1000000000, math.MaxInt64 - span/2, math.MaxInt64 - span + 1,
		math.MaxInt64 - span - 1, math.MaxInt64 - 3*span,
		math.MinInt64, math.MinInt64 + 1, math.MinInt64 + span/2, math.MinInt64 + span - 1, math.MinInt64 + span + 1, math.MinInt64 + 3*span,
		y2k, y2k + 1, y1900, 1, -1}
	for i := len(vals) - 1; i > 0; i-- {
		j := r.Intn(i + 1)
		vals[i], vals[j] = vals[j], vals[i]
	}
	n := 0
	for b := 0; b < 2; b++ {
		emit("seg")
		for i := 0; i < len(vals)/2; i++ {
			toks := []string{"d" + strconv.Itoa(n), "k=" + []string{"a", "b"}[r.Intn(2)], "d=" + strconv.FormatInt(vals[n], 10)}
			emit("ins " + strings.Join(toks, " "))
			n++
		}
	}
	s := func(v int64) string { return strconv.FormatInt(v, 10) }
	dr := func(a, b string, ia, ib int) *sx {
		return node("dr", at("d"), at(a), at(b), at(strconv.Itoa(ia)), at(strconv.Itoa(ib)))
	}
	bq := func(m ...*sx) *sx { return node("b", at("0"), ls(m...), ls(), ls()) }
	qs := []*sx{
		dr(s(y2k), "z", 1, 0), dr(s(y2k), "z", 0, 1), dr("z", s(y1900), 0, 1), dr("z", s(y1900), 1, 0),
		dr(s(math.MaxInt64-3*span), "z", 1, 1), dr(s(math.MaxInt64-span/2), "z", 1, 1),
		dr("z", s(math.MinInt64+3*span), 1, 1), dr("z", s(math.MinInt64+span/2), 1, 1),
		dr(s(y2k), s(math.MaxInt64), 1, 1), dr(s(math.MinInt64), s(y1900), 1, 1),
		bq(node("t", at("k"), at("a")), dr(s(y2k), "z", 1, 0)),
		bq(node("t", at("k"), at("b")), dr("z", s(y1900), 0, 1)),
	}
	for _, q := range qs {
		emit("q " + q.String())
	}
}

// leftmostLiteral follows the left-most branch of the parsed pattern through concatenations and capture groups;
// it returns the literal found there (as regexp/syntax stores it) and whether it carries the FoldCase flag.
func leftmostLiteral(pat string) (string, bool) {
	re, err := syntax.Parse(pat, syntax.Perl)
	if err != nil {
		return "", false
	}
	for re != nil && (re.Op == syntax.OpConcat || re.Op == syntax.OpCapture) {
		if len(re.Sub) < 1 {
			return "", false
		}
		re = re.Sub[0]
	}
	if re != nil && re.Op == syntax.OpLiteral {
		return string(re.Rune), re.Flags&syntax.FoldCase != 0
	}
	return "", false
}

// genRegexpFold: keyword terms in lower, upper and mixed case sharing their letters (the keyword field is not
// analysed), and regexp patterns whose LEFT-MOST literal is case-folded — (?i)…, (?i:…)…, a two-case class
// [aA]…, factored folded alternations, each also behind a leading capture group — next to control patterns
// that keep a case-sensitive literal prefix; every pattern as a positive clause and as a must-not clause.
func genRegexpFold(r *hlib.Rand, caseNo int, emit func(string)) {
	emit(fmt.Sprintf("case %d merge=0", caseNo))
	kws := []string{"abc", "Abc", "ABC", "aBC", "abd", "ABD", "Abd", "abcd", "ABCD", "aBcD", "xbc", "Xbc", "xbd", "XBD",
		"bc", "ab", "AB", "b", "B", "bcd", "abC"}
	for i := len(kws) - 1; i > 0; i-- {
		j := r.Intn(i + 1)
		kws[i], kws[j] = kws[j], kws[i]
	}
	words := []string{"a", "b", "ab"}
	n := 0
	half := len(kws) / 2
	for b := 0; b < 2; b++ {
		emit("seg")
		lo, hi := 0, half
		if b == 1 {
			lo, hi = half, len(kws)
		}
		for _, kw := range kws[lo:hi] {
			toks := []string{"d" + strconv.Itoa(n), "t=" + words[r.Intn(len(words))], "k=" + kw}
			emit("ins " + strings.Join(toks, " "))
			n++
		}
		if b == 1 {
			emit("del d" + strconv.Itoa(r.Intn(half)))
			emit("upd d" + strconv.Itoa(r.Intn(half)) + " t=b k=" + kws[r.Intn(len(kws))])
		}
	}
	folded := []string{"(?i)abc", "(?i)ab.*", "(?i:a)bc", "[aA]bc", "[aA]b.*", "(?i:x)bc|(?i:x)bd", "((?i)ab)c.*", "((?i:a)b)d?",
		"(?i)(abc)d?", "([aA]b)c", "(?i)x.*", "(?i)b", "(?i:ab)(c|d)", "(?i)abcd?"}
	control := []string{"abc", "ab.*", "(abc)d?", "(ab)(c|d)", "ab(?i:C)", "ABC", "A.*", "(A)b.*", "a(?i)bc", ".?bc", "[ab]c?"}
	re := func(p string) *sx { return node("re", at("k"), at("x"+hex.EncodeToString([]byte(p)))) }
	b := func(min int, m, s, nn []*sx) *sx {
		return node("b", at(strconv.Itoa(min)), ls(m...), ls(s...), ls(nn...))
	}
	tt := func() *sx { return node("t", at("t"), at(words[r.Intn(len(words))])) }
	for _, p := range append(append([]string{}, folded...), control...) {
		emit("q " + re(p).String())
		switch r.Intn(3) {
		case 0:
			emit("q " + b(0, nil, nil, []*sx{re(p)}).String())
		case 1:
			emit("q " + b(0, []*sx{tt()}, nil, []*sx{re(p)}).String())
		default:
			emit("q " + b(1, nil, []*sx{re(p), tt()}, []*sx{node("t", at("k"), at("abd"))}).String())
		}
	}
	for _, p := range folded[:6] {
		emit("q " + b(0, []*sx{node("all")}, nil, []*sx{re(p)}).String())
		emit("q " + b(0, []*sx{re(p), tt()}, nil, nil).String())
	}
}

// genSmallScope: corpus idx assigns a subset of {a,b,c} to each of five documents (3 bits each).
func genSmallScope(r *hlib.Rand, caseNo, idx int, emit func(string)) {
	emit(fmt.Sprintf("case %d merge=0", caseNo))
	letters := []string{"a", "b", "c"}
	for d := 0; d < 5; d++ {
		if d == 0 || d == 3 {
			emit("seg")
		}
		m := (idx >> (3 * d)) & 7
		ws := []string{}
		for i, l := range letters {
			if m>>i&1 == 1 {
				ws = append(ws, l)
			}
		}
		if len(ws) == 0 {
			emit(fmt.Sprintf("ins d%d k=z", d))
		} else {
			emit(fmt.Sprintf("ins d%d t=%s", d, strings.Join(ws, ",")))
		}
	}
	leafOf := func(i int) *sx { return node("t", at("t"), at(letters[i])) }
	var shape1 func() *sx
	shape1 = func() *sx {
		for {
			mm, sm, nm := r.Intn(8), r.Intn(8), r.Intn(8)
			if mm|sm|nm == 0 {
				continue
			}
			grp := func(mask int) *sx {
				l := ls()
				for i := 0; i < 3; i++ {
					if mask>>i&1 == 1 {
						l.kids = append(l.kids, leafOf(i))
					}
				}
				return l
			}
			min := r.Intn(3)
			if sm == 0 {
				min = 0
			}
			return node("b", at(strconv.Itoa(min)), grp(mm), grp(sm), grp(nm))
		}
	}
	shape2 := func() *sx {
		for {
			grp := func() *sx {
				l := ls()
				for i, k := 0, r.Intn(3); i < k; i++ {
					if r.Bool() {
						l.kids = append(l.kids, leafOf(r.Intn(3)))
					} else {
						l.kids = append(l.kids, shape1())
					}
				}
				return l
			}
			m, s, n := grp(), grp(), grp()
			if len(m.kids)+len(s.kids)+len(n.kids) == 0 {
				continue
			}
			min := r.Intn(3)
			if len(s.kids) == 0 {
				min = 0
			}
			return node("b", at(strconv.Itoa(min)), m, s, n)
		}
	}
	for i := 0; i < 24; i++ {
		if r.Bool() {
			emit("q " + shape1().String())
		} else {
			emit("q " + shape2().String())
		}
	}
}

func main() {
	// The searches produce a lot of short-lived garbage on a tiny heap; collect less often.
	if os.Getenv("GOGC") == "" {
		debug.SetGCPercent(800)
	}
	hlib.Main(h{})
}
